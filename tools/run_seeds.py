#!/usr/bin/env python3
"""Re-run every stored seeded change against the current checks: tools/run_seeds.py [-j N] [pattern]

Each /verif/seeded/<id>/ is applied to a scratch copy of /repo HEAD (tools/seedcheck.py) and the checks named in its
meta.json are run; the expected outcome is exit 1 for at least one of them - except for the behaviour-preserving refactors (seeded/refactor-*), where exit 1 would be a false alarm. Prints one line per seed."""
import json
import os
import subprocess
import sys
from concurrent.futures import ThreadPoolExecutor

ROOT = os.path.dirname(os.path.dirname(os.path.abspath(__file__)))


def one(name):
    d = os.path.join(ROOT, "seeded", name)
    meta = json.load(open(os.path.join(d, "meta.json")))
    props = ",".join(meta.get("checked_properties") or [meta["property"]])
    r = subprocess.run([sys.executable, os.path.join(ROOT, "tools", "seedcheck.py"), d, "--props", props], capture_output=True, text=True)
    try:
        out = json.loads(r.stdout[r.stdout.index("{") :])
        exits = {k: v["exit"] for k, v in out["checks"].items()}
    except Exception:
        exits = {"error": r.stdout[-200:] + r.stderr[-200:]}
    return name, exits, meta.get("kind", "").startswith("behaviour-preserving")


def main():
    jobs = 8
    args = sys.argv[1:]
    if args and args[0] == "-j":
        jobs = int(args[1])
        args = args[2:]
    names = sorted(n for n in os.listdir(os.path.join(ROOT, "seeded")) if not args or args[0] in n)
    bad = 0
    with ThreadPoolExecutor(jobs) as ex:
        for name, exits, harmless in ex.map(one, names):
            if harmless:  # a behaviour-preserving refactor: any exit 1 is a FALSE ALARM
                ok = all(v in (0, 2) for v in exits.values())
                word = ("no alarm" if ok else "FALSE ALARM") + (" (undecided)" if ok and 2 in exits.values() else "")
            else:
                ok = any(v == 1 for v in exits.values())
                word = "caught" if ok else "NOT CAUGHT"
            bad += not ok
            print("%-50s %s %s" % (name, word, exits), flush=True)
    print("%d stored changes, %d unexpected outcomes" % (len(names), bad))
    return 1 if bad else 0


if __name__ == "__main__":
    sys.exit(main())
