#!/usr/bin/env python3
"""Prepare scratch worktrees for a round of sub-agent changes: tools/prep_round.py <WTROOT> break|refactor [Cxx ...]

For every property: a detached git worktree of /repo HEAD at <WTROOT>/Cxx, an output directory <WTROOT>/Cxx_out holding
PROPERTY.txt (statement + quantifier, nothing from /verif's machinery) and ALREADY_TRIED.txt (one paragraph per change an
earlier round stored for that property), the agent brief at <WTROOT>/AGENT_BRIEF.txt and the ids of the tests that fail on
the unchanged tree (no network) at <WTROOT>/baseline_failures.txt (computed once, single-threaded BLAS).
Remove with: git -C /repo worktree remove --force <WTROOT>/Cxx ...; git -C /repo worktree prune; rm -rf <WTROOT>."""
import json
import os
import subprocess
import sys

ROOT = os.path.dirname(os.path.dirname(os.path.abspath(__file__)))
REPO = os.environ.get("VERIF_REPO", "/repo")


def main():
    wtroot, kind = sys.argv[1], sys.argv[2]
    props = {}
    for line in open(os.path.join(ROOT, "properties.jsonl")):
        d = json.loads(line)
        props[d["id"]] = d
    ids = sys.argv[3:] or sorted(props)
    os.makedirs(wtroot, exist_ok=True)
    brief = open(os.path.join(ROOT, "tools", "briefs", "break.txt" if kind == "break" else "refactor.txt")).read()
    open(os.path.join(wtroot, "AGENT_BRIEF.txt"), "w").write(brief.replace("WTROOT", wtroot))
    tried = {}
    for name in sorted(os.listdir(os.path.join(ROOT, "seeded"))):
        try:
            m = json.load(open(os.path.join(ROOT, "seeded", name, "meta.json")))
        except Exception:
            continue
        harmless = str(m.get("kind", "")).startswith("behaviour-preserving")
        if harmless != (kind != "break"):
            continue
        tried.setdefault(m["property"], []).append("- %s: %s" % (name, (m.get("summary") or "")[:900]))
    for pid in ids:
        wt, out = os.path.join(wtroot, pid), os.path.join(wtroot, pid + "_out")
        if not os.path.isdir(wt):
            subprocess.run(["git", "-C", REPO, "worktree", "add", "--detach", wt, "HEAD"], check=True, capture_output=True)
        os.makedirs(out, exist_ok=True)
        p = props[pid]
        where = "\n".join("  " + f for f in (p.get("anchors") or {}).get("files", []))
        open(os.path.join(out, "PROPERTY.txt"), "w").write("%s - %s\n\n%s\n\nQuantifier: %s\n\nWHERE IT LIVES IN THE CODE (files):\n%s\n" % (pid, p["title"], p["statement"], p["quantifier"]["text"], where))
        open(os.path.join(out, "ALREADY_TRIED.txt" if kind == "break" else "ALREADY_DONE.txt"), "w").write("\n".join(tried.get(pid, ["(nothing yet)"])) + "\n")
    base = os.path.join(wtroot, "baseline_failures.txt")
    if not os.path.exists(base):
        env = dict(os.environ, OMP_NUM_THREADS="1", OPENBLAS_NUM_THREADS="1", MKL_NUM_THREADS="1", NUMBA_NUM_THREADS="1", PYTHONPATH=REPO)
        r = subprocess.run(["/venv/bin/python", "-m", "pytest", "-q", "-p", "no:cacheprovider", "--timeout=900", "-rf", "verde/tests"], cwd=REPO, env=env, capture_output=True, text=True)
        open(base, "w").write("\n".join(sorted(ln.split(" - ")[0] for ln in r.stdout.splitlines() if ln.startswith("FAILED "))) + "\n")
    print("prepared", len(ids), "worktrees under", wtroot)


if __name__ == "__main__":
    main()
