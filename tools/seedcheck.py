#!/usr/bin/env python3
"""Evaluate a seeded change: tools/seedcheck.py <seed_dir> [--props C07,C13] [--tier quick] [--keep]

<seed_dir> holds patch.diff and demo.py. A scratch copy of /repo's HEAD is made OUTSIDE /repo and
/verif, the patch applied there, the demonstration run on both trees and the named checks run
against the scratch copy (VERIF_REPO). The scratch copy is removed afterwards."""
import argparse
import json
import os
import shutil
import subprocess
import sys
import tempfile

ROOT = os.path.dirname(os.path.dirname(os.path.abspath(__file__)))


def sh(cmd, **kw):
    return subprocess.run(cmd, shell=True, text=True, capture_output=True, **kw)


def main():
    ap = argparse.ArgumentParser()
    ap.add_argument("seed")
    ap.add_argument("--props", default=None)
    ap.add_argument("--tier", default="quick")
    ap.add_argument("--keep", action="store_true")
    ap.add_argument("--tests", action="store_true", help="also run the pinned test suite on the changed tree")
    ap.add_argument("--store", default=None, help="seed id: copy patch/demo and write meta.json under /verif/seeded/<id>")
    ap.add_argument("--needs", default=None)
    a = ap.parse_args()
    seed = os.path.abspath(a.seed)
    meta = {}
    if os.path.exists(os.path.join(seed, "meta.json")):
        meta = json.load(open(os.path.join(seed, "meta.json")))
    props = (a.props or meta.get("property") or "").split(",")
    scratch = tempfile.mkdtemp(prefix="seedcheck_", dir="/tmp")
    try:
        r = sh("git -C /repo archive HEAD | tar -x -C %s" % scratch)
        r = sh("patch -p1 -s < %s" % os.path.join(seed, "patch.diff"), cwd=scratch)
        if r.returncode:
            print("PATCH DOES NOT APPLY:", r.stdout, r.stderr)
            return 2
        out = {"seed": os.path.basename(seed), "checks": {}}
        demo = os.path.join(seed, "demo.py")
        if os.path.exists(demo):
            d0 = sh("PYTHONPATH=/repo /venv/bin/python %s" % demo, cwd="/tmp")
            d1 = sh("PYTHONPATH=%s /venv/bin/python %s" % (scratch, demo), cwd="/tmp")
            out["demo_on_repo"], out["demo_on_change"] = d0.returncode, d1.returncode
            out["demo_output_on_change"] = (d1.stdout + d1.stderr)[-400:]
        for p in [x for x in props if x]:
            r = sh("VERIF_EVIDENCE_DIR=%s/.evidence VERIF_REPO=%s %s/.venv/bin/python -m pyvc.cli prop %s --tier %s" % (scratch, scratch, ROOT, p, a.tier), cwd=ROOT)
            lines = [l for l in r.stdout.splitlines() if l.startswith(("VIOLATION", "UNDECIDED", "CHECKER-ERROR", p + " tier"))]
            out["checks"][p] = {"exit": r.returncode, "lines": [l[:260] for l in lines[:6]]}
        if a.tests:
            import re
            base = json.load(open("/root/.vp/BASELINE.json"))
            stable = set(eval(base["stable_pass"]) if isinstance(base["stable_pass"], str) else base["stable_pass"])
            env = "OMP_NUM_THREADS=1 OPENBLAS_NUM_THREADS=1 MKL_NUM_THREADS=1"
            r = sh("%s /venv/bin/python -m pytest -q -p no:cacheprovider --timeout=900 --continue-on-collection-errors --junitxml=%s/junit.xml 2>&1 | tail -3" % (env, scratch), cwd=scratch)
            import xml.etree.ElementTree as ET
            passed = set()
            try:
                for tc in ET.parse(os.path.join(scratch, "junit.xml")).getroot().iter("testcase"):
                    if not any(ch.tag in ("failure", "error", "skipped") for ch in tc):
                        passed.add("%s::%s" % (tc.get("classname"), tc.get("name")))
            except Exception as e:
                out["tests_error"] = str(e)
            out["stable_tests_missing_after_change"] = sorted(stable - passed)
            out["tests_tail"] = r.stdout[-300:]
        print(json.dumps(out, indent=1))
        if a.store:
            dst = os.path.join(ROOT, "seeded", a.store)
            os.makedirs(dst, exist_ok=True)
            for f in ("patch.diff", "demo.py"):
                if os.path.exists(os.path.join(seed, f)) and os.path.abspath(seed) != os.path.abspath(dst):
                    shutil.copy(os.path.join(seed, f), os.path.join(dst, f))
            notes = {}
            if os.path.exists(os.path.join(seed, "notes.json")):
                try:
                    notes = json.load(open(os.path.join(seed, "notes.json")))
                except Exception:
                    notes = {}
            m = {
                "id": a.store,
                "property": props[0] if props else None,
                "checked_properties": props,
                "summary": notes.get("summary"),
                "needs_to_manifest": a.needs or notes.get("needs_to_manifest"),
                "why_tests_pass": notes.get("why_tests_pass"),
                "files": notes.get("files"),
                "confirmed": {
                    "demo_exit_on_repo": out.get("demo_on_repo"),
                    "demo_exit_on_change": out.get("demo_on_change"),
                    "stable_tests_missing_after_change": out.get("stable_tests_missing_after_change", "not run"),
                    "how": "tools/seedcheck.py: scratch copy of /repo HEAD under /tmp, patch -p1, demo.py on /repo and on the copy, pinned pytest suite on the copy (single-threaded BLAS), checks run with VERIF_REPO=<copy>; copy removed",
                },
                "checks": out["checks"],
            }
            json.dump(m, open(os.path.join(dst, "meta.json"), "w"), indent=1)
        sh("rm -f %s/replays/*.json" % ROOT)
        return 0
    finally:
        if not a.keep:
            shutil.rmtree(scratch, ignore_errors=True)


if __name__ == "__main__":
    sys.exit(main())
