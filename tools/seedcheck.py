#!/usr/bin/env python3
"""Evaluate a seeded change: tools/seedcheck.py <seed_dir> [--props C07,C13] [--tier quick] [--keep]

<seed_dir> holds patch.diff and demo.py. A scratch copy of /repo's HEAD is made OUTSIDE /repo and
/verif, the patch applied there, the demonstration run on both trees and the named checks run
against the scratch copy (VERIF_REPO). The scratch copy is removed afterwards."""
import argparse
import json
import os
import shutil
import subprocess
import sys
import tempfile

ROOT = os.path.dirname(os.path.dirname(os.path.abspath(__file__)))


def sh(cmd, **kw):
    return subprocess.run(cmd, shell=True, text=True, capture_output=True, **kw)


def main():
    ap = argparse.ArgumentParser()
    ap.add_argument("seed")
    ap.add_argument("--props", default=None)
    ap.add_argument("--tier", default="quick")
    ap.add_argument("--keep", action="store_true")
    a = ap.parse_args()
    seed = os.path.abspath(a.seed)
    meta = {}
    if os.path.exists(os.path.join(seed, "meta.json")):
        meta = json.load(open(os.path.join(seed, "meta.json")))
    props = (a.props or meta.get("property") or "").split(",")
    scratch = tempfile.mkdtemp(prefix="seedcheck_", dir="/tmp")
    try:
        r = sh("git -C /repo archive HEAD | tar -x -C %s" % scratch)
        r = sh("patch -p1 -s < %s" % os.path.join(seed, "patch.diff"), cwd=scratch)
        if r.returncode:
            print("PATCH DOES NOT APPLY:", r.stdout, r.stderr)
            return 2
        out = {"seed": os.path.basename(seed), "checks": {}}
        demo = os.path.join(seed, "demo.py")
        if os.path.exists(demo):
            d0 = sh("PYTHONPATH=/repo /venv/bin/python %s" % demo, cwd="/tmp")
            d1 = sh("PYTHONPATH=%s /venv/bin/python %s" % (scratch, demo), cwd="/tmp")
            out["demo_on_repo"], out["demo_on_change"] = d0.returncode, d1.returncode
            out["demo_output_on_change"] = (d1.stdout + d1.stderr)[-400:]
        for p in [x for x in props if x]:
            r = sh("VERIF_REPO=%s %s/.venv/bin/python -m pyvc.cli prop %s --tier %s" % (scratch, ROOT, p, a.tier), cwd=ROOT)
            lines = [l for l in r.stdout.splitlines() if l.startswith(("VIOLATION", "UNDECIDED", "CHECKER-ERROR", p + " tier"))]
            out["checks"][p] = {"exit": r.returncode, "lines": [l[:260] for l in lines[:6]]}
        print(json.dumps(out, indent=1))
        sh("rm -f %s/replays/*.json" % ROOT)
        return 0
    finally:
        if not a.keep:
            shutil.rmtree(scratch, ignore_errors=True)


if __name__ == "__main__":
    sys.exit(main())
