#!/usr/bin/env python3
"""Regenerate MANIFEST.json from props/*.py metadata (run with any python3)."""
import ast
import json
import os
import re

ROOT = os.path.dirname(os.path.dirname(os.path.abspath(__file__)))
props = [json.loads(l) for l in open(os.path.join(ROOT, "properties.jsonl"))]


def meta(pid):
    p = os.path.join(ROOT, "props", pid + ".py")
    if not os.path.exists(p):
        return None
    tree = ast.parse(open(p).read())
    out = {}
    for node in tree.body:
        if isinstance(node, ast.Assign) and len(node.targets) == 1 and isinstance(node.targets[0], ast.Name):
            try:
                out[node.targets[0].id] = ast.literal_eval(node.value)
            except Exception:
                pass
    return out


NOT_BUILT = "check not built yet (work in progress; see DESIGN.md section 10 build order)"
na_file = os.path.join(ROOT, "tools", "not_applicable.json")
na_reasons = json.load(open(na_file)) if os.path.exists(na_file) else {}

checks, na, served = [], [], []
for p in props:
    pid = p["id"]
    m = meta(pid)
    if m is None or not m.get("REGISTER", True):
        na.append({"property_id": pid, "reason": na_reasons.get(pid, NOT_BUILT)})
        continue
    served.append(pid)
    level = m.get("LEVEL", "proof")
    checks.append(
        {
            "property_id": pid,
            "quick_cmd": "bin/vcheck prop %s --tier quick" % pid,
            "thorough_cmd": "bin/vcheck prop %s --tier thorough" % pid,
            "evidence_file": "evidence/%s.json" % pid,
            "replay_cmd_template": "bin/vcheck replay {path}",
            "engine": "pyvc",
            "level_claimed": {
                "category": level,
                "text": m.get("EXPLANATION", ""),
                "design_ref": "DESIGN.md section 7 (%s), sections 2-6 for the verifier and its trusted base" % pid,
            },
            "level_note": m.get(
                "LEVEL_NOTE",
                "Proved over the reals/unbounded integers (floating point only in the bounded stage), relative to the assumed "
                "contracts on numpy/scipy/sklearn/pandas/xarray listed in the evidence (trusted_base) and to the pyvc engine "
                "(proxy semantics, view/write model, path explorer) and z3. Array ranks are enumerated; sizes and values are symbolic.",
            ),
            "technique": m.get(
                "TECHNIQUE",
                "contract-based deductive verification: sidecar contracts on the real functions, shadow symbolic execution by CPython, "
                "obligations discharged by z3; bounded run-time contract checking as labelled stand-in",
            ),
        }
    )

manifest = {
    "version": 1,
    "setup_cmd": "bin/setup",
    "hooks": {
        "guard": "FATIANDO_VERDE_VERIF",
        "enable": "no source hooks are needed: contracts are sidecar files under /verif/contracts and every check imports verde straight from /repo's working tree (VERIF_REPO overrides the tree for scratch copies)",
        "baseline_off_cmd": "cd /repo && /venv/bin/python -m pytest -ra -q -p no:cacheprovider --timeout=900 --continue-on-collection-errors",
        "source_commits": [],
        "add_only": True,
    },
    "engines": [
        {
            "name": "pyvc",
            "path": "pyvc/",
            "serves_properties": served,
            "kind_free_text": "contract-based deductive verifier written for this task: the real verde function objects are executed by CPython on symbolic proxies (numbers, ndarrays with symbolic sizes, views and a write log); numpy & co. are replaced in-process by assumed contracts, verde callees by their own contracts; every postcondition / precondition / frame / raises clause becomes a named obligation discharged by z3; counter-models are replayed on the real code",
        }
    ],
    "checks": checks,
    "not_applicable": na,
    "notes": "Exit codes of every check: 0 held, 1 VIOLATION (refuted obligation or failing concrete input), 2 undecided (solver unknown / code left the supported subset), 3 checker error or vacuity guard. Known findings: known_findings.json. See DESIGN.md.",
}
json.dump(manifest, open(os.path.join(ROOT, "MANIFEST.json"), "w"), indent=1)
print("checks:", served, "not_applicable:", [x["property_id"] for x in na])
