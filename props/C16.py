"""C16 - Hull masking and grid projection keep values only where data constrain them."""
from pyvc.bounded import run_samplers

PROPERTY = "C16"
LEVEL = "other"
CONTRACT_MODULES = ["contracts.coordinates_c07", "contracts.coordinates_c13", "contracts.blocks_c08", "contracts.base_utils", "contracts.neighbors_c15", "contracts.grids_c18", "contracts.hull_c16"]
TARGETS = ["verde.mask:convexhull_mask", "verde.mask:_get_grid_coordinates", "verde.projections:project_grid", "C16:wiring:verde.projections:project_grid", "contracts.hull_c16:project_grid_case"]
MIN_OBLIGATIONS = {"quick": 30, "thorough": 30}
EXPLANATION = (
    "MIXED, claimed as 'other'. Deductive (relative to the assumed contract 'Delaunay.find_simplex != -1 <=> inside the hull of the "
    "triangulated points'): convexhull_mask triangulates exactly the (projected) data points normalised by THEIR OWN mean and standard "
    "deviation, normalises the query with the SAME data statistics, returns True exactly where the normalised query is in that hull, "
    "in the query's shape; its grid form blanks exactly the cells (northing row, easting column) outside the hull and keeps the other "
    "values; project_grid's three argument rejections. NOT decidable by contracts (qhull / scipy interpolators / floating point): "
    "finite inside, affine reproduction, range preservation with antialiasing, scale up to 1e7 - BOUNDED run-time contracts on integer "
    "lattices with exact rational hull tests, affine and monotone projections, the three methods and both antialias settings."
)
TECHNIQUE = "contracts: hull-mask glue by deductive verification (pyvc/z3) relative to an assumed Delaunay contract; value claims of project_grid by bounded run-time contract checking with exact rational hull tests (stand-in, not proof)"
ASSUMPTIONS = [
    "scipy.spatial.Delaunay(points).find_simplex(x) != -1 iff x is in the convex hull of points (boundary either way)",
    "mean / std of a whole array are opaque functions of its contents (std >= 0)",
    "hull membership is invariant under per-axis positive affine maps (mathematical fact, not used by any obligation; the scale/offset independence claim is checked by the bounded stage)",
]


def bounded(tier, seed):
    return run_samplers(TARGETS, tier, seed)
