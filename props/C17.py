"""C17 - longitude_continuity yields a valid region with unchanged angular meaning."""
from pyvc.bounded import run_samplers

PROPERTY = "C17"
LEVEL = "proof"
CONTRACT_MODULES = ["contracts.coordinates_c07", "contracts.coordinates_c17"]
M = "verde.coordinates"
TARGETS = [M + ":longitude_continuity", M + ":_check_geographic_region", M + ":_check_geographic_coordinates"]
MIN_OBLIGATIONS = {"quick": 40, "thorough": 40}
EXPLANATION = (
    "longitude_continuity is proved (linear mixed integer/real arithmetic with floor-mod) to return W'<=E', congruent "
    "bounds, the eastward width, untouched latitudes, congruent longitudes in the convention of the returned region "
    "and the membership equivalence, for ALL representable arcs and all longitude arrays; range rejections are "
    "raises-clauses. Known finding F1 (east bound on a seam) is carved out of exactly the clauses it breaks."
)
ASSUMPTIONS = [
    "np.allclose(a, 360) is |a-360| <= 1e-8 + 1e-5*360 over the reals",
    "python % on floats is floor-mod over the reals",
]


def bounded(tier, seed):
    return run_samplers(TARGETS, tier, seed)
