"""C01 - Exact interpolators reproduce the data at the data points."""
from pyvc.bounded import run_samplers

PROPERTY = "C01"
LEVEL = "other"
CONTRACT_MODULES = ["contracts.coordinates_c07", "contracts.coordinates_c13", "contracts.blocks_c08", "contracts.base_utils", "contracts.spline_c03", "contracts.vector_c03", "contracts.models_c03", "contracts.lsq_c02", "contracts.neighbors_c15", "contracts.compose_c06", "contracts.exact_c01"]
TARGETS = [
    "contracts.exact_c01:lemma_spline_exact",
    "contracts.exact_c01:lemma_knn_exact",
    "contracts.exact_c01:exact_fit_predict",
    "contracts.exact_c01:trend_reproduces_polynomial",
    # the callee contracts the spline lemma is proved against (modular proof: a change inside one of them is
    # noticed only by that callee's own obligations, so they are discharged by this check as well)
    "verde.spline:greens_func_numpy",
    "verde.spline:predict_numpy",
    "verde.spline:jacobian_numpy",
    "verde.spline:Spline.jacobian",
    # "... and any Chain or Vector assembled from them": the composition contracts (steps in order, each exactly once,
    # prediction = sum over exactly the steps that can predict - also when steps share a label)
    "verde.chain:Chain.fit",
    "verde.chain:Chain.predict",
    "verde.vector:Vector.fit",
    "verde.vector:Vector.predict",
]
MIN_OBLIGATIONS = {"quick": 10, "thorough": 10}
EXPLANATION = (
    "MIXED, claimed as 'other'. Deductive (over the reals): the REAL Spline.fit + Spline.predict, executed with their callees replaced "
    "by contracts, reproduce the data at the data points (forces are copies of the raveled data coordinates => the system is square; "
    "predict and jacobian share kernel, mindist and force order => sum_t K(p,t) f_t = (J f)_p by the sum congruence rule; J f = d is "
    "the ASSUMED exactness of an undamped, nonsingular solve); the REAL KNeighbors(k=1).fit + predict return each datum at its own "
    "point for pairwise-distinct points (nearest neighbour of a data point is itself: derived from the kd-tree contract); the "
    "composition contracts of Chain / Vector fit and predict (every step exactly once and in order, prediction = sum over exactly the "
    "steps that can predict, also when steps share a label) carry the clause 'any Chain or Vector assembled from them'. The claim "
    "'up to a tolerance proportional to the conditioning' is floating-point behaviour of scikit-learn/scipy: BOUNDED run-time contract "
    "over scales 1e-2..1e6, offsets up to 1e3 x extent, all exact-interpolator configurations incl. Chain/Vector compositions, and "
    "Trend(N) on random polynomials of degree <= N for N = 0..4 (reproduced at other locations). Never counted as proved."
)
TECHNIQUE = "contracts: exactness lemmas over the real fit/predict code by deductive verification (pyvc/z3, sum congruence rule); conditioning-scaled tolerance by bounded run-time contract checking (stand-in, not proof)"
ASSUMPTIONS = [
    "an undamped least-squares solve of a square nonsingular system satisfies J p = d (assumed fact about the optimum)",
    "sums compared by the congruence rule",
    "systems with condition number > 1e5 (after column scaling) are outside the checked tolerance model (see known finding F6)",
]


def bounded(tier, seed):
    return run_samplers(TARGETS, tier, seed)
