"""C08 - block_split assigns every point to the one block that contains it."""
from pyvc.bounded import run_samplers

PROPERTY = "C08"
LEVEL = "proof"
CONTRACT_MODULES = ["contracts.coordinates_c07", "contracts.coordinates_c13", "contracts.blocks_c08"]
M = "verde.coordinates"
TARGETS = [M + ":block_split", "verde.utils:kdtree", "verde.base.utils:n_1d_arrays", "verde.base.utils:check_coordinates"]
MIN_OBLIGATIONS = {"quick": 60, "thorough": 60}
EXPLANATION = (
    "block_split is proved to return the raveled pixel-registered grid of the region as block centres (row-major from the "
    "south-west corner), one valid label per raveled point, the nearest-centre rule for every point (hence the nearest border "
    "block for outside points), and - by the rectangular-Voronoi argument, discharged by z3 in nonlinear real arithmetic, not "
    "assumed - the label of the containing block for every point strictly inside a block; for all point clouds, regions, "
    "spacings and shapes. grid_coordinates, get_region, kdtree, n_1d_arrays are used through their own contracts."
)
ASSUMPTIONS = ["cKDTree.query(k=1) returns for every query row the index of a data row minimising the Euclidean distance"]


def bounded(tier, seed):
    return run_samplers(TARGETS, tier, seed)
