"""C11 - Blocked cross-validators never split a block and partition the data."""
from pyvc.bounded import run_samplers

PROPERTY = "C11"
LEVEL = "other"
CONTRACT_MODULES = ["contracts.cv_c11"]
TARGETS = [
    "verde.model_selection:BlockKFold.__init__",
    "verde.model_selection:BlockShuffleSplit.__init__",
    "verde.base.base_classes:BaseBlockCrossValidator.get_n_splits",
    "verde.utils:partition_by_sum",
    "contracts.cv_c11:kfold_test_sets",
    "contracts.cv_c11:shuffle_test_sets",
    "contracts.cv_c11:kfold_splits",
    "contracts.cv_c11:shuffle_splits",
]
MIN_OBLIGATIONS = {"quick": 200, "thorough": 200}
EXPLANATION = (
    "MIXED, claimed as 'other'. DEDUCTIVE (pyvc/z3): constructor rejections / parameter storage / get_n_splits (symbolic parameters); "
    "partition_by_sum for EVERY array of 1..4 (quick) / 1..5 (thorough) positive integers and every number of parts (split points "
    "strictly increasing inside the array, no empty part, every part sum within max element + parts of the ideal; ValueError required "
    "when parts > size); the REAL BlockKFold._iter_test_indices for an arbitrary number of samples with arbitrary labels and exactly "
    "G = 2..3 (quick) / 2..4 (thorough) occupied blocks, all n_splits <= G, shuffle and balance on/off: exactly n_splits test sets, "
    "every sample tested exactly once, a test set never splits a block, no test set empty, and - when balancing - the populations "
    "handed to partition_by_sum are position by position those of the blocks in the (shuffled) order the folds are cut from; "
    "n_splits > G rejected; the REAL BlockShuffleSplit._iter_test_indices under the same structural bound (G = 2..3 occupied "
    "blocks, 1-2 splits, 1-3 balancing candidates per split, integer test sizes, scikit-learn's ShuffleSplit replaced by an assumed "
    "contract: candidates of the prescribed sizes, disjoint train/test block sets): every yielded test set is the set of ALL samples of "
    "the test blocks of one candidate of its own round, and that candidate's point balance is minimal among the round's candidates. "
    "BOUNDED (run-time contracts on the real classes, never counted as proved): the same split clauses plus the "
    "balance bound, BlockShuffleSplit (prescribed block counts, best-balanced candidate) and reproducibility, exhaustively over "
    "block-occupancy vectors of length <= 4 with entries <= 3 (quick) or sampled up to length 6 / entries 4 (thorough), and over "
    "12..40 very unevenly populated blocks."
)
TECHNIQUE = "contracts: constructors, partition_by_sum and the fold wiring of BlockKFold and BlockShuffleSplit by deductive verification (pyvc/z3, structural bound on the number of occupied blocks); the balance bound, fractional test sizes, reproducibility and larger layouts by bounded run-time contract checking (stand-in, not proof)"
LEVEL_NOTE = "Proofs: constructors, partition_by_sum (array length <= 4/5, values symbolic), BlockKFold (<= 3/4 occupied blocks) and BlockShuffleSplit (<= 3 occupied blocks) fold wiring (samples and labels symbolic; scikit-learn's KFold / ShuffleSplit under assumed contracts). The count additivity behind 'balanced within one block population' and layouts with more blocks are bounded run-time contract checks against scikit-learn's real splitters."
ASSUMPTIONS = ["verde.block_split labels (used as the oracle for 'same block') are correct - proved separately under C08"]


def bounded(tier, seed):
    return run_samplers(TARGETS, tier, seed)
