"""C11 - Blocked cross-validators never split a block and partition the data."""
from pyvc.bounded import run_samplers

PROPERTY = "C11"
LEVEL = "other"
CONTRACT_MODULES = ["contracts.cv_c11"]
TARGETS = [
    "verde.model_selection:BlockKFold.__init__",
    "verde.model_selection:BlockShuffleSplit.__init__",
    "verde.base.base_classes:BaseBlockCrossValidator.get_n_splits",
    "verde.utils:partition_by_sum",
    "contracts.cv_c11:kfold_splits",
    "contracts.cv_c11:shuffle_splits",
]
MIN_OBLIGATIONS = {"quick": 10, "thorough": 10}
EXPLANATION = (
    "MIXED, claimed as 'other': the constructor rejections / parameter storage / get_n_splits are discharged deductively (symbolic "
    "parameters). The split behaviour itself (partition, whole blocks, disjoint covering non-empty folds, balance bound, prescribed "
    "block counts, best-balanced candidate, reproducibility) and partition_by_sum are checked by RUN-TIME contracts on the real classes, "
    "BOUNDED: exhaustively over block-occupancy vectors of length <= 4 with entries <= 3 (quick) or sampled up to length 6 / entries 4 "
    "(thorough) x n_splits x shuffle/balance - never counted as proved. Bringing np.unique/isin/where/split and scikit-learn's KFold / "
    "ShuffleSplit index sets within the verifier's reach is future work (DESIGN.md)."
)
TECHNIQUE = "contracts: constructors by deductive verification (pyvc/z3); splitters by bounded run-time contract checking over enumerated block-occupancy vectors (stand-in, not proof)"
LEVEL_NOTE = "Only the constructor / parameter obligations are proofs. Everything about the produced splits is a bounded run-time contract check against scikit-learn's real splitters and verde.block_split (itself proved under C08)."
ASSUMPTIONS = ["verde.block_split labels (used as the oracle for 'same block') are correct - proved separately under C08"]


def bounded(tier, seed):
    return run_samplers(TARGETS, tier, seed)
