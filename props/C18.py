"""C18 - Grid <-> table conversions preserve every value at its own coordinates."""
from pyvc.bounded import run_samplers

PROPERTY = "C18"
LEVEL = "proof"
CONTRACT_MODULES = ["contracts.coordinates_c07", "contracts.coordinates_c13", "contracts.blocks_c08", "contracts.grids_c18"]
UT = "verde.utils"
TARGETS = [UT + ":make_xarray_grid", UT + ":meshgrid_to_1d", UT + ":meshgrid_from_1d", UT + ":check_meshgrid", UT + ":get_ndim_horizontal_coords", UT + ":grid_to_table", "verde.base.utils:check_data_names", "verde.base.utils:check_extra_coords_names", "contracts.grids_c18:lemma_grid_table_roundtrip"]
MIN_OBLIGATIONS = {"quick": 100, "thorough": 100}
EXPLANATION = (
    "make_xarray_grid is proved to build a Dataset whose index coordinates are the easting/northing vectors (first row / first column of "
    "a meshgrid input), whose variables and extra coordinates sit at their own (northing, easting) cells with the requested names and "
    "dims, rejecting non-meshgrid 2-D inputs (numpy.allclose semantics) and mismatched name counts; grid_to_table is proved to return "
    "one row per cell in row-major order carrying that cell's coordinates, extra coordinates and every variable (Dataset, named / "
    "unnamed DataArray, coordinates declared in any order); the 1-D/2-D conversions are mutually inverse and the round trip is a lemma "
    "over the two contracts - relative to the assumed xarray/pandas constructor contracts."
)
ASSUMPTIONS = ["xarray.Dataset / DataArray / pandas.DataFrame constructors store the given arrays under the given names and dims (size conformity checked as obligations)"]


def bounded(tier, seed):
    return run_samplers(TARGETS, tier, seed)
