"""C09 - BlockReduce returns one correctly reduced value per non-empty block."""
from pyvc.bounded import run_samplers

PROPERTY = "C09"
LEVEL = "proof"
CONTRACT_MODULES = ["contracts.coordinates_c07", "contracts.coordinates_c13", "contracts.blocks_c08", "contracts.base_utils", "contracts.blockmean_c10", "contracts.blockreduce_c09"]
TARGETS = ["verde.blockreduce:BlockReduce.filter"]
MIN_OBLIGATIONS = {"quick": 40, "thorough": 40}
EXPLANATION = (
    "BlockReduce.filter (attach_weights and _block_coordinates inlined) is proved, relative to the assumed set-level contract of pandas "
    "groupby / numpy.unique and to block_split's contract (C08), to return exactly one entry per distinct block label in ascending "
    "order, whose value is the reduction applied to precisely the data values of that block's points - with weights_i restricted to the "
    "SAME block for data component i - and whose coordinates are the unweighted reduction of the member coordinates or the centre of "
    "that very block (block_centre[label]); extra coordinates reduced unless drop_coords. Aggregations are uninterpreted functions of "
    "(member set, values, weights), so the proof is about WHICH values meet WHICH weights in WHICH block; the arithmetic of the "
    "reductions and 'sum adds up to the total' are checked by the bounded stage against explicit per-block loops."
)
ASSUMPTIONS = [
    "pandas groupby(label).aggregate: one row per distinct label in ascending order; each reduction receives exactly the rows of its group with their original row index",
    "numpy.unique returns the distinct labels in ascending order (the same group structure)",
]


def bounded(tier, seed):
    return run_samplers(TARGETS, tier, seed)
