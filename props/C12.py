"""C12 - Scores come from models fitted on training data only, with the stated metric."""
from pyvc.bounded import run_samplers

PROPERTY = "C12"
LEVEL = "proof"
CONTRACT_MODULES = ["contracts.coordinates_c07", "contracts.coordinates_c13", "contracts.blocks_c08", "contracts.base_utils", "contracts.compose_c06", "contracts.scoring_c12"]
MS = "verde.model_selection"
TARGETS = [
    "verde.base.utils:score_estimator",
    "verde.base.base_classes:BaseGridder.score",
    MS + ":select",
    MS + ":fit_score",
    MS + ":cross_val_score",
    MS + ":train_test_split",
    "verde.spline:SplineCV.fit",
    "verde.spline:SplineCV.predict",
    "contracts.scoring_c12:cross_val_reference", "contracts.scoring_c12:splinecv_reference",
]
MIN_OBLIGATIONS = {"quick": 60, "thorough": 60}
EXPLANATION = (
    "The real score_estimator / BaseGridder.score / select / fit_score / cross_val_score / train_test_split / SplineCV.fit / predict run "
    "on an abstract estimator whose predictions depend on WHAT it was fitted on (a token of the fit arguments) and with the scikit-learn "
    "scorer as an uninterpreted function of (y_true, y_pred, sample_weight). Proved for all data values and all row-index contents: every "
    "split's score is the requested metric (R2 by default), averaged over components with the matching weight component, of a FRESH clone "
    "fitted on the selected training rows only and evaluated on the test rows only, every coordinate / data / weight component selected "
    "with the same index; the estimator passed in receives no attribute; with dask.delayed every task owns its clone and computing the "
    "tasks in reverse order gives the same scores (no shared mutable object); train_test_split applies one split identically to all "
    "components and forwards the block settings; SplineCV evaluates the candidates in product order, selects the arg-max of the mean "
    "scores, refits a new Spline with exactly those parameters on all the data, and predict delegates to it. Split counts (1-3) and split "
    "sizes (3 train / 2 test rows) are enumerated, not symbolic; KFold/ShuffleSplit themselves and the metrics are scikit-learn's "
    "(bounded stage: scores compared with independently fitted models)."
)
ASSUMPTIONS = [
    "check_scoring(...)(est, X, y, sample_weight) = metric(y, est.predict(X), sample_weight) (scorer opaque)",
    "sklearn.base.clone returns a fresh unfitted estimator with the same constructor parameters (the real clone runs)",
    "dask.delayed(f)(*args).compute() calls f exactly once on those arguments",
    "number of splits (1-3) and rows per split (3 train, 2 test) are enumerated",
]


def bounded(tier, seed):
    return run_samplers(TARGETS, tier, seed)
