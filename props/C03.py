"""C03 - Predictions evaluate the documented analytic models with the fitted parameters."""
from pyvc.bounded import run_samplers

PROPERTY = "C03"
LEVEL = "proof"
CONTRACT_MODULES = ["contracts.coordinates_c07", "contracts.coordinates_c13", "contracts.blocks_c08", "contracts.base_utils", "contracts.spline_c03"]
SP = "verde.spline"
TARGETS = [SP + ":greens_func_numpy", SP + ":predict_numpy", SP + ":jacobian_numpy", SP + ":Spline.predict", SP + ":Spline.jacobian"]
MIN_OBLIGATIONS = {"quick": 30, "thorough": 30}
EXPLANATION = "work in progress"
ASSUMPTIONS = []


def bounded(tier, seed):
    return run_samplers(TARGETS, tier, seed)
