"""C03 - Predictions evaluate the documented analytic models with the fitted parameters."""
from pyvc.bounded import run_samplers

PROPERTY = "C03"
LEVEL = "proof"
CONTRACT_MODULES = ["contracts.coordinates_c07", "contracts.coordinates_c13", "contracts.blocks_c08", "contracts.base_utils", "contracts.spline_c03", "contracts.vector_c03", "contracts.models_c03"]
SP = "verde.spline"
VC = "verde.vector"
TARGETS = [SP + ":greens_func_numpy", SP + ":predict_numpy", SP + ":jacobian_numpy", SP + ":Spline.predict", SP + ":Spline.jacobian"]
TARGETS += ["verde.trend:polynomial_power_combinations", "verde.trend:Trend.jacobian", "verde.trend:Trend.predict", "verde.synthetic:CheckerBoard.predict", "verde.scipygridder:_BaseScipyGridder.fit", "verde.scipygridder:_BaseScipyGridder.predict"]
TARGETS += [VC + ":greens_func_2d", VC + ":predict_2d_numpy", VC + ":jacobian_2d_numpy", VC + ":VectorSpline2D.predict", VC + ":VectorSpline2D.jacobian"]
TARGETS += ["contracts.spline_c03:large_prediction"]  # bounded only: sizes with queries x forces beyond 1e7
MIN_OBLIGATIONS = {"quick": 30, "thorough": 30}
EXPLANATION = (
    "Each analytic model is proved equal to its documented formula for ALL inputs over the reals: the biharmonic Green's function "
    "g(r)=r^2(ln r-1) with g(0)=0 through the real masked piecewise code (log arguments proved positive, so finite at coincident "
    "points), the prediction loops by a loop invariant over partial sums (unbounded number of forces), the Jacobians entry by entry "
    "(functions of coordinate differences only), the Sandwell-Wessel elastic kernels and the 2x2 block layout block by block, the "
    "Trend monomial order (degrees 0..6 enumerated) with Jacobian columns and prediction polynomial over the same sequence, the "
    "CheckerBoard formula with half-extent default wavelengths, and the SciPy class / rescale flag / point-value pairing of the "
    "SciPy-backed gridders. Sums are compared by the congruence rule only; log/sqrt/sin/cos are uninterpreted with the listed facts."
)
ASSUMPTIONS = [
    "log(pow(x,x)) = x*log(x) for x>0, pow(0,0)=1, log(1)=0; sqrt(x)^2=x; sin/cos uninterpreted",
    "boolean-mask get/set pairs with the same mask address the same elements (numpy semantics of a[m] = f(b[m]))",
    "scipy.interpolate classes are opaque: only WHICH class is built from WHICH points/values/kwargs is verified",
]


def bounded(tier, seed):
    return run_samplers(TARGETS, tier, seed)
