"""C07 - Regular coordinates honour region, spacing, shape and registration."""
from pyvc.bounded import run_samplers

PROPERTY = "C07"
LEVEL = "proof"
CONTRACT_MODULES = ["contracts.coordinates_c07"]
M = "verde.coordinates"
TARGETS = [
    M + ":spacing_to_size",
    M + ":line_coordinates",
    M + ":grid_coordinates",
    M + ":shape_to_spacing",
    M + ":profile_coordinates",
    M + ":check_region",
    "contracts.coordinates_c07:lemma_shape_to_spacing_inverts_shape",
]
MIN_OBLIGATIONS = {"quick": 100, "thorough": 100}
EXPLANATION = (
    "Every node of line_coordinates / grid_coordinates / profile_coordinates is proved equal to its closed form "
    "(start + i*step, pixel midpoints, meshgrid orientation, constant extras) for ALL regions, spacings, shapes and "
    "sizes over the reals, by shadow symbolic execution of the real functions under sidecar contracts; callees are "
    "replaced by their contracts. Floating-point end points and .5-tie rounding are covered only by the bounded lattice."
)
ASSUMPTIONS = [
    "np.linspace returns start + i*(stop-start)/(num-1) (num==1: [start]) over the reals",
    "np.meshgrid(x, y) returns X[r,c]=x[c], Y[r,c]=y[r] with shape (len(y), len(x))",
    "python round() is round-half-even; int() truncates",
]


def bounded(tier, seed):
    return run_samplers(TARGETS, tier, seed)
