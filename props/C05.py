"""C05 - grid/profile/scatter place each prediction at the right coordinate."""
from pyvc.bounded import run_samplers

PROPERTY = "C05"
LEVEL = "proof"
CONTRACT_MODULES = ["contracts.lsq_c02", "contracts.neighbors_c15", "contracts.coordinates_c07", "contracts.coordinates_c13", "contracts.blocks_c08", "contracts.base_utils", "contracts.grids_c18", "contracts.compose_c06", "contracts.spline_c03", "contracts.vector_c03", "contracts.models_c03", "contracts.gridder_c05"]
BC = "verde.base.base_classes"
TARGETS = [BC + ":BaseGridder.grid", BC + ":BaseGridder.profile", BC + ":BaseGridder.scatter", BC + ":project_coordinates", BC + ":get_instance_region", "verde.synthetic:CheckerBoard.scatter"]
# "region defaulting to the bounding box of the fitted data": region_ is written by every fit - their contracts carry the
# clause region_ == tight bounding box of the coordinates GIVEN to fit (for Chain: not those of a later, block-reduced step)
TARGETS += ["verde.chain:Chain.fit", "verde.vector:Vector.fit", "verde.trend:Trend.fit", "verde.spline:Spline.fit", "verde.vector:VectorSpline2D.fit", "verde.neighbors:KNeighbors.fit", "verde.scipygridder:_BaseScipyGridder.fit"]
MIN_OBLIGATIONS = {"quick": 100, "thorough": 100}
EXPLANATION = (
    "The real BaseGridder.grid / profile / scatter run on an ABSTRACT gridder (predict = an arbitrary uninterpreted function of "
    "(easting, northing) per component - in particular every asymmetric analytic one). Proved for all regions, shapes, spacings, sizes: "
    "the Dataset's axes are exactly those of grid_coordinates for the requested region/shape/spacing/adjust/pixel_register (region "
    "defaulting to region_) or the given 1-D / meshgrid coordinates; value[row i, col j] is the prediction at (easting[j], northing[i]), "
    "at the PROJECTED point when a projection is given while the stored axes stay unprojected; names, dims, extra coordinates, metadata "
    "on the grid and on each variable; the argument-conflict errors. profile: end points projected first, distance column = Cartesian "
    "distance from the first point, coordinates mapped back with the inverse projection, column order; scatter: the points are "
    "scatter_points(region, size, random_state), predictions at the (projected) points. Relative to the xarray/pandas constructor contracts."
)
ASSUMPTIONS = ["projections are arbitrary point-wise functions (uninterpreted); inverse=True is an independent uninterpreted function (no inverse law is needed by the clauses)"]


def bounded(tier, seed):
    return run_samplers(TARGETS, tier, seed)
