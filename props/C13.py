"""C13 - Regions, bounds and point-in-region tests are tight and consistent."""
from pyvc.bounded import run_samplers

PROPERTY = "C13"
LEVEL = "proof"
CONTRACT_MODULES = ["contracts.coordinates_c07", "contracts.coordinates_c13"]
M = "verde.coordinates"
TARGETS = [
    M + ":check_region",
    M + ":get_region",
    M + ":pad_region",
    M + ":inside",
    M + ":scatter_points",
    "contracts.coordinates_c13:lemma_scatter_points_reproducible",
    "verde.projections:project_region",
    "verde.utils:maxabs",
    # "every node produced by grid_coordinates lies inside the requested region": clause nodes_lie_within_start_and_stop
    M + ":line_coordinates",
    M + ":grid_coordinates",
]
MIN_OBLIGATIONS = {"quick": 60, "thorough": 60}
EXPLANATION = (
    "get_region / inside / pad_region / scatter_points / project_region / maxabs / check_region are proved against "
    "postconditions taken from the statement (tight bounding box, closed-box predicate element-wise incl. the shared "
    "out= buffers, pads, in-range draws, bounding box of the projected node set for an ARBITRARY projection) for all "
    "array sizes and values over the reals; consistency statements are lemmas over the contracts."
)
ASSUMPTIONS = [
    "np.min/np.max/nanmin/nanmax return a lower/upper bound that is attained (arrays non-empty)",
    "RandomState.uniform(low, high, size)[i] = low + (high-low)*u with u in [0,1) a function of (seed, call number, i)",
    "comparison ufuncs with out= write exactly the element-wise result into the given buffer",
]


def bounded(tier, seed):
    return run_samplers(TARGETS, tier, seed)
