"""C20 - Calls are pure, repeatable, history-free and reject inconsistent input (roll-up)."""
from pyvc.bounded import run_samplers

PROPERTY = "C20"
LEVEL = "proof"
CONTRACT_MODULES = [
    "contracts.coordinates_c07", "contracts.coordinates_c13", "contracts.coordinates_c17", "contracts.blocks_c08", "contracts.windows_c14", "contracts.base_utils",
    "contracts.neighbors_c15", "contracts.spline_c03", "contracts.vector_c03", "contracts.models_c03", "contracts.lsq_c02", "contracts.compose_c06",
    "contracts.grids_c18", "contracts.gridder_c05", "contracts.io_c19", "contracts.blockmean_c10", "contracts.blockreduce_c09", "contracts.scoring_c12",
    "contracts.hull_c16", "contracts.cv_c11", "contracts.purity_c20",
]
# only these obligation kinds are discharged in this roll-up: writes to arguments / undeclared attributes, required and
# allowed exceptions, preconditions of callees and domain obligations. The functional postconditions belong to C01..C19.
PROVE_KINDS = {"frame", "raises", "call", "domain", "history"}
TARGETS = [
    # purity (frame obligation of every public callable under contract) and rejection (raises clauses)
    "verde.coordinates:check_region", "verde.coordinates:get_region", "verde.coordinates:pad_region", "verde.coordinates:inside", "verde.coordinates:scatter_points",
    "verde.coordinates:line_coordinates", "verde.coordinates:grid_coordinates", "verde.coordinates:spacing_to_size", "verde.coordinates:shape_to_spacing", "verde.coordinates:profile_coordinates",
    "verde.coordinates:block_split", "verde.coordinates:rolling_window", "verde.coordinates:expanding_window", "verde.coordinates:longitude_continuity",
    "verde.projections:project_region", "verde.utils:maxabs", "verde.utils:variance_to_weights", "verde.utils:make_xarray_grid", "verde.utils:grid_to_table",
    "verde.utils:meshgrid_to_1d", "verde.utils:meshgrid_from_1d", "verde.utils:kdtree",
    "verde.base.utils:check_fit_input", "verde.base.utils:check_coordinates", "verde.base.utils:check_data_names", "verde.base.utils:check_extra_coords_names", "verde.base.utils:n_1d_arrays",
    "verde.base.utils:score_estimator", "verde.base.least_squares:least_squares",
    "verde.distances:median_distance", "verde.mask:distance_mask", "verde.mask:convexhull_mask", "verde.io:load_surfer",
    "verde.neighbors:KNeighbors.fit", "verde.neighbors:KNeighbors.predict",
    "verde.spline:Spline.fit", "verde.spline:Spline.predict", "verde.spline:Spline.jacobian", "verde.spline:SplineCV.fit", "verde.spline:SplineCV.predict",
    "verde.vector:VectorSpline2D.fit", "verde.vector:VectorSpline2D.predict", "verde.vector:VectorSpline2D.jacobian", "verde.vector:Vector.fit", "verde.vector:Vector.predict",
    "verde.trend:Trend.fit", "verde.trend:Trend.predict", "verde.trend:Trend.jacobian",
    "verde.scipygridder:_BaseScipyGridder.fit", "verde.scipygridder:_BaseScipyGridder.predict", "verde.synthetic:CheckerBoard.predict",
    "verde.chain:Chain.fit", "verde.chain:Chain.predict", "verde.base.base_classes:BaseGridder.filter", "verde.base.base_classes:BaseGridder.grid",
    "verde.base.base_classes:BaseGridder.profile", "verde.base.base_classes:BaseGridder.scatter",
    "verde.blockreduce:BlockReduce.filter", "verde.blockreduce:BlockMean.filter",
    "verde.model_selection:cross_val_score", "verde.model_selection:train_test_split", "verde.model_selection:BlockKFold.__init__", "verde.model_selection:BlockShuffleSplit.__init__",
    # repeatability (self-composition), history freedom (poisoned refit), constructor round trip
    "contracts.coordinates_c13:lemma_scatter_points_reproducible",
    "C20:refit:verde.trend:Trend.fit", "C20:refit:verde.spline:Spline.fit", "C20:refit:verde.vector:VectorSpline2D.fit", "C20:refit:verde.neighbors:KNeighbors.fit", "C20:refit:verde.scipygridder:_BaseScipyGridder.fit",
    "contracts.purity_c20:estimator_roundtrip",
    # repeatability of the block splitters: a fresh splitter with the same seed AND a second split() of the same object (bounded)
    "contracts.cv_c11:kfold_splits", "contracts.cv_c11:shuffle_splits",
]
MIN_OBLIGATIONS = {"quick": 300, "thorough": 300}
EXPLANATION = (
    "Roll-up over every function under contract: (1) PURITY - the frame obligation 'no write reaches storage owned by an argument' "
    "(arrays are modelled with shared storage, views and a write log) and, for methods, 'only the declared fitted attributes are "
    "(re)bound'; least_squares may write only the Jacobian it is allowed to scale in place; (2) REJECTION - the raises clauses (an "
    "exception of the stated type iff the stated condition) of check_fit_input, check_coordinates, check_region, check_data_names, "
    "check_extra_coords_names, line/grid_coordinates (both/neither), Vector.fit, VectorSpline2D.fit, BlockMean.filter, predict-before-fit "
    "(real check_is_fitted); (3) HISTORY - every fit is re-verified starting from POISONED fitted attributes of a previous fit: all of "
    "them must be replaced and no clause may depend on them (VectorSpline2D's documented reuse of force_coords excepted); "
    "(4) REPEATABILITY - the only nondeterminism in the model is RandomState, so repeatability is the self-composition lemma for "
    "scatter_points (the splitters' reproducibility - a fresh splitter with the same seed, a second split() of the same object, a splitter "
    "reused on the same points in another row order - is a BOUNDED run-time contract, run here and under C11); (5) CLONE - for 13 estimator classes the real constructor and the "
    "real BaseEstimator.get_params run on symbolic parameters: every argument is stored as given, type(e)(**e.get_params()) has "
    "identical attributes, no fitted state. The functional postconditions are NOT re-proved here (they are C01-C19)."
)
ASSUMPTIONS = ["a call is deterministic given its arguments in the model: the only modelled nondeterminism is numpy RandomState / entropy seeds"]


def bounded(tier, seed):
    from pyvc.bounded import run_samplers

    # repeatability of the block splitters (fresh splitter with the same seed; second split() of the same object); the
    # run-time frame checks (byte-wise comparison of argument arrays before/after) are part of the bounded stage of
    # every other property
    return run_samplers(["contracts.cv_c11:kfold_splits", "contracts.cv_c11:shuffle_splits"], tier, seed, limit=400 if tier == "thorough" else 120)
