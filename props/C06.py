"""C06 - Chain, Vector and filter compose estimators without leaking or losing data."""
from pyvc.bounded import run_samplers

PROPERTY = "C06"
LEVEL = "proof"
CONTRACT_MODULES = ["contracts.coordinates_c07", "contracts.coordinates_c13", "contracts.blocks_c08", "contracts.base_utils", "contracts.spline_c03", "contracts.vector_c03", "contracts.models_c03", "contracts.lsq_c02", "contracts.compose_c06"]
TARGETS = [
    "verde.base.base_classes:BaseGridder.filter",
    "verde.chain:Chain.fit",
    "verde.chain:Chain.predict",
    "contracts.compose_c06:chain_identity",
    "contracts.compose_c06:chain_filter",
    "verde.vector:Vector.fit",
    "verde.vector:Vector.predict",
]
MIN_OBLIGATIONS = {"quick": 80, "thorough": 80}
EXPLANATION = (
    "The real BaseGridder.filter, Chain.fit/predict and Vector.fit/predict are executed on ABSTRACT steps (a gridder whose predict "
    "is an arbitrary uninterpreted function per component and fit generation; block reductions returning fresh 2- or 3-tuples), so "
    "the proofs hold for every estimator: filter fits once on exactly its arguments and returns the same coordinate/weight objects "
    "and data minus prediction in the data's shape; each chain step receives exactly what the previous step returned; the chain "
    "prediction is the sum over exactly the steps that can predict and prediction + last residual = data (step lists over "
    "{gridder, 2-tuple reduction, 3-tuple reduction}, length 1-3 quick / 1-4 thorough); Vector fits component i with data[i] and "
    "weights[i] only and predicts the tuple of its components' predictions."
)
ASSUMPTIONS = ["step lists are enumerated up to length 3 (quick) / 4 (thorough); components 1-3"]


def bounded(tier, seed):
    return run_samplers(TARGETS, tier, seed)
