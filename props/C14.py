"""C14 - Rolling and expanding windows select exactly the points inside each window."""
from pyvc.bounded import run_samplers

PROPERTY = "C14"
LEVEL = "proof"
CONTRACT_MODULES = ["contracts.coordinates_c07", "contracts.coordinates_c13", "contracts.blocks_c08", "contracts.windows_c14"]
M = "verde.coordinates"
TARGETS = [M + ":rolling_window", M + ":_check_rolling_window_overlap", M + ":expanding_window", "contracts.windows_c14:lemma_expanding_windows_nested"]
MIN_OBLIGATIONS = {"quick": 60, "thorough": 60}
EXPLANATION = (
    "rolling_window / expanding_window are proved to return, per window, an index object whose selected SET of points is "
    "exactly the closed square of half-width size/2 around the window centre (both inclusions, all windows, all points), with "
    "centres = grid_coordinates of the region shrunk by half a window, one entry per centre in the centres' shape, the "
    "documented errors and the no-overlap warning; nestedness is a lemma over the contract. Index lists are abstracted to the "
    "set they enumerate (their view); joint coverage of the region is covered by the bounded stage only."
)
ASSUMPTIONS = [
    "cKDTree.query_ball_point(x, r, p=inf) returns exactly the indices of the points within Chebyshev distance <= r (closed ball)",
    "np.array(list, dtype=int) followed by np.unravel_index enumerates the same index set as index arrays of the given shape",
]


def bounded(tier, seed):
    return run_samplers(TARGETS, tier, seed)
