"""C15 - Nearest-neighbour based results agree with brute-force distances."""
from pyvc.bounded import run_samplers

PROPERTY = "C15"
LEVEL = "proof"
CONTRACT_MODULES = ["contracts.coordinates_c07", "contracts.coordinates_c13", "contracts.blocks_c08", "contracts.base_utils", "contracts.neighbors_c15"]
TARGETS = [
    "verde.neighbors:KNeighbors.fit",
    "verde.neighbors:KNeighbors.predict",
    "verde.distances:median_distance",
    "verde.mask:distance_mask",
    "verde.mask:_get_grid_coordinates",
    "verde.base.utils:check_fit_input",
]
MIN_OBLIGATIONS = {"quick": 100, "thorough": 100}
EXPLANATION = (
    "KNeighbors.fit/predict, median_distance and distance_mask (array and grid form) are proved, relative to the assumed "
    "contract of cKDTree.query, to return the reduction of exactly the k nearest data values / the median distance to the k "
    "nearest OTHER points (self-match derived from distinctness, not assumed) / True exactly where some data point is within "
    "maxdist after projecting both point sets; in the query's shape, for all sizes and values; k in {1,2,3} enumerated."
)
ASSUMPTIONS = [
    "cKDTree.query(x, k): k distinct in-range indices sorted by distance, every other point at least as far as the k-th (k=1: a nearest point)",
    "k is enumerated over {1,2,3}; reductions mean/median/min/max along the neighbour axis are folded exactly",
]


def bounded(tier, seed):
    return run_samplers(TARGETS, tier, seed)
