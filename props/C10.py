"""C10 - BlockMean outputs means and [0,1] weights by the documented rule."""
from pyvc.bounded import run_samplers

PROPERTY = "C10"
LEVEL = "proof"
CONTRACT_MODULES = ["contracts.coordinates_c07", "contracts.coordinates_c13", "contracts.blocks_c08", "contracts.base_utils", "contracts.blockmean_c10", "contracts.blockreduce_c09"]
TARGETS = ["verde.utils:variance_to_weights", "verde.blockreduce:BlockMean.filter"]
MIN_OBLIGATIONS = {"quick": 20, "thorough": 20}
EXPLANATION = (
    "variance_to_weights is proved (with NaN flags on the inputs) to preserve shape, give weight 1 where the variance is NaN or at / below "
    "the tolerance and min-positive-variance / variance elsewhere (one common product w*var, larger variance -> smaller weight), all "
    "weights in (0, 1] with some weight equal to 1, tuple in -> tuple out, and NOT to write to its argument (frame obligation; this is "
    "the obligation that failed before the fix: commit). BlockMean.filter is proved, relative to the assumed set-level contract of "
    "pandas groupby (aggregations as uninterpreted functions of the block's member set, the values and the weights), to return per "
    "non-empty block the (weighted) mean of exactly its members, to feed variance_to_weights with the population variance / "
    "1/sum(weights) / weighted variance about the weighted mean according to the documented rule, and to reject uncertainty "
    "propagation without weights."
)
ASSUMPTIONS = [
    "pandas groupby(label).aggregate / apply: one row per distinct label in ascending order; each reduction receives exactly the rows of its group with their original row index",
    "np.nan_to_num replaces NaN by 0 (in place iff copy=False); comparisons with NaN are False",
]


def bounded(tier, seed):
    return run_samplers(TARGETS, tier, seed)
