"""C19 - load_surfer returns the file's grid faithfully or refuses it."""
from pyvc.bounded import run_samplers

PROPERTY = "C19"
LEVEL = "proof"
CONTRACT_MODULES = ["contracts.coordinates_c07", "contracts.io_c19"]
TARGETS = ["verde.io:load_surfer", "contracts.io_c19:load_surfer_case"]
MIN_OBLIGATIONS = {"quick": 30, "thorough": 30}
EXPLANATION = (
    "load_surfer (with _read_surfer_header and _check_surfer_integrity inlined) is proved on a symbolic Surfer file - five header lines "
    "whose tokens carry symbolic numbers and a body array of symbolic shape - to return, on every normal exit, a (northing, easting) "
    "DataArray of the header's shape = the body's shape, the body's values row by row with cells >= 1.70141e38 as NaN, coordinates "
    "evenly spanning the header ranges, the grid id and (for a path) the file name; it MUST raise IOError exactly when the body shape "
    "differs from the header or the range of the non-blank cells is not numpy.allclose to the header range; a file opened by the "
    "function is closed on every normal exit and the caller's file object is left open. Text tokenising / number parsing / loadtxt "
    "are assumed; wrapped rows, formats, float32 and the closing of the handle on the ERROR path are covered by the bounded stage on "
    "generated files with an open-handle count."
)
ASSUMPTIONS = [
    "readline/split/strip/int/float/numpy.loadtxt parse the text into the numbers written (string parsing is assumed)",
    "numpy.ma reductions skip masked cells; xarray turns masked cells into NaN",
    "at least one cell is not blanked",
]


def bounded(tier, seed):
    return run_samplers(TARGETS, tier, seed)
