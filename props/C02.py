"""C02 - Fitted models are the weighted, damped least-squares optimum."""
from pyvc.bounded import run_samplers

PROPERTY = "C02"
LEVEL = "proof"
CONTRACT_MODULES = ["contracts.coordinates_c07", "contracts.coordinates_c13", "contracts.blocks_c08", "contracts.base_utils", "contracts.spline_c03", "contracts.vector_c03", "contracts.models_c03", "contracts.lsq_c02"]
TARGETS = ["verde.base.least_squares:least_squares", "verde.base.utils:check_fit_input", "verde.trend:Trend.fit", "verde.spline:Spline.fit", "verde.vector:VectorSpline2D.fit"]
MIN_OBLIGATIONS = {"quick": 80, "thorough": 80}
EXPLANATION = (
    "Proof of the GLUE, relative to scikit-learn: least_squares is proved to scale the columns of the given Jacobian by their "
    "standard deviation without centring, to run OLS (no damping) or Ridge(alpha=damping) without intercept on that scaled design, "
    "the raveled data and exactly the given sample weights, and to return coef_/scale_ - which is the minimiser of "
    "sum w r^2 + damping*|S p|^2 by the column-scaling equivariance of least squares; the caller's Jacobian is untouched iff a copy "
    "was requested; the under-determined warning. Trend.fit / Spline.fit / VectorSpline2D.fit are proved to hand it the design "
    "matrix of C03 over the raveled coordinates, the given data and the weights of the SAME component order ([east; north] "
    "stacking), the right damping, forces at copies of the data points by default. The optimisation itself and all "
    "conditioning / round-off statements are scikit-learn's: covered only by the bounded comparison with an independent numpy solver."
)
ASSUMPTIONS = [
    "StandardScaler(with_mean=False) divides each column by its population std (0 -> 1), in place iff copy=False",
    "LinearRegression/Ridge(fit_intercept=False).fit(X, y, sample_weight) returns the (regularised) weighted least-squares minimiser",
    "column-scaling equivariance: ridge(J S^-1, d, w, a)/S minimises sum w (J p - d)^2 + a |S p|^2",
]


def bounded(tier, seed):
    return run_samplers(TARGETS, tier, seed)
