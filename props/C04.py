"""C04 - Gridding results do not depend on array layout, point order or dtype."""
from pyvc.bounded import run_samplers

PROPERTY = "C04"
LEVEL = "other"
CONTRACT_MODULES = ["contracts.coordinates_c07", "contracts.coordinates_c13", "contracts.blocks_c08", "contracts.base_utils", "contracts.spline_c03", "contracts.vector_c03", "contracts.models_c03", "contracts.lsq_c02", "contracts.layout_c04"]
TARGETS = [
    "C04:int:verde.spline:Spline.predict",
    "C04:int:verde.vector:VectorSpline2D.predict",
    "C04:int:verde.trend:Trend.predict",
    "C04:int:verde.trend:Trend.jacobian",
    "C04:int:verde.trend:Trend.fit",
    "C04:int:verde.spline:Spline.fit",
    "C04:int:verde.vector:VectorSpline2D.fit",
    "verde.base.utils:n_1d_arrays",
    "verde.base.utils:check_fit_input",
    "contracts.layout_c04:lemma_reshape_trend",
    "contracts.layout_c04:lemma_reshape_spline",
    "contracts.layout_c04:layout_pair",
]
MIN_OBLIGATIONS = {"quick": 60, "thorough": 60}
EXPLANATION = (
    "MIXED, claimed as 'other'. Deductive: (1) DTYPE - the C03/C02 contracts of Spline.predict, VectorSpline2D.predict, Trend.predict, "
    "Trend.jacobian, Trend.fit, Spline.fit and VectorSpline2D.fit (components of different kinds) are re-verified with integer-kind coordinate/data arrays under numpy's modelled casting "
    "rules (in-place ops obey same_kind; item assignment truncates): the predictions / design matrices must equal the real-valued "
    "formulas - these are the obligations that failed before the fix: commit (cast error in predict, truncated design matrix in "
    "Trend.fit). (2) SHAPE - n_1d_arrays / check_fit_input contracts (first n inputs raveled in C order, weights raveled with the data) "
    "and lemmas that Trend/Spline Jacobians and predictions of a 2-D query equal those of the raveled query, in the query's shape. "
    "BOUNDED (never counted as proved): pairs of real executions for 8 gridder configurations under permutation, 2-D reshape, Fortran "
    "order, strided views, pandas Series, an ignored extra coordinate, integer dtype, 1-D vs 2-D query, and linearity a*d1+b*d2."
)
TECHNIQUE = "contracts: dtype-kind and reshape obligations by deductive verification (pyvc/z3); permutation/container/linearity by bounded pairs of real executions (stand-in, not proof)"
ASSUMPTIONS = ["dtype is tracked as a kind (f/i/b) only; numpy casting rules as modelled in DESIGN 6.1(2)", "memory order / strides / pandas containers reduce to numpy's guarantee that ravel/atleast_1d see the logical C-order sequence"]


def bounded(tier, seed):
    return run_samplers(TARGETS, tier, seed)
