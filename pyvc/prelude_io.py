"""Assumed contracts for text-file reading as used by verde.io.load_surfer.

A Surfer ASCII grid is modelled as: line 1 (free text), four header lines whose whitespace-separated
tokens have symbolic numeric values, and a body that numpy.loadtxt turns into a (rows, cols) float
array. String parsing itself (str.split/strip, int()/float() of a token, loadtxt) is ASSUMED."""
from .arr import parse_dtype, SymArr, havoc_array, new_array
from .core import Proxy  # noqa
from .core import SymNum, Unsupported, ctx, is_sym


def _use(name):
    ctx().used_prelude.add("io." + name)


class SymToken(Proxy):
    """One whitespace-separated token of a header line, with its numeric value."""

    def __init__(self, value, is_int):
        self.value, self.is_int = value, is_int

    def strip(self, *a):
        return self

    def as_int(self):
        if not self.is_int:
            raise ValueError("invalid literal for int() with base 10")
        return self.value

    def as_float(self):
        v = self.value
        if isinstance(v, SymNum) and v.kind == "int":
            import z3

            return SymNum(z3.ToReal(v.t), "real")
        return v


class SymLine(Proxy):
    def __init__(self, tokens=None, text=None):
        self.tokens, self.text = tokens, text

    def strip(self, *a):
        if self.text is None:
            raise Unsupported("strip() of a numeric header line")
        return self.text

    def split(self, *a):
        if self.tokens is None:
            raise Unsupported("split() of the free-text line")
        return list(self.tokens)


class SymFile(Proxy):
    """An open text file positioned at the start of a Surfer grid."""

    def __init__(self, header_lines, body, name=None):
        self.lines = list(header_lines)
        self.body = body
        self.pos = 0
        self.closed = False
        self.name = name
        self.body_read = False
        self.unparsable = False  # V bool: the body cannot be parsed as a table (ragged rows, a non-numeric token)

    def readline(self):
        _use("file.readline")
        if self.closed:
            raise ValueError("I/O operation on closed file.")
        if self.pos >= len(self.lines):
            raise Unsupported("readline() past the modelled header")
        ln = self.lines[self.pos]
        self.pos += 1
        return ln

    def close(self):
        self.closed = True

    def __enter__(self):
        return self

    def __exit__(self, *a):
        self.close()
        return False


class SymMasked(SymArr):
    """numpy.ma masked array: reductions skip the masked cells (mask = the NaN flag of the storage)."""

    def min(self, axis=None):
        from .prelude_np import _minmax

        return _minmax("ma.min", self, True, axis, skipnan=True)

    def max(self, axis=None):
        from .prelude_np import _minmax

        return _minmax("ma.max", self, False, axis, skipnan=True)


class _MA(Proxy):
    def masked_values(self, x, value, rtol=1e-5, atol=1e-8, copy=True, shrink=True):
        """numpy.ma.masked_values: masked where |x - value| <= atol + rtol*|value| (numpy.isclose)."""
        _use("numpy.ma.masked_values")
        from .arr import as_array
        from .core import _numeric

        x = as_array(x)
        tol = atol + rtol * abs(value)
        snap = x.snapshot()
        out = new_array(x.shape, lambda idx: snap(*idx), x.kind)
        out.storage.nan = lambda idx: abs(_numeric(snap(*idx)) - value) <= tol
        return SymMasked(out.storage)

    def masked_where(self, cond, a, copy=True):
        _use("numpy.ma.masked_where")
        snap = a.snapshot()
        cs = cond.snapshot()
        out = new_array(a.shape, lambda idx: snap(*idx), a.kind)
        out.storage.nan = lambda idx: cs(*idx)
        m = SymMasked(out.storage)
        return m


    def array(self, data, mask=None, **kw):
        """numpy.ma.array(data, mask=m): the same masked array as masked_where(m, data) (a copy of the data)."""
        if kw:
            raise Unsupported("numpy.ma.array with %s" % sorted(kw))
        if mask is None:
            raise Unsupported("numpy.ma.array without a mask")
        from .arr import as_array

        _use("numpy.ma.array(data, mask=...)")
        return self.masked_where(as_array(mask), as_array(data))

    masked_array = array


MA = _MA()


def sym_loadtxt(fobj, dtype=None, **kw):
    """numpy.loadtxt on the rest of the file: the body as a 2-D float array."""
    _use("numpy.loadtxt")
    if not isinstance(fobj, SymFile):
        raise Unsupported("loadtxt of %r" % type(fobj))
    if fobj.closed:
        raise ValueError("I/O operation on closed file.")
    if fobj.pos != len(fobj.lines):
        # header not fully consumed: the remaining header lines would be parsed as data
        raise Unsupported("loadtxt called before the five header lines were read")
    if fobj.unparsable is not False and bool(fobj.unparsable):
        # numpy.loadtxt raises ValueError for rows of unequal length / tokens that are not numbers
        raise ValueError("Wrong number of columns / could not convert string to float (numpy.loadtxt)")
    max_rows = kw.pop("max_rows", None)
    if kw:
        raise Unsupported("numpy.loadtxt with %s" % sorted(kw))
    if dtype is not None and parse_dtype(dtype).kind != "f":
        raise Unsupported("numpy.loadtxt with dtype %r" % (dtype,))
    fobj.body_read = True
    snap = fobj.body.snapshot()
    out = new_array(fobj.body.shape, lambda idx: snap(*idx), "f")
    if max_rows is not None:
        # only the first max_rows rows of the body are parsed (the rest of the file is left unread)
        _use("numpy.loadtxt(max_rows=...)")
        out = out[:max_rows]
    return out


class OpenStub:
    def __init__(self):
        self.opened = []
        self.files = {}

    def register(self, path, fobj):
        self.files[path] = fobj

    def __call__(self, path, mode="r", *a, **k):
        _use("open")
        if path not in self.files:
            raise FileNotFoundError(path)
        f = self.files[path]
        self.opened.append(f)
        ctx().ghost.setdefault("open", []).append((path, mode, f))
        return f
