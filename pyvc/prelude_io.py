"""Assumed contracts for file objects and text tokens (filled in with C19)."""


class SymToken:
    pass
