"""Contracts (sidecar) and the per-path verification harness."""
import importlib
import inspect
import sys
import traceback
import types
import warnings

import z3

from . import spec as S
from .arr import SymArr, sym_input
from .core import (
    Ctx,
    PathAbort,
    SpecError,
    SymBool,
    SymNum,
    Unsupported,
    and_,
    concrete_value,
    ctx,
    explore,
    is_sym,
    not_,
    or_,
    sym_float,
    sym_int,
    sym_len,
    to_z3_bool,
)

REGISTRY = {}


def register(cls):
    inst = cls()
    REGISTRY[getattr(inst, "key", None) or inst.target] = inst
    return cls


class Args:
    """Bound arguments of a call, attribute access by parameter name."""

    def __init__(self, d):
        self.__dict__.update(d)

    def __repr__(self):
        return "Args(%s)" % ", ".join("%s=%r" % kv for kv in self.__dict__.items())


class Builder:
    """Creates the symbolic inputs of a verification run and remembers them for replay."""

    def __init__(self):
        self.scalars = {}  # name -> SymNum
        self.arrays = {}  # name -> SymArr
        self.dims = {}  # name -> SymNum (int)

    def real(self, name):
        v = SymNum(z3.Real(name), "real")
        self.scalars[name] = v
        return v

    def int(self, name, size_like=False):
        v = SymNum(z3.Int(name), "int")
        self.scalars[name] = v
        if size_like:
            ctx().small_hints.append(v)
        return v

    def bool(self, name):
        v = SymBool(z3.Bool(name))
        self.scalars[name] = v
        return v

    def dim(self, name, minimum=0):
        v = SymNum(z3.Int(name), "int")
        self.dims[name] = v
        ctx().assume(v >= minimum)
        ctx().small_hints.append(v)
        return v

    def array(self, name, shape, kind="f", nan=False):
        a = sym_input(name, shape, kind, nan=nan)
        self.arrays[name] = a
        return a

    def assume(self, *conds):
        for c in conds:
            S.assume(c)


class RaiseCond:
    """A raise condition that needs quantifiers: `pos` is proved on the raising exit,
    `neg` (its negation, stated positively) on the normal exit."""

    def __init__(self, pos, neg):
        self.pos, self.neg = pos, neg


def _pos(cond):
    return cond.pos if isinstance(cond, RaiseCond) else cond


def _neg(cond):
    if isinstance(cond, RaiseCond):
        return cond.neg
    return (not cond) if isinstance(cond, bool) else not_(cond)


class Contract:
    """Base class of a sidecar contract for one real function."""

    target = None  # "module:qualname"
    stubs = {}  # global name in the target's module -> target key of the callee contract
    prelude = ()  # extra (name, object) patches for the module globals
    inline = ()  # names of helpers executed inline (documentation for the evidence)
    max_paths = 400
    pure = True  # frame: does not write to argument storage
    frame_attrs = None  # methods: attributes of `self` the call may create / rebind (None = unchecked)
    functional = False  # havoc() returns exactly the specified result: stubs need not assume ensures()

    # --- to be provided by subclasses
    def configs(self, tier):
        return [{}]

    def setup(self, B, cfg):
        """Return (args, kwargs) built from symbolic inputs; assume `requires` via B.assume."""
        raise NotImplementedError

    def requires(self, a):
        return True

    def raises(self, a):
        """List of (ExceptionType, condition): the call raises that type iff condition holds."""
        return []

    def ensures(self, a, r):
        """Dict clause-name -> formula over bound args `a` and result `r`."""
        return {}

    def havoc(self, a):
        """Fresh result object for use as a stub."""
        raise NotImplementedError("contract %s cannot be used as a stub" % self.target)

    def expect_warning(self, a):
        """None, or list of (category, condition) meaning: warns with category iff condition."""
        return None

    # --- resolution
    def resolve(self):
        modname, qual = self.target.split(":")
        mod = importlib.import_module(modname)
        obj = mod
        owner = None
        for part in qual.split("."):
            owner = obj
            obj = getattr(obj, part)
        return mod, owner, obj

    def func(self):
        return self.resolve()[2]

    def bind(self, args, kwargs):
        f = self.func()
        sig = inspect.signature(f)
        ba = sig.bind(*args, **kwargs)
        ba.apply_defaults()
        return Args(dict(ba.arguments))


# --------------------------------------------------------------------- patching


def _mark(e):
    e._modelled = True
    return e


class Patches:
    """Temporarily rebind names in module globals (this process only, never on disk)."""

    def __init__(self):
        self.saved = []

    def set(self, mod, name, value):
        d = mod.__dict__
        missing = object()
        self.saved.append((d, name, d.get(name, missing), missing))
        d[name] = value

    def set_attr(self, obj, name, value):
        missing = object()
        old = obj.__dict__.get(name, missing)
        self.saved.append((("attr", obj), name, old, missing))
        setattr(obj, name, value)

    def restore(self):
        for d, name, old, missing in reversed(self.saved):
            if isinstance(d, tuple) and d[0] == "attr":
                if old is missing:
                    try:
                        delattr(d[1], name)
                    except AttributeError:
                        pass
                else:
                    setattr(d[1], name, old)
            elif old is missing:
                d.pop(name, None)
            else:
                d[name] = old
        self.saved = []


def default_patches(P, mod):
    """Rebind numpy and the proxy-aware builtins in a verde module."""
    from .prelude_np import NP, check_random_state
    from .loops import sym_range

    g = mod.__dict__
    if "np" in g:
        P.set(mod, "np", NP)
    if "xr" in g:
        from .prelude_xr import XR

        P.set(mod, "xr", XR)
    if "pd" in g:
        from .prelude_pd import PD

        P.set(mod, "pd", PD)
    P.set(mod, "int", sym_int)
    P.set(mod, "float", sym_float)
    P.set(mod, "len", sym_len)
    P.set(mod, "range", sym_range)
    P.set(mod, "isinstance", sym_isinstance)
    if "check_random_state" in g:
        P.set(mod, "check_random_state", check_random_state)
    if "warnings" in g:
        P.set(mod, "warnings", WarningsProxy())
    if "warn" in g:
        P.set(mod, "warn", WarningsProxy().warn)


def sym_isinstance(obj, cls):
    import numpy as _np

    if cls is _np.ndarray or (isinstance(cls, tuple) and _np.ndarray in cls):
        if isinstance(obj, SymArr):
            return True
    return isinstance(obj, cls)


class WarningsProxy:
    def warn(self, message, category=UserWarning, stacklevel=1, **kw):
        if isinstance(category, int):
            category = UserWarning
        if isinstance(message, Warning):
            category = type(message)
        ctx().events.append(("warn", category.__name__, str(message)[:120]))

    def __getattr__(self, name):
        return getattr(warnings, name)


def make_stub(callee, caller_label):
    """Replace a verde callee by its contract: assert pre, raise per `raises`, havoc, assume post."""
    real = callee.func()
    sig = inspect.signature(real)

    def stub(*args, **kwargs):
        c = ctx()
        try:
            ba = sig.bind(*args, **kwargs)
        except TypeError:
            # the callee's signature no longer matches its sidecar contract (refactored internals): the contract
            # cannot be used here, so the callee's REAL body is executed inline instead
            c.used_prelude.add("inlined (contract does not bind): " + callee.target)
            return real(*args, **kwargs)
        ba.apply_defaults()
        a = Args(dict(ba.arguments))
        c.used_prelude.add("contract-stub:" + callee.target)
        c.in_spec += 1
        try:
            pre = callee.requires(a)
            rz = callee.raises(a)
        finally:
            c.in_spec -= 1
        S.prove("call.pre[%s]#%s" % (callee.target.split(":")[1], c.fresh_name("call")), pre, kind="call")
        for exc_type, cond in rz:
            if isinstance(cond, RaiseCond):
                b = c.fresh("raises", "bool")
                S.assume(cond.pos, guard=b)
                S.assume(cond.neg, guard=not_(b))
                cond = b
            if cond is True or (cond is not False and bool(cond)):
                raise _mark(exc_type("raised by the contract of %s" % callee.target))
        if callee.functional:
            c.in_spec += 1
            try:
                r = callee.havoc(a)
            finally:
                c.in_spec -= 1
            c.ghost.setdefault(callee.target, []).append((a, r))
            return r
        c.in_spec += 1
        try:
            r = callee.havoc(a)
            # assumed facts must describe the state at THIS point: evaluate the clauses against frozen
            # snapshots, so that a later in-place update of an argument / the result by the caller cannot
            # change what was assumed
            memo = {}
            fa = freeze(a, memo)
            fa.old = fa
            c.stub_mode += 1
            try:
                post = callee.ensures(fa, freeze(r, memo))
            finally:
                c.stub_mode -= 1
        finally:
            c.in_spec -= 1
        for name, f in post.items():
            if name.startswith("derived."):
                continue  # consequences of the other clauses: proved for the callee, not needed by callers
            S.assume(f)
        c.ghost.setdefault(callee.target, []).append((a, r))
        return r

    stub.__name__ = "stub_" + real.__name__
    stub._is_stub = True
    return stub


# ------------------------------------------------------------------ path harness


def _engine_fault(exc):
    """Was this exception produced by a gap in the engine (not modelled behaviour)?"""
    if getattr(exc, "_modelled", False):
        return False
    tb = exc.__traceback__
    last = None
    while tb is not None:
        last = tb
        tb = tb.tb_next
    if last is None:
        return False
    fn = last.tb_frame.f_code.co_filename
    if isinstance(exc, TypeError):
        import re

        # a call that does not fit the SIGNATURE of a prelude object (a keyword the model does not know, e.g.
        # np.linspace(..., dtype=...)) is raised in the caller's frame: a gap of the model, not behaviour of the code
        if re.match(r"^(_NP|_MA|_Random|_XR|_PD|Sym\w+|\w*Proxy|\w*Stub)\.\w+\(\) (got an unexpected keyword argument|takes|missing)", str(exc)):
            return True
    if isinstance(exc, AttributeError):
        # contract setups build estimators with __new__ and set the attributes the code read when the contract was
        # written. An attribute that the class's own __init__ assigns but the setup did not (a refactor moved some
        # state into the constructor) is a gap of the setup, not behaviour of the code
        import inspect
        import re

        m = re.match(r"^'(\w+)' object has no attribute '(\w+)'", str(exc))
        obj = getattr(exc, "obj", None)
        if m and obj is not None and type(obj).__name__ == m.group(1) and type(obj).__module__.startswith("verde"):
            try:
                for klass in type(obj).__mro__:
                    init = klass.__dict__.get("__init__")
                    if init is not None and re.search(r"self\.%s\s*=" % re.escape(m.group(2)), inspect.getsource(init)):
                        return True
            except (OSError, TypeError):
                pass
    if "site-packages" in fn or "/lib/python3" in fn:
        # raised inside a real third-party / stdlib routine: a proxy leaked past the prelude.
        # (scikit-learn's NotFittedError from check_is_fitted is genuine behaviour.)
        if type(exc).__name__ in ("NotFittedError",):
            return False
        return True
    if ("/pyvc/" in fn or "/contracts/" in fn or "/props/" in fn) and isinstance(exc, (AttributeError, TypeError, NameError, KeyError, NotImplementedError, AssertionError, RecursionError)):
        # TypeError / IndexError / ValueError deliberately raised by the prelude to mirror numpy are
        # raised with explicit `raise` statements in pyvc; those carry numpy's message. We only
        # treat *accidental* ones as engine faults: AttributeError etc. are never raised on purpose.
        if isinstance(exc, TypeError) and ("Cannot cast ufunc" in str(exc) or "cannot be interpreted as an integer" in str(exc) or "unsized object" in str(exc)):
            return False
        return True
    return False


def freeze(x, memo=None):
    """Deep snapshot of the arrays inside x (tuples / lists / Args); other objects are shared."""
    if memo is None:
        memo = {}
    if id(x) in memo:
        return memo[id(x)]
    if isinstance(x, SymArr):
        y = x.copy()
        y.storage.owner = x.storage.owner
    elif isinstance(x, tuple):
        y = tuple(freeze(v, memo) for v in x)
    elif isinstance(x, list):
        y = [freeze(v, memo) for v in x]
    elif isinstance(x, Args):
        y = Args({k: freeze(v, memo) for k, v in vars(x).items()})
    else:
        y = x
    memo[id(x)] = y
    return y


class _LoopSpec:
    def __init__(self, contract, a, label):
        self.contract, self.a, self.label = contract, a, label

    def state(self):
        return self.contract.loop_state(self.a)

    def invariant(self, j):
        # the invariant talks about the loop state AS IT IS NOW: evaluate it on frozen snapshots
        return self.contract.loop_invariant(self.a, j, [x.copy() for x in self.state()])


class PathOutcome:
    def __init__(self):
        self.kind = None  # 'return' | 'raise'
        self.exc = None
        self.result = None
        self.builder = None
        self.args = None


def verify_path(contract, cfg, c, prop="", replay_hook=None):
    """Run ONE path of the real function under `contract`; emit obligations into ctx c."""
    mod, owner, func = contract.resolve()
    P = Patches()
    out = PathOutcome()
    label = contract.target.split(":")[1]
    try:
        default_patches(P, mod)
        # warnings issued by helpers that live in OTHER verde modules must be recorded too
        for mname, m in list(sys.modules.items()):
            if mname.startswith("verde") and m is not mod and m is not None:
                g = getattr(m, "__dict__", {})
                if "warnings" in g and not isinstance(g["warnings"], WarningsProxy):
                    P.set(m, "warnings", WarningsProxy())
                if "warn" in g and getattr(g["warn"], "__module__", "") == "warnings":
                    P.set(m, "warn", WarningsProxy().warn)
        for name, obj in contract.prelude:
            P.set(mod, name, obj)
        for name, key in contract.stubs.items():
            callee = REGISTRY[key]
            if "." in name:  # method stub: patch the class attribute
                cname, attr = name.split(".")
                P.set_attr(getattr(mod, cname), attr, make_stub(callee, label))
            else:
                P.set(mod, name, make_stub(callee, label))
        extra = getattr(contract, "patch_modules", None)
        if extra:
            extra(P)
        B = Builder()
        out.builder = B
        c.in_spec += 1
        try:
            args, kwargs = contract.setup(B, cfg)
        finally:
            c.in_spec -= 1
        try:
            a = contract.bind(args, kwargs)
        except TypeError as e:
            raise Unsupported("the contract of %s does not bind to the function's current signature: %s" % (contract.target, e))
        a.old = freeze(Args({k: v for k, v in vars(a).items()}))  # pre-state snapshot of the arguments
        out.args = (args, kwargs)
        c.in_spec += 1
        try:
            S.assume(contract.requires(a))
        finally:
            c.in_spec -= 1
        from . import loops as _loops

        _loops.LOOP_SPEC[0] = None
        if hasattr(contract, "loop_invariant"):
            _loops.LOOP_SPEC[0] = _LoopSpec(contract, a, label)
        input_storages = _input_storages(args, kwargs)
        self_obj = args[0] if (args and contract.frame_attrs is not None) else None
        attrs_before = dict(vars(self_obj)) if self_obj is not None else None
        try:
            result = func(*args, **kwargs)
            out.kind = "return"
            out.result = result
        except (Unsupported, PathAbort, SpecError):
            raise
        except RecursionError as e:
            raise Unsupported("recursion limit in engine: %s" % e)
        except Exception as e:  # exceptional exit of the real code
            if _engine_fault(e):
                raise Unsupported("engine gap: %s: %s\n%s" % (type(e).__name__, e, "".join(traceback.format_tb(e.__traceback__)[-3:])))
            out.kind = "raise"
            out.exc = e
        # raise conditions are evaluated after the run so that they may refer to ghost values
        # recorded by callee stubs (e.g. the region returned by get_region)
        c.in_spec += 1
        try:
            rz = contract.raises(a)
        finally:
            c.in_spec -= 1
        if out.kind == "raise":
            matching = [cond for (T, cond) in rz if isinstance(out.exc, T)]
            nm = "%s:raises.allowed[%s]" % (label, type(out.exc).__name__)
            if not matching:
                c.fail(nm, "unexpected %s: %s" % (type(out.exc).__name__, str(out.exc)[:300]), kind="raises")
            else:
                S.prove(nm, S.AnyOf(*[_pos(m) for m in matching]) if len(matching) > 1 else _pos(matching[0]), kind="raises")
            eor = getattr(contract, "ensures_on_raise", None)
            if eor is not None:
                c.in_spec += 1
                try:
                    post = eor(a, out.exc)
                finally:
                    c.in_spec -= 1
                for name, f in post.items():
                    S.prove("%s:post_on_raise.%s" % (label, name), f, kind="post")
        else:
            for k, (T, cond) in enumerate(rz):
                S.prove("%s:raises.required[%s#%d]" % (label, T.__name__, k), _neg(cond), kind="raises")
            c.in_spec += 1
            try:
                post = contract.ensures(a, out.result)
            finally:
                c.in_spec -= 1
            for name, f in post.items():
                S.prove("%s:post.%s" % (label, name), f, kind="history" if name.startswith("history.") else "post")
            ew = contract.expect_warning(a)
            if ew is not None:
                warned = {}
                for ev in c.events:
                    if ev[0] == "warn":
                        warned[ev[1]] = True
                for cat, cond in ew:
                    did = cat in warned
                    nm = "%s:warns[%s]" % (label, cat)
                    if did:
                        c.oblige(nm + ".justified", cond, kind="post")
                    else:
                        c.oblige(nm + ".required", not_(cond) if not isinstance(cond, bool) else (not cond), kind="post")
            if self_obj is not None:
                after = vars(self_obj)
                changed = sorted(k for k in set(after) | set(attrs_before) if (k not in after) or (k not in attrs_before) or (after[k] is not attrs_before[k]))
                bad = [k for k in changed if k not in contract.frame_attrs]
                nm = "%s:frame.only_declared_attributes_written" % label
                if bad:
                    c.fail(nm, "attributes outside the frame were written: %s" % bad, kind="frame")
                else:
                    c.ok(nm, kind="frame", txt="attributes written: %s" % changed)
            if contract.pure:
                allowed = set()
                mw = getattr(contract, "may_write", None)
                if mw is not None:
                    allowed = {x.storage.id for x in mw(a)}
                written = [st for st in input_storages if st.nwrites > 0 and st.id not in allowed]
                nm = "%s:frame.no_write_to_inputs" % label
                if written:
                    c.fail(nm, "wrote to argument storage: %s" % ", ".join(st.name for st in written), kind="frame")
                else:
                    c.ok(nm, kind="frame", txt="no write reached storage owned by an argument")
        # vacuity canary: the facts of this path must be satisfiable
        if not c.replaying:
            r, _ = c.check([], timeout_ms=10000)
            if r == "unsat":
                raise SpecError("vacuous path: assumptions + path condition are unsatisfiable (%s)" % label)
    finally:
        P.restore()
        from . import loops as _loops2

        _loops2.LOOP_SPEC[0] = None
    return out


def _input_storages(args, kwargs):
    out = []
    seen = set()

    def walk(x):
        if isinstance(x, SymArr):
            if x.storage.id not in seen:
                seen.add(x.storage.id)
                out.append(x.storage)
        elif isinstance(x, (list, tuple)):
            for y in x:
                walk(y)
        elif isinstance(x, dict):
            for y in x.values():
                walk(y)
        elif hasattr(x, "__dict__") and not isinstance(x, (types.ModuleType, type, types.FunctionType)):
            for y in vars(x).values():
                if isinstance(y, (SymArr, list, tuple)):
                    walk(y)

    walk(args)
    walk(kwargs)
    return out
