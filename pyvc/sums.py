"""Reductions. Concrete-length axes are folded exactly; symbolic-length sums are spec objects
(`SumTag`) compared by the congruence rule: equal lengths and point-wise equal terms."""
import z3

from .arr import SymArr, new_array, _prod
from .core import SymNum, Unsupported, and_, concrete_value, ctx, div, is_sym, ite, lift, _numeric, vmax, vmin


def _fold(vals, op):
    r = vals[0]
    for v in vals[1:]:
        r = op(r, v)
    return r


def _axis_reduce(a, axis, fn, kind=None):
    """Reduce along one concrete-length axis with fn(list of V) -> V."""
    if axis < 0:
        axis += a.ndim
    n = concrete_value(a.shape[axis]) if is_sym(a.shape[axis]) else a.shape[axis]
    if n is None:
        raise Unsupported("reduction along an axis of symbolic length")
    n = int(n)
    snap = a.snapshot()
    out_shape = tuple(s for k, s in enumerate(a.shape) if k != axis)

    def elem(idx):
        vals = []
        for t in range(n):
            full = list(idx[:axis]) + [t] + list(idx[axis:])
            vals.append(snap(*full))
        return fn(vals)

    return new_array(out_shape, elem, kind or a.kind)


def _all_values(a):
    import itertools

    sizes = [concrete_value(s) if is_sym(s) else s for s in a.shape]
    if any(s is None for s in sizes):
        return None
    snap = a.snapshot()
    return [snap(*ix) for ix in itertools.product(*[range(int(s)) for s in sizes])]


def v_sum(vals):
    tot = 0
    for v in vals:
        tot = tot + _numeric(v)
    return tot


def v_mean(vals):
    if not vals:
        raise Unsupported("mean of empty")
    return div(v_sum(vals), len(vals))


def v_median(vals):
    """Median of a short list of V through a compare-exchange (sorting) network."""
    vals = [_numeric(v) for v in vals]
    n = len(vals)
    if n == 0:
        raise Unsupported("median of empty")
    if n > 5:
        raise Unsupported("median of more than 5 symbolic values")
    xs = list(vals)
    for i in range(n):
        for j in range(n - 1 - i):
            lo, hi = vmin(xs[j], xs[j + 1]), vmax(xs[j], xs[j + 1])
            xs[j], xs[j + 1] = lo, hi
    if n % 2:
        return xs[n // 2]
    return div(xs[n // 2 - 1] + xs[n // 2], 2)


def array_sum(a, axis=None):
    if axis is None and getattr(a, "_count_of", None) is not None and concrete_len_or_none(a) is None:
        src, val = a._count_of
        return count_equal(src, val)
    if axis is not None:
        return _axis_reduce(a, axis, v_sum)
    vals = _all_values(a)
    if vals is not None and (len(vals) <= 16 or ctx().crossexec):
        return lift(v_sum(vals)) if vals else 0
    return symbolic_sum(a)


def array_mean(a, axis=None):
    if axis is not None:
        return _axis_reduce(a, axis, v_mean, "f")
    vals = _all_values(a)
    if vals is not None and (len(vals) <= 16 or ctx().crossexec):
        return v_mean(vals)
    s = symbolic_sum(a)
    return div(s, a.size)


def array_median(a, axis=None):
    if axis is not None:
        return _axis_reduce(a, axis, v_median, "f")
    vals = _all_values(a)
    if vals is None:
        raise Unsupported("median of an array of symbolic size")
    return v_median(vals)


def array_minmax_axis(a, axis, is_min):
    return _axis_reduce(a, axis, lambda vs: _fold([_numeric(v) for v in vs], vmin if is_min else vmax))


# ------------------------------------------------------------------ symbolic-length sums


def concrete_len_or_none(a):
    from .core import concrete_value

    if a.ndim != 1:
        return None
    v = concrete_value(a.shape[0])
    return None if v is None else int(v)


class SumTag:
    def __init__(self, n, term):
        self.n = n  # V int: number of terms
        self.term = term  # j -> V


def symbolic_sum(a):
    """Sum over all elements of a (1-D) array of symbolic length: a fresh real tagged with its terms."""
    c = ctx()
    if a.ndim != 1:
        a = a.ravel()
    snap = a.snapshot()
    v = c.fresh("sum", "real" if a.kind == "f" else "int")
    tag_sum(v, a.shape[0], lambda j: snap(j))
    if a.kind == "b":
        # a count of true entries: between 0 and the length, and at least 1 as soon as some entry is true
        from . import spec as S
        from .core import and_, implies

        n = a.shape[0]
        c.assume(and_(v >= 0, v <= n))
        S.assume(S.Forall((n,), lambda j: implies(snap(j), v >= 1), name="count.at_least_one_if_some_entry_is_true"))
        c.used_axioms.add("count of true entries: 0 <= count <= length; some entry true => count >= 1")
    return v


_COUNT_FUNCS = {}


def count_equal(arr, value):
    """The number of entries of the 1-D integer array `arr` equal to `value`, as an uninterpreted function of the value
    (one function per array CONTENT): COUNT_arr(v), with 0 <= COUNT <= length and COUNT >= 1 as soon as some entry
    equals v. Code and contracts that count the same array obtain the same term."""
    from . import spec as S
    from .core import and_, implies, to_z3, _numeric

    c = ctx()
    if arr.ndim != 1:
        arr = arr.ravel()
    key = "COUNT_%d_%d_%d" % (arr.storage.id, arr.storage.nwrites, id(arr._fwd) if arr._fwd is not None else 0)
    if key not in _COUNT_FUNCS:
        _COUNT_FUNCS[key] = z3.Function(key, z3.IntSort(), z3.IntSort())
    f = _COUNT_FUNCS[key]
    v = _numeric(value)
    r = SymNum(f(to_z3(v, "int") if not isinstance(v, SymNum) or v.kind == "int" else z3.ToInt(to_z3(v))), "int")
    n = arr.shape[0]
    snap = arr.snapshot()
    seen = c.ghost.setdefault("count_facts", set())
    tkey = (key, r.t.get_id())
    if tkey not in seen and not c.in_spec_probe():
        seen.add(tkey)
        c.assume(and_(r >= 0, r <= n))
        S.assume(S.Forall((n,), lambda j: implies(_numeric(snap(j)) == v, r >= 1), name="count.at_least_one_if_some_entry_matches"))
        c.used_axioms.add("count of entries equal to a value: uninterpreted function of the value per array content; 0 <= count <= length; some entry equal => count >= 1")
    return r


def tag_sum(v, n, term):
    c = ctx()
    c.sum_tags[v.t.get_id()] = SumTag(n, term)
    c.used_axioms.add("finite sums are compared by congruence only: equal length and point-wise equal terms")


def sum_tag_of(v):
    if not isinstance(v, SymNum):
        return None
    return ctx().sum_tags.get(v.t.get_id())


# ------------------------------------------------------------------ partial sums as spec functions


class PartialSum:
    """Spec function  PS(idx, j) = sum_{t<j} term(idx, t)  (a finite sum defined by its recurrence).

    Symbolically an uninterpreted function with the unfolding axioms PS(idx,0)=0 and
    PS(idx,j+1)=PS(idx,j)+term(idx,j) kept as lazily instantiated universal facts; two sums are
    compared only by the congruence rule (equal length, point-wise equal terms)."""

    def __init__(self, name, idx_dims, n, term):
        self.name, self.idx_dims, self.n, self.term = name, tuple(idx_dims), n, term
        c = ctx()
        self.concrete = c.concrete or not (any(is_sym(d) for d in self.idx_dims) or is_sym(n) or self._term_symbolic())
        if self.concrete:
            return
        rank = len(self.idx_dims)
        self.uf = z3.Function(c.fresh_name("PS_" + name), *([z3.IntSort()] * (rank + 1) + [z3.RealSort()]))
        from . import spec as S
        from .core import implies

        uf = self.uf

        from .arr import _storage_ids

        leaf_id = next(_storage_ids)

        def ps(*a):
            ctx().leaf_touch(leaf_id, tuple(a))
            return SymNum(uf(*[_z(i) for i in a]), "real")

        self._ps = ps
        S.assume(S.Forall(self.idx_dims, lambda *idx: ps(*idx, 0) == 0, name="sum.base") if rank else (ps(0) == 0))
        dims = self.idx_dims + (n,)
        S.assume(S.Forall(dims, lambda *a: ps(*a[:-1], a[-1] + 1) == ps(*a) + term(*a), name="sum.step"))
        c.used_axioms.add("finite sums: PS(.,0)=0, PS(.,j+1)=PS(.,j)+term(.,j) (definition by recurrence); compared by congruence (equal length, point-wise equal terms)")

    def _term_symbolic(self):
        try:
            v = self.term(*([0] * (len(self.idx_dims) + 1)))
            return is_sym(v)
        except Exception:
            return True

    def at(self, *a):
        """partial sum of the first a[-1] terms at index a[:-1]"""
        if self.concrete:
            idx, j = a[:-1], int(a[-1])
            tot = 0.0
            for t in range(j):
                tot = tot + self.term(*idx, t)
            return tot
        v = self._ps(*a)
        ctx().sum_tags[v.t.get_id()] = (self, tuple(a[:-1]), a[-1])
        return v

    def total(self, *idx):
        return self.at(*idx, self.n)


def _z(i):
    from .core import to_z3

    return to_z3(i)


class Undecided:
    """A clause the verifier cannot decide (reported as undecided, never as a violation)."""


def sum_is(value, ps, idx, scale=1.0):
    """value == ps.total(idx), by the congruence rule when `value` is itself a tagged finite sum."""
    from . import spec as S
    from .core import and_

    if not is_sym(value):
        return S.close(value, ps.total(*idx) if ps.concrete else ps.total(*idx), scale)
    t = z3.simplify(value.t)
    if z3.is_app_of(t, z3.Z3_OP_ITE):
        from .core import SymBool

        cnd, x, y = t.children()
        return S.All(
            S.Imp(SymBool(cnd), sum_is(SymNum(x, "real"), ps, idx, scale)),
            S.Imp(SymBool(z3.Not(cnd)), sum_is(SymNum(y, "real"), ps, idx, scale)),
        )
    tag = ctx().sum_tags.get(value.t.get_id())
    if tag is None:
        tag = ctx().sum_tags.get(z3.simplify(value.t).get_id())
    if tag is None:
        return value == ps.total(*idx)
    other, oidx, oj = tag
    if other is ps:
        return and_(oj == ps.n, *[a == b for a, b in zip(oidx, idx)])
    return S.All(oj == ps.n, S.Forall((ps.n,), lambda t: other.term(*oidx, t) == ps.term(*idx, t)))


def apply_sum_congruence(name, A, B, dims, idxA=None, idxB=None):
    """Proof rule: if A and B have the same length and point-wise equal terms at the related
    indices, their totals are equal.  Emits the point-wise obligation; only when it is discharged
    the equality of the totals is assumed (as a universal fact over `dims`)."""
    from . import spec as S
    from .core import and_

    c = ctx()
    idxA = idxA or (lambda *ix: ix)
    idxB = idxB or (lambda *ix: ix)
    if c.concrete:
        return True
    obs = S.prove(
        name + ".terms_pointwise_equal",
        S.All(A.n == B.n, S.Forall(tuple(dims) + (A.n,), lambda *a: A.term(*idxA(*a[:-1]), a[-1]) == B.term(*idxB(*a[:-1]), a[-1]))),
        kind="lemma",
    )
    if obs and all(o is not None and o.status == "discharged" for o in obs):
        S.assume(S.Forall(tuple(dims), lambda *ix: A.total(*idxA(*ix)) == B.total(*idxB(*ix)), name="sum.congruence"))
        return True
    return False
