"""Finite sums as a spec function (filled in with the kernel properties)."""
from .core import Unsupported


def array_sum(a, axis=None):
    raise Unsupported("np.sum")


def array_mean(a, axis=None):
    raise Unsupported("np.mean")
