"""Reductions. Concrete-length axes are folded exactly; symbolic-length sums are spec objects
(`SumTag`) compared by the congruence rule: equal lengths and point-wise equal terms."""
import z3

from .arr import SymArr, new_array, _prod
from .core import SymNum, Unsupported, and_, concrete_value, ctx, div, is_sym, ite, lift, _numeric, vmax, vmin


def _fold(vals, op):
    r = vals[0]
    for v in vals[1:]:
        r = op(r, v)
    return r


def _axis_reduce(a, axis, fn, kind=None):
    """Reduce along one concrete-length axis with fn(list of V) -> V."""
    if axis < 0:
        axis += a.ndim
    n = concrete_value(a.shape[axis]) if is_sym(a.shape[axis]) else a.shape[axis]
    if n is None:
        raise Unsupported("reduction along an axis of symbolic length")
    n = int(n)
    snap = a.snapshot()
    out_shape = tuple(s for k, s in enumerate(a.shape) if k != axis)

    def elem(idx):
        vals = []
        for t in range(n):
            full = list(idx[:axis]) + [t] + list(idx[axis:])
            vals.append(snap(*full))
        return fn(vals)

    return new_array(out_shape, elem, kind or a.kind)


def _all_values(a):
    import itertools

    sizes = [concrete_value(s) if is_sym(s) else s for s in a.shape]
    if any(s is None for s in sizes):
        return None
    snap = a.snapshot()
    return [snap(*ix) for ix in itertools.product(*[range(int(s)) for s in sizes])]


def v_sum(vals):
    tot = 0
    for v in vals:
        tot = tot + _numeric(v)
    return tot


def v_mean(vals):
    if not vals:
        raise Unsupported("mean of empty")
    return div(v_sum(vals), len(vals))


def v_median(vals):
    """Median of a short list of V through a compare-exchange (sorting) network."""
    vals = [_numeric(v) for v in vals]
    n = len(vals)
    if n == 0:
        raise Unsupported("median of empty")
    if n > 5:
        raise Unsupported("median of more than 5 symbolic values")
    xs = list(vals)
    for i in range(n):
        for j in range(n - 1 - i):
            lo, hi = vmin(xs[j], xs[j + 1]), vmax(xs[j], xs[j + 1])
            xs[j], xs[j + 1] = lo, hi
    if n % 2:
        return xs[n // 2]
    return div(xs[n // 2 - 1] + xs[n // 2], 2)


def array_sum(a, axis=None):
    if axis is not None:
        return _axis_reduce(a, axis, v_sum)
    vals = _all_values(a)
    if vals is not None and len(vals) <= 16:
        return lift(v_sum(vals)) if vals else 0
    return symbolic_sum(a)


def array_mean(a, axis=None):
    if axis is not None:
        return _axis_reduce(a, axis, v_mean, "f")
    vals = _all_values(a)
    if vals is not None and len(vals) <= 16:
        return v_mean(vals)
    s = symbolic_sum(a)
    return div(s, a.size)


def array_median(a, axis=None):
    if axis is not None:
        return _axis_reduce(a, axis, v_median, "f")
    vals = _all_values(a)
    if vals is None:
        raise Unsupported("median of an array of symbolic size")
    return v_median(vals)


def array_minmax_axis(a, axis, is_min):
    return _axis_reduce(a, axis, lambda vs: _fold([_numeric(v) for v in vs], vmin if is_min else vmax))


# ------------------------------------------------------------------ symbolic-length sums


class SumTag:
    def __init__(self, n, term):
        self.n = n  # V int: number of terms
        self.term = term  # j -> V


def symbolic_sum(a):
    """Sum over all elements of a (1-D) array of symbolic length: a fresh real tagged with its terms."""
    c = ctx()
    if a.ndim != 1:
        a = a.ravel()
    snap = a.snapshot()
    v = c.fresh("sum", "real" if a.kind == "f" else "int")
    tag_sum(v, a.shape[0], lambda j: snap(j))
    return v


def tag_sum(v, n, term):
    c = ctx()
    c.sum_tags[v.t.get_id()] = SumTag(n, term)
    c.used_axioms.add("finite sums are compared by congruence only: equal length and point-wise equal terms")


def sum_tag_of(v):
    if not isinstance(v, SymNum):
        return None
    return ctx().sum_tags.get(v.t.get_id())
