"""Assumed contracts for scikit-learn pieces used by verde.base.least_squares."""
import z3

from . import spec as S
from .arr import SymArr, as_array, havoc_array, new_array
from .core import Proxy  # noqa
from .core import SymNum, Unsupported, and_, ctx, div, implies, is_sym, ite, not_, or_, spec_fn


def _use(name):
    ctx().used_prelude.add("sklearn." + name)


class SymStandardScaler(Proxy):
    """StandardScaler(with_mean=False, with_std=True): scale_[c] = population std of column c
    (zero -> 1); fit_transform returns X / scale_ column-wise, IN PLACE when copy=False."""

    def __init__(self, copy=True, with_mean=True, with_std=True):
        _use("preprocessing.StandardScaler")
        self.copy, self.with_mean, self.with_std = copy, with_mean, with_std

    def fit_transform(self, X, y=None):
        c = ctx()
        X = as_array(X)
        if X.ndim != 2:
            raise ValueError("Expected 2D array")
        self.fitted_on = X.copy()
        ncol = X.shape[1]
        name = c.fresh_name("colstd")
        std = havoc_array(name, (ncol,), "f")
        stds = std.snapshot()
        S.assume(S.Forall((ncol,), lambda j: stds(j) > 0, name="StandardScaler.scale_positive"))
        self.scale_ = std if self.with_std else None
        mean = havoc_array(c.fresh_name("colmean"), (ncol,), "f") if self.with_mean else None
        self.mean_ = mean
        src = X.snapshot()

        def out(idx):
            v = src(*idx)
            if mean is not None:
                v = v - mean.at(idx[1])
            if self.with_std:
                v = div(v, stds(idx[1]))
            return v

        c.ghost.setdefault("sklearn.scaler", []).append(self)
        if self.copy:
            res = new_array(X.shape, out, "f")
        else:
            if X.kind != "f":
                raise ValueError("StandardScaler(copy=False) on a non-float array")
            X[...] = new_array(X.shape, out, "f")
            res = X
        self.transformed = res
        return res


class _SymRegressor(Proxy):
    KIND = "?"

    def fit(self, X, y, sample_weight=None):
        c = ctx()
        X, y = as_array(X), as_array(y)
        if X.ndim != 2 or y.ndim != 1:
            raise ValueError("Expected 2D X and 1D y")
        if not (X.shape[0] is y.shape[0]):
            c.oblige("sklearn.fit.consistent_length[%s]" % c.fresh_name("sk"), X.shape[0] == y.shape[0], kind="domain")
        if sample_weight is not None:
            w = as_array(sample_weight)
            if w.ndim != 1:
                raise ValueError("Sample weights must be 1D array or scalar")
            c.oblige("sklearn.fit.weights_length[%s]" % c.fresh_name("sk"), w.shape[0] == X.shape[0], kind="domain")
        self.X, self.y, self.sample_weight = X, y, sample_weight
        self.X_snapshot, self.y_snapshot = X.copy(), y.copy()
        self.w_snapshot = None if sample_weight is None else as_array(sample_weight).copy()
        self.coef_ = havoc_array(c.fresh_name("coef_" + self.KIND), (X.shape[1],), "f")
        self.coef_.lsq_problem = self
        c.ghost.setdefault("sklearn.regressor", []).append(self)
        return self


class SymLinearRegression(_SymRegressor):
    """LinearRegression(fit_intercept=False).fit(X, y, sample_weight): coef_ minimises sum w (X p - y)^2."""

    KIND = "LinearRegression"

    def __init__(self, fit_intercept=True, **kw):
        _use("linear_model.LinearRegression")
        self.fit_intercept, self.alpha, self.extra = fit_intercept, None, kw


class SymRidge(_SymRegressor):
    """Ridge(alpha, fit_intercept=False): coef_ minimises sum w (X p - y)^2 + alpha |p|^2."""

    KIND = "Ridge"

    def __init__(self, alpha=1.0, fit_intercept=True, **kw):
        _use("linear_model.Ridge")
        self.fit_intercept, self.alpha, self.extra = fit_intercept, alpha, kw
