"""Assumed contracts for pandas (filled in with the block-reduction properties)."""


class SymSeries:
    pass
