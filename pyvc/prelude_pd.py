"""Assumed contracts for pandas, as far as verde uses it (DataFrame construction / column access;
groupby-aggregate is modelled at the set level in prelude_groupby)."""
from collections import OrderedDict

from .arr import SymArr, as_array, new_array
from .core import Proxy  # noqa
from .core import Unsupported, ctx, is_sym


def _use(name):
    ctx().used_prelude.add("pandas." + name)


class SymSeries(Proxy):
    def __init__(self, values, name=None, index=None):
        self.values = as_array(values) if not isinstance(values, SymArr) else values
        self.name = name
        self.index = index

    def values_view(self):
        return self.values

    @property
    def shape(self):
        return self.values.shape

    @property
    def size(self):
        return self.values.size

    def ravel(self):
        return self.values.ravel()

    def __getitem__(self, key):
        from .prelude_groupby import GroupIndex, GroupSeries

        if isinstance(key, GroupIndex):
            snap = self.values.snapshot()
            return GroupSeries(key.gs, key.g, lambda p: snap(p))
        raise Unsupported("Series indexing with %r" % type(key))


class SymDataFrame(Proxy):
    """pd.DataFrame(dict_of_columns[, columns=order]): named 1-D columns of one common length."""

    def __init__(self, data=None, columns=None, index=None):
        _use("DataFrame")
        c = ctx()
        self.cols = OrderedDict()
        items = list(data.items()) if isinstance(data, dict) else None
        if items is None:
            raise Unsupported("DataFrame from %r" % type(data))
        if columns is not None:
            order = list(columns)
            d = dict(items)
            if set(order) != set(d):
                raise Unsupported("DataFrame(columns=...) selecting a subset")
            items = [(k, d[k]) for k in order]
        n = None
        for k, v in items:
            arr = v.values if isinstance(v, SymSeries) else as_array(v)
            if arr.ndim != 1:
                raise ValueError("Per-column arrays must each be 1-dimensional")
            if n is None:
                n = arr.shape[0]
            elif not (arr.shape[0] is n):
                ok = arr.shape[0] == n
                if ok is False:
                    raise ValueError("All arrays must be of the same length")
                if ok is not True and not c.in_spec:
                    c.oblige("DataFrame.same_length[%s]" % c.fresh_name("df"), ok, kind="domain")
            self.cols[k] = arr
        self.nrows = n if n is not None else 0

    @property
    def columns(self):
        return list(self.cols.keys())

    def __getitem__(self, key):
        if isinstance(key, (str, tuple)) and key in self.cols:
            return SymSeries(self.cols[key], name=key)
        raise KeyError(key)

    def update_columns(self, more):
        for k, v in more.items():
            self.cols[k] = as_array(v)

    def __len__(self):
        from .core import concrete_value

        v = concrete_value(self.nrows) if is_sym(self.nrows) else self.nrows
        if v is None:
            raise Unsupported("len() of a DataFrame with a symbolic number of rows")
        return int(v)

    def dropna(self):
        """Rows without a NaN in any column, in order: row t of the result is source row src(t)
        (src strictly increasing); a source row is kept iff none of its entries is NaN."""
        import z3

        from . import spec as S
        from .arr import havoc_array, new_array
        from .core import SymNum, and_, implies, not_, or_, to_z3

        _use("DataFrame.dropna")
        c = ctx()
        n = self.nrows
        m = c.fresh("nkept", "int")
        c.assume(and_(m >= 0, m <= n))
        src_uf = z3.Function(c.fresh_name("dropna_src"), z3.IntSort(), z3.IntSort())
        from .arr import _storage_ids

        leaf = next(_storage_ids)

        def src(t):
            c2 = ctx()
            c2.leaf_touch(leaf, (t,))
            return SymNum(src_uf(to_z3(t)), "int")

        cols = list(self.cols.items())

        def isnan_row(p):
            return or_(*[a.nan_at(p) for _, a in cols]) if any(a.storage.nan is not None for _, a in cols) else False

        S.assume(S.Forall((m,), lambda t: and_(src(t) >= 0, src(t) < n, not_(isnan_row(src(t)))), name="dropna.kept_rows_are_complete_source_rows"))
        S.assume(S.Forall((m, m), lambda s_, t: implies(s_ < t, src(s_) < src(t)), name="dropna.order_preserved"))
        pos_uf = z3.Function(c.fresh_name("dropna_pos"), z3.IntSort(), z3.IntSort())
        pos = lambda p: SymNum(pos_uf(to_z3(p)), "int")
        S.assume(S.Forall((n,), lambda p: implies(not_(isnan_row(p)), and_(pos(p) >= 0, pos(p) < m, src(pos(p)) == p)), name="dropna.every_complete_row_is_kept"))
        out = SymDataFrame({})
        out.nrows = m
        for k, a in cols:
            snap = a.snapshot()
            out.cols[k] = new_array((m,), lambda idx, snap=snap: snap(src(idx[0])), a.kind)
        out.dropna_src = src
        out.dropna_of = self
        c.ghost.setdefault("dropna", []).append(out)
        return out

    def groupby(self, key):
        from .prelude_groupby import SymGroupBy

        return SymGroupBy(self, key)


class SymRowFrame(Proxy):
    """pd.DataFrame(2-D array with ONE row, index=[0], columns=names)."""

    def __init__(self, row, names):
        self.row, self.names = row, list(names)

    def value(self, k):
        return self.row.at(0, k)


def _dataframe(data=None, columns=None, index=None):
    if isinstance(data, SymArr):
        from .core import concrete_value

        n0 = concrete_value(data.shape[0]) if is_sym(data.shape[0]) else data.shape[0]
        if data.ndim == 2 and n0 == 1 and columns is not None:
            _use("DataFrame (one row from a 2-D array)")
            return SymRowFrame(data.copy(), columns)
        raise Unsupported("DataFrame from an array")
    return SymDataFrame(data, columns=columns, index=index)


class _PD:
    DataFrame = staticmethod(_dataframe)
    Series = SymSeries

    def __getattr__(self, name):
        raise Unsupported("pandas.%s has no assumed contract in the prelude" % name)


PD = _PD()
