"""vcheck: per-property driver.  python -m pyvc.cli prop C07 --tier quick"""
import argparse
import hashlib
import importlib
import json
import os
import subprocess
import sys
import time

from .runner import REPO, ROOT, run_tasks, setup_imports

EXIT_OK, EXIT_VIOLATION, EXIT_UNDECIDED, EXIT_ERROR = 0, 1, 2, 3


def load_known():
    p = os.path.join(ROOT, "known_findings.json")
    if not os.path.exists(p):
        return []
    return json.load(open(p)).get("findings", [])


def git_rev(path):
    try:
        return subprocess.check_output(["git", "-C", path, "rev-parse", "--short", "HEAD"], text=True, stderr=subprocess.DEVNULL).strip()
    except Exception:
        return "unknown"


def tree_dirty(path):
    try:
        return bool(subprocess.check_output(["git", "-C", path, "status", "--porcelain", "--", "verde"], text=True, stderr=subprocess.DEVNULL).strip())
    except Exception:
        return False


def main(argv=None):
    ap = argparse.ArgumentParser()
    ap.add_argument("cmd", choices=["prop", "replay"])
    ap.add_argument("what")
    ap.add_argument("--tier", default=os.environ.get("VERIF_TIER", "quick"), choices=["quick", "thorough"])
    ap.add_argument("--jobs", type=int, default=int(os.environ.get("VERIF_JOBS", "16")))
    ap.add_argument("--no-bounded", action="store_true")
    ap.add_argument("--only", default=None, help="restrict to targets containing this substring (debugging)")
    ap.add_argument("-v", "--verbose", action="store_true")
    a = ap.parse_args(argv)
    setup_imports()
    if a.cmd == "replay":
        return do_replay(a.what)
    return do_prop(a)


def do_replay(path):
    d = json.load(open(path))
    print(json.dumps({k: d[k] for k in d if k in ("property", "obligation", "function", "config", "reproduced", "inputs", "native_outcome", "native_failures", "note")}, indent=1))
    from .replaytool import rerun

    return rerun(d)


def _keys_for_target(target, REGISTRY):
    if target.split(":")[0].startswith(("contracts.", "props.")):
        return []  # ghost recorders / lemma wrappers defined in /verif, not verde code
    if target in REGISTRY:
        return [target]
    return [k for k, K in REGISTRY.items() if K.target == target][:1]


def dependency_closure(roots, REGISTRY, include_roots=False, exclude=()):
    seen, order, todo = set(roots) | set(exclude), [], list(roots)
    if include_roots:
        order = [r for r in roots]
    while todo:
        K = REGISTRY[todo.pop(0)]
        deps = list(getattr(K, "stubs", {}).values()) + list(getattr(K, "deps", ()))
        for d in deps:
            if not isinstance(d, str):
                d = getattr(d, "target", None)
            for k in _keys_for_target(d, REGISTRY) if d else []:
                if k not in seen:
                    seen.add(k)
                    order.append(k)
                    todo.append(k)
    return order


def do_prop(a):
    t0 = time.time()
    prop = a.what
    seed = int(os.environ.get("VERIF_SEED", "0") or 0)
    pm = importlib.import_module("props." + prop)
    from .contract import REGISTRY

    for m in pm.CONTRACT_MODULES:
        importlib.import_module(m)
    known = [k for k in load_known() if k.get("property") == prop]
    from .core import Ctx as _Ctx

    _Ctx.PROVE_KINDS = getattr(pm, "PROVE_KINDS", None)
    from . import contract as CT

    CT.KNOWN = [k for k in load_known() if k.get("status") == "known"]
    tasks = []
    for key in pm.TARGETS:
        if a.only and a.only not in key:
            continue
        K = REGISTRY[key]
        for cfg in K.configs(a.tier):
            tasks.append((key, cfg, a.tier, prop))
    # modular proof: a target is proved against the CONTRACTS of its verde callees, so a change inside a callee
    # is noticed only by that callee's own obligations. The callee contracts this property's targets rely on
    # (transitively) are therefore discharged by this check too, unless VERIF_NO_DEPS=1.
    dep_keys = [] if (a.only or os.environ.get("VERIF_NO_DEPS") == "1") else dependency_closure(pm.TARGETS, REGISTRY)
    for key in dep_keys:
        for cfg in REGISTRY[key].configs(a.tier):
            tasks.append((key, cfg, a.tier, prop))
    results = run_tasks(tasks, a.jobs)
    if dep_keys is not None and not a.only and os.environ.get("VERIF_NO_DEPS") != "1":
        # contracts that were used as stubs at run time but are not (yet) among the tasks (stubs installed by
        # patch_modules rather than declared): discharge them in a second round
        have = set(pm.TARGETS) | set(dep_keys)
        extra = []
        for r in results:
            for u in r.get("used_prelude", []):
                if u.startswith("contract-stub:"):
                    t = u.split(":", 1)[1]
                    for k in _keys_for_target(t, REGISTRY):
                        if k not in have and k not in extra:
                            extra.append(k)
        extra = dependency_closure(extra, REGISTRY, include_roots=True, exclude=have)
        if extra:
            t2 = [(key, cfg, a.tier, prop) for key in extra for cfg in REGISTRY[key].configs(a.tier)]
            results += run_tasks(t2, a.jobs)
            tasks += t2
            dep_keys += extra

    obligations, discharged, refuted, unknown = 0, 0, [], []
    undecided_tasks, error_tasks = [], []
    by_backend = {}
    prelude, axioms, functions = set(), set(), {}
    solver_s = 0.0
    paths = 0
    samples = []
    covers = {}
    for r in results:
        functions.setdefault(r["target"], {"configs": 0, "paths": 0, "obligations": 0})
        f = functions[r["target"]]
        f["configs"] += 1
        if r["status"] == "unsupported":
            undecided_tasks.append(r)
            continue
        if r["status"] == "error":
            error_tasks.append(r)
            continue
        f["paths"] += r["paths"]
        paths += r["paths"]
        solver_s += r["solver_seconds"]
        prelude |= set(r["used_prelude"])
        axioms |= set(r["used_axioms"])
        cv = covers.setdefault(r["target"], {"returns": 0, "raises": 0})
        cv["returns"] += r["returns"]
        cv["raises"] += r["raises"]
        for ob in r["obligations"]:
            obligations += 1
            f["obligations"] += 1
            if ob["status"] == "discharged":
                discharged += 1
                by_backend[ob["backend"]] = by_backend.get(ob["backend"], 0) + 1
                if len(samples) < 12 and ob["kind"] == "post" and ob["formula"] not in ("True", ""):
                    samples.append({"obligation": ob["name"], "goal": ob["formula"][:300], "backend": ob["backend"], "seconds": ob["seconds"]})
            elif ob["status"] == "refuted":
                ob["_task"] = r
                refuted.append(ob)
            else:
                ob["_task"] = r
                unknown.append(ob)

    # vacuity guards
    vac_errors = []
    if not a.only:
        if obligations == 0 and not undecided_tasks and not error_tasks:
            vac_errors.append("zero obligations generated")
        for key in pm.TARGETS:
            K = REGISTRY[key]
            cv = covers.get(key, {"returns": 0, "raises": 0})
            if getattr(K, "cover_return", True) and cv["returns"] == 0 and not any(t["target"] == key for t in undecided_tasks + error_tasks):
                vac_errors.append("cover failed: no path of %s reaches a normal return" % key)
            if getattr(K, "cover_raise", False) and cv["raises"] == 0 and not any(t["target"] == key for t in undecided_tasks + error_tasks):
                vac_errors.append("cover failed: no path of %s reaches a raising exit" % key)
        exp = getattr(pm, "MIN_OBLIGATIONS", {}).get(a.tier)
        if exp and obligations < exp and not undecided_tasks and not error_tasks:
            vac_errors.append("obligation count %d below the registered minimum %d" % (obligations, exp))

    # bounded stand-in
    bounded = {"ran": False}
    bounded_failures = []
    if not a.no_bounded and hasattr(pm, "bounded"):
        tb = time.time()
        try:
            bounded = pm.bounded(a.tier, seed)
            if dep_keys and os.environ.get("VERIF_NO_DEPS") != "1":
                # the run-time contracts of the callee contracts this property relies on (same reason as for their
                # deductive obligations: a change inside a callee shows in the callee's own clauses)
                from .bounded import run_samplers

                extra_b = run_samplers([k for k in dep_keys if k not in pm.TARGETS], a.tier, seed + 1)
                bounded["evaluations"] = bounded.get("evaluations", 0) + extra_b["evaluations"]
                bounded["skipped_outside_requires"] = bounded.get("skipped_outside_requires", 0) + extra_b["skipped_outside_requires"]
                bounded.setdefault("per_function", {}).update(extra_b["per_function"])
                bounded.setdefault("failures", []).extend(extra_b["failures"])
            for bk, bv in (bounded.get("per_function") or {}).items():
                if isinstance(bv, str) and bv.startswith("skipped"):
                    # a run-time contract that could not be evaluated (its sampler raised / it no longer binds): nothing
                    # was checked for that function - undecided, never silently fine
                    undecided_tasks.append({"target": bk, "cfg_label": "bounded", "message": bv})
            bounded["ran"] = True
            bounded["label"] = "BOUNDED stand-in (run-time contract evaluation on the real functions): never counted as proved"
            bounded["derived_evaluations"] = "every sample is also evaluated with its >= 2-D arrays (incl. those inside xarray objects) in Fortran / mixed memory order; the first samples of each function also with (some of) their float64 arrays rounded and cast to int64 (dtype variants); the first samples of each function also under two call histories (results of an identical earlier call scribbled over; the same input array objects changed in place; for methods, the same object first serving a call on other data of the same shapes); the samplers of the callee contracts the targets rely on are run as well"
            bounded["wall_s"] = round(time.time() - tb, 2)
            bounded_failures = bounded.pop("failures", [])
            bounded["failures_n"] = len(bounded_failures)
        except Exception as e:
            import traceback

            error_tasks.append({"target": "bounded-stage", "cfg_label": "-", "message": "%s: %s\n%s" % (type(e).__name__, e, traceback.format_exc(limit=6))})

    # proxy-vs-native cross execution of the trusted base (thorough tier)
    cross = {"ran": False}
    if a.tier == "thorough" and not a.no_bounded and not a.only:
        from . import crossexec

        try:
            cross = crossexec.run(pm.TARGETS, a.tier, seed)
            cross["ran"] = True
            for d in cross["disagreements"]:
                error_tasks.append({"target": d["target"], "cfg_label": "cross-execution", "message": "proxy and native execution disagree: %s on %s" % (d["what"], str(d["inputs"])[:300])})
        except Exception as e:
            error_tasks.append({"target": "cross-execution", "cfg_label": "-", "message": "%s: %s" % (type(e).__name__, e)})

    # known findings
    lines = []
    violations = []
    os.makedirs(os.path.join(ROOT, "replays"), exist_ok=True)

    def is_known(clause, inputs_desc, text=""):
        for k in known:
            if k.get("status") != "known":
                continue
            if k.get("clause") and k["clause"] != clause.split("[")[0]:
                continue
            return k
        return None

    for ob in refuted:
        r = ob.pop("_task")
        rep = ob.get("replay", {})
        doc = {
            "property": prop,
            "obligation": ob["name"],
            "clause": ob["clause"],
            "function": r["target"],
            "config": r["cfg"],
            "path_decisions": ob["decisions"],
            "goal": ob["formula"],
            "verifier": "pyvc/z3 " + _z3v(),
            "verifier_output": ob["detail"],
            "reproduced": bool(rep.get("reproduced")),
            "inputs": rep.get("inputs"),
            "native_outcome": rep.get("native_outcome"),
            "native_exception": rep.get("native_exception"),
            "native_result": rep.get("native_result"),
            "native_failures": rep.get("native_failures"),
            "note": rep.get("note", ""),
            "tree": {"repo": REPO, "rev": git_rev(REPO), "dirty": tree_dirty(REPO)},
            "kind": "deductive",
        }
        violations.append(doc)
    for bf in bounded_failures:
        doc = {
            "property": prop,
            "obligation": bf.get("clause"),
            "clause": bf.get("clause"),
            "function": bf.get("target"),
            "config": bf.get("cfg"),
            "goal": "run-time contract clause (bounded stand-in)",
            "verifier": "run-time contract evaluation on the real function",
            "verifier_output": bf.get("detail"),
            "reproduced": True,
            "inputs": bf.get("inputs"),
            "native_outcome": bf.get("outcome"),
            "note": bf.get("note", ""),
            "tree": {"repo": REPO, "rev": git_rev(REPO), "dirty": tree_dirty(REPO)},
            "kind": "bounded",
            "regen": bf.get("regen"),
        }
        violations.append(doc)

    n_viol = 0
    known_hit = set()
    seen_clause = set()
    for doc in violations:
        k = match_known(known, doc)
        if k is not None:
            known_hit.add(k["id"])
            continue
        ckey = (doc["function"], (doc["clause"] or "").split("[")[0])
        h = hashlib.sha1(json.dumps([doc["obligation"], doc["config"], doc.get("inputs")], sort_keys=True, default=str).encode()).hexdigest()[:10]
        path = os.path.join(ROOT, "replays", "%s-%s.json" % (prop, h))
        json.dump(doc, open(path, "w"), indent=1, default=str)
        n_viol += 1
        if ckey in seen_clause and n_viol > 12:
            continue
        seen_clause.add(ckey)
        tail = "" if doc["reproduced"] else " no-failing-input-found"
        lines.append("VIOLATION property=%s replay=%s obligation=%s%s" % (prop, path, doc["obligation"], tail))
    for k in known:
        if k.get("status") == "known":
            ok, msg = reproduce_known(k)
            if ok:
                lines.append("KNOWN-FINDING: property=%s %s" % (prop, k["what"]))
            else:
                lines.append("NOTE: listed known finding %s no longer reproduces (%s)" % (k["id"], msg))

    status = EXIT_OK
    if n_viol:
        status = EXIT_VIOLATION
    elif error_tasks or vac_errors:
        status = EXIT_ERROR
    elif unknown or undecided_tasks:
        status = EXIT_UNDECIDED

    level = getattr(pm, "LEVEL", "proof")
    ev = {
        "property_id": prop,
        "tier": a.tier,
        "seed": seed,
        "level": level,
        "wall_s": round(time.time() - t0, 2),
        "violations": n_viol,
        "coverage": {
            "obligations": obligations,
            "discharged": discharged,
            "refuted": len(refuted),
            "undecided_obligations": len(unknown),
            "checker_cmd": "bin/vcheck prop %s --tier %s" % (prop, a.tier),
            "trusted_base": sorted(TRUSTED_BASE + sorted(prelude) + sorted("axiom: " + x for x in axioms)),
            "explanation": getattr(pm, "EXPLANATION", ""),
            "functions_under_contract": functions,
            "inlined_helpers": sorted({h for key in list(pm.TARGETS) + list(dep_keys) for h in REGISTRY[key].inline}),
            "property_targets": list(pm.TARGETS),
            "callee_contracts_discharged_here": list(dep_keys),
            "configs": len(tasks),
            "paths": paths,
            "discharged_by_backend": by_backend,
            "solver_seconds": round(solver_s, 3),
            "samples": samples,
            "undecided_tasks": [{"target": t["target"], "cfg": t.get("cfg_label"), "why": t["message"][:400]} for t in undecided_tasks],
            "checker_errors": [{"target": t["target"], "cfg": t.get("cfg_label"), "why": t["message"][:600]} for t in error_tasks] + vac_errors,
            "vacuity": {"covers": covers, "canary": "every path's assumptions+path condition checked satisfiable (else checker error)", "errors": vac_errors},
            "bounded": bounded,
            "proxy_vs_native_cross_execution": {k: cross.get(k) for k in ("ran", "agree", "skipped", "per_function")} if cross.get("ran") else {"ran": False, "note": "thorough tier only"},
            "known_findings_reproduced": sorted(known_hit),
            "tree": {"repo": REPO, "rev": git_rev(REPO), "dirty": tree_dirty(REPO)},
            "exit_status": status,
        },
        "assumptions": getattr(pm, "ASSUMPTIONS", []) + ASSUMPTIONS_COMMON,
    }
    evdir = os.environ.get("VERIF_EVIDENCE_DIR") or os.path.join(ROOT, "evidence")
    os.makedirs(evdir, exist_ok=True)
    json.dump(ev, open(os.path.join(evdir, prop + ".json"), "w"), indent=1, default=str)

    for ln in lines:
        print(ln)
    print(
        "%s tier=%s: %d/%d obligations discharged, %d refuted, %d undecided; %d functions, %d configs, %d paths; bounded evaluations=%s; %.1fs -> exit %d"
        % (prop, a.tier, discharged, obligations, len(refuted), len(unknown) + len(undecided_tasks), len(functions), len(tasks), paths, bounded.get("evaluations"), time.time() - t0, status)
    )
    if a.verbose or status not in (EXIT_OK,):
        for t in undecided_tasks:
            print("UNDECIDED task %s [%s]: %s" % (t["target"], t["cfg_label"], t["message"][:600]))
        for t in error_tasks:
            print("CHECKER-ERROR task %s [%s]: %s" % (t["target"], t.get("cfg_label"), t["message"][:1500]))
        for v in vac_errors:
            print("CHECKER-ERROR vacuity: %s" % v)
        for ob in unknown:
            print("UNDECIDED obligation %s :: %s" % (ob["name"], ob["formula"][:200]))
    return status


def match_known(known, doc):
    for k in known:
        if k.get("status") != "known":
            continue
        if k.get("function") and k["function"] != doc.get("function"):
            continue
        clause = (doc.get("clause") or "").split("[")[0]
        if k.get("clauses") and clause not in k["clauses"]:
            continue
        pred = k.get("input_predicate")
        if not pred:
            # a finding is identified by the specific failing input: without a predicate over the inputs nothing is
            # suppressed here (the carve-out of such a finding lives inside the contract clause itself, restricted
            # to exactly the known input class), so any OTHER failure of the same clause is still reported
            continue
        from . import knownpred

        try:
            if not knownpred.PREDICATES[pred](doc):
                continue
        except Exception:
            continue
        return k
    return None


def reproduce_known(k):
    from . import knownpred

    fn = knownpred.WITNESSES.get(k.get("witness"))
    if fn is None:
        return True, "no witness registered"
    try:
        return fn()
    except Exception as e:
        return False, "%s: %s" % (type(e).__name__, e)


def _z3v():
    import z3

    return z3.get_version_string()


TRUSTED_BASE = [
    "pyvc engine (proxy arithmetic, array/view model, path explorer) - cross-checked against native execution by replay and by the bounded stage",
    "CPython 3.12 control flow (the real function objects are executed by the interpreter itself)",
    "z3 5.1.0 (SMT back end)",
    "machine arithmetic treated as mathematical: float = real, int = unbounded integer",
]

ASSUMPTIONS_COMMON = [
    "float64 arithmetic is treated as exact real arithmetic and int64 as unbounded integers in every discharged obligation; round-off behaviour is covered only by the bounded stage",
    "every numpy/scipy/sklearn/pandas/xarray entry point listed in trusted_base is an ASSUMED contract (prelude), not proved",
    "array rank is enumerated (configs), array sizes and all values are symbolic",
    "numba is absent: the numpy engine is the code that runs",
]

if __name__ == "__main__":
    sys.exit(main())
