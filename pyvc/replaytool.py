"""Re-run a replay file against the current tree."""
import importlib
import json

import numpy as np


def _undescribe(x):
    if isinstance(x, dict) and "ndarray" in x:
        return np.array(x["ndarray"], dtype=x.get("dtype", "float64")).reshape(x["shape"])
    if isinstance(x, list):
        return [_undescribe(v) for v in x]
    if isinstance(x, dict):
        return {k: _undescribe(v) for k, v in x.items()}
    return x


def rerun(d):
    from . import concrete as C
    from .contract import REGISTRY

    prop = d["property"]
    pm = importlib.import_module("props." + prop)
    for m in pm.CONTRACT_MODULES:
        importlib.import_module(m)
    K = REGISTRY.get(d["function"])
    if K is None or not d.get("inputs"):
        print("nothing to re-run natively (obligation: %s)" % d.get("obligation"))
        return 0
    args = _undescribe(d["inputs"]["args"])
    kwargs = _undescribe(d["inputs"]["kwargs"])

    def tup(x):
        return tuple(x) if isinstance(x, list) else x

    res = C.check_call(K, tuple(args), kwargs)
    print("native outcome:", res.kind, res.exc if res.exc is not None else "")
    for f in res.failures:
        print("FAILS", f[0], "::", f[1])
    return 1 if res.failures else 0
