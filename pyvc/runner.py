"""Task runner: (contract, config) -> obligations; replay; evidence; exit codes."""
import hashlib
import importlib
import json
import multiprocessing as mp
import os
import sys
import time
import traceback

ROOT = os.path.dirname(os.path.dirname(os.path.abspath(__file__)))
REPO = os.environ.get("VERIF_REPO", "/repo")


def setup_imports():
    """Import verde from the tree under verification (VERIF_REPO, default /repo)."""
    if REPO not in sys.path or sys.path[0] != REPO:
        sys.path.insert(0, REPO)
    if ROOT not in sys.path:
        sys.path.insert(1, ROOT)
    import verde  # noqa

    src = os.path.realpath(os.path.dirname(verde.__file__))
    want = os.path.realpath(os.path.join(REPO, "verde"))
    if src != want:
        raise RuntimeError("verde imported from %s, expected %s" % (src, want))


def _cfg_label(cfg):
    return ",".join("%s=%s" % (k, cfg[k]) for k in sorted(cfg)) or "-"


def run_task(task):
    """Worker: verify one (contract key, cfg). Returns a JSON-able dict."""
    key, cfg, tier, prop = task
    from .contract import REGISTRY, verify_path
    from .core import Ctx, SpecError, Unsupported, explore

    K = REGISTRY[key]
    t0 = time.time()
    rec = {
        "target": key,
        "function": K.target,
        "cfg": cfg,
        "cfg_label": _cfg_label(cfg),
        "status": "ok",
        "message": "",
        "paths": 0,
        "returns": 0,
        "raises": 0,
        "obligations": [],
        "used_prelude": [],
        "used_axioms": [],
        "solver_seconds": 0.0,
        "solver_calls": 0,
        "replays": [],
        "events": [],
    }
    timeout_ms = 30000 if tier == "quick" else 120000
    outcomes = {}

    def path(c):
        out = verify_path(K, cfg, c, prop)
        outcomes[tuple(c.decisions)] = (out, c)
        return out

    try:
        results = explore(path, max_paths=K.max_paths, timeout_ms=timeout_ms, label=key)
    except Unsupported as e:
        rec["status"] = "unsupported"
        rec["message"] = str(e)[:2000]
        rec["wall_s"] = time.time() - t0
        return rec
    except SpecError as e:
        rec["status"] = "error"
        rec["message"] = "SpecError: %s" % e
        rec["wall_s"] = time.time() - t0
        return rec
    except Exception as e:
        rec["status"] = "error"
        rec["message"] = "%s: %s\n%s" % (type(e).__name__, e, traceback.format_exc(limit=8))
        rec["wall_s"] = time.time() - t0
        return rec
    prelude, axioms = set(), set()
    for pi, p in enumerate(results):
        rec["paths"] += 1
        if p.outcome.kind == "return":
            rec["returns"] += 1
        else:
            rec["raises"] += 1
        prelude |= p.used_prelude
        axioms |= p.used_axioms
        rec["solver_seconds"] += p.solver_seconds
        rec["solver_calls"] += p.solver_calls
        for ev in p.events:
            if list(ev) not in rec["events"]:
                rec["events"].append(list(ev))
        for ob in p.obligations:
            d = {
                "name": "%s:%s[cfg=%s,path=%d]" % (prop, ob.name, rec["cfg_label"], pi),
                "clause": ob.name,
                "status": ob.status,
                "kind": ob.kind,
                "seconds": round(ob.seconds, 4),
                "backend": ob.backend,
                "formula": ob.formula_txt,
                "detail": ob.detail[:3000],
                "path": pi,
                "decisions": p.decisions,
            }
            if ob.status == "refuted":
                d["replay"] = _replay(K, cfg, p, ob, outcomes)
            rec["obligations"].append(d)
    rec["used_prelude"] = sorted(prelude)
    rec["used_axioms"] = sorted(axioms)
    rec["wall_s"] = time.time() - t0
    return rec


def _replay(K, cfg, p, ob, outcomes):
    """Turn the counter-model into native inputs and run the real function on them."""
    from . import concrete as C

    info = {"reproduced": False, "note": ""}
    if ob.model is None:
        info["note"] = "no model"
        return info
    pair = outcomes.get(tuple(p.decisions))
    if pair is None:
        info["note"] = "path outcome unavailable"
        return info
    out, c = pair
    if out.args is None:
        info["note"] = "no arguments recorded"
        return info
    from .core import Ctx

    prev = Ctx.current
    Ctx.current = c
    try:
        c.in_spec += 1
        try:
            args, kwargs = C.concretize(ob.model, out.args[0]), C.concretize(ob.model, out.args[1])
        finally:
            c.in_spec -= 1
    except Exception as e:
        info["note"] = "could not concretise the counter-model: %s" % e
        Ctx.current = prev
        return info
    finally:
        Ctx.current = prev
    info["inputs"] = {"args": C.describe(args), "kwargs": C.describe(kwargs)}
    if getattr(K, "native_replay", True) is False:
        info["note"] = "lemma over contracts: no native function to replay"
        return info
    try:
        res = C.check_call(K, args, kwargs)
    except Exception as e:
        info["note"] = "native replay crashed: %s: %s" % (type(e).__name__, e)
        return info
    info["native_outcome"] = res.kind
    if res.kind == "raise":
        info["native_exception"] = "%s: %s" % (type(res.exc).__name__, str(res.exc)[:300])
    elif res.kind == "return":
        info["native_result"] = C.describe(res.result)
    info["native_failures"] = [list(f) for f in res.failures]
    base = ob.name.split("[")[0]
    info["reproduced"] = any(f[0].split("[")[0] == base or f[0] == ob.name for f in res.failures) or (
        bool(res.failures) and ob.kind in ("domain", "call", "frame")
    )
    if not info["reproduced"] and res.failures:
        info["note"] = "native run violates the contract, but at a different clause"
        info["reproduced"] = True
    return info


def _empty_rec(task, status, message):
    key, cfg = task[0], task[1]
    return {"target": key, "cfg": cfg, "cfg_label": _cfg_label(cfg), "status": status, "message": message, "paths": 0, "returns": 0, "raises": 0, "obligations": [], "used_prelude": [], "used_axioms": [], "solver_seconds": 0.0, "solver_calls": 0, "replays": [], "events": []}


def _child(task, conn):
    try:
        rec = run_task(task)
    except BaseException as e:  # never let a worker die silently
        rec = _empty_rec(task, "error", "%s: %s" % (type(e).__name__, e))
    try:
        conn.send(rec)
    finally:
        conn.close()


def run_tasks(tasks, jobs=None, wall_limit=None):
    """One forked process per task (at most `jobs` at a time) with a hard wall-clock limit:
    z3 occasionally ignores its own timeout inside non-linear reasoning; such a task is killed and
    reported as undecided, never as a verdict."""
    jobs = jobs or min(16, os.cpu_count() or 4)
    wall_limit = wall_limit or int(os.environ.get("VERIF_TASK_WALL", "0")) or (420 if (tasks and tasks[0][2] == "quick") else 1500)
    if jobs == 1 and len(tasks) <= 1:
        return [run_task(t) for t in tasks]
    ctxm = mp.get_context("fork")
    results = [None] * len(tasks)
    pending = list(range(len(tasks)))
    running = {}
    while pending or running:
        while pending and len(running) < jobs:
            i = pending.pop(0)
            parent, child = ctxm.Pipe(duplex=False)
            pr = ctxm.Process(target=_child, args=(tasks[i], child))
            pr.start()
            child.close()
            running[i] = (pr, parent, time.time())
        done = []
        for i, (pr, conn, t0) in running.items():
            if conn.poll(0):
                try:
                    results[i] = conn.recv()
                except EOFError:
                    results[i] = None
                pr.join(5)
                done.append(i)
            elif not pr.is_alive():
                pr.join()
                done.append(i)
            elif time.time() - t0 > wall_limit:
                pr.terminate()
                pr.join(5)
                if pr.is_alive():
                    pr.kill()
                results[i] = _empty_rec(tasks[i], "unsupported", "task exceeded the wall-clock limit of %ds (solver did not return)" % wall_limit)
                done.append(i)
        for i in done:
            pr, conn, _ = running.pop(i)
            conn.close()
            if results[i] is None:
                results[i] = _empty_rec(tasks[i], "error", "worker died without a result (exit code %s)" % pr.exitcode)
        if not done:
            time.sleep(0.02)
    return results
