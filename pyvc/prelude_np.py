"""Assumed contracts for numpy (the `np` the verde modules see while being verified).

Every entry is an ASSUMPTION about numpy, recorded in ctx.used_prelude when used and listed in
the evidence. Unknown attributes raise Unsupported (verdict: undecided), never fall through to
the real C extension.
"""
import math

import z3

from . import spec as S
from .arr import (
    DType,
    SymArr,
    Storage,
    as_array,
    broadcast_getter,
    broadcast_shapes,
    cast_value,
    elementwise,
    from_list,
    havoc_array,
    new_array,
    parse_dtype,
    reindex,
    scalar_to_arr,
    unflatten,
    _as_scalar,
    _prod,
    _same_dim,
    dims_equal,
    mask_key,
)
from .core import Proxy  # noqa
from .core import (
    SymBool,
    SymNum,
    Unsupported,
    and_,
    concrete_value,
    ctx,
    div,
    floordiv,
    implies,
    is_sym,
    ite,
    kind_of,
    lift,
    not_,
    or_,
    spec_fn,
    spec_log,
    spec_sqrt,
    to_z3,
    _numeric,
    vmax,
    vmin,
)


def _use(name):
    ctx().used_prelude.add("numpy." + name)


def _is_arr(x):
    return isinstance(x, SymArr)


def _arrish(x):
    import numpy as _np

    return isinstance(x, (SymArr, list, tuple, _np.ndarray))


def _ew1(name, fn, x, kind="f"):
    _use(name)
    if _arrish(x):
        return elementwise(fn, (as_array(x),), kind)
    from .prelude_pd import SymSeries

    if isinstance(x, SymSeries):
        return elementwise(fn, (x.values,), kind)
    return fn(_as_scalar(x))


def _ew2(name, fn, x, y, kind=None, out=None):
    _use(name)
    if _arrish(x) or _arrish(y):
        xs = as_array(x) if _arrish(x) else x
        ys = as_array(y) if _arrish(y) else y
        r = elementwise(fn, (xs, ys), kind)
    else:
        r = fn(_as_scalar(x), _as_scalar(y))
    if out is not None:
        if not _is_arr(r):
            r = scalar_to_arr(r)
        _write_out(out, r, name)
        return out
    return r


def _write_out(out, r, name):
    if not _is_arr(out):
        raise Unsupported("out= is not an array")
    # numpy requires out to have the broadcast shape
    c = ctx()
    if len(out.shape) != len(r.shape):
        raise ValueError("non-broadcastable output operand")
    for a, b in zip(out.shape, r.shape):
        if not _same_dim(a, b):
            c.oblige("%s.out_shape[%s]" % (name, c.fresh_name("o")), dims_equal(a, b), kind="domain")
    out[...] = r


def _domain(name, x, pred):
    """Eager domain obligation for an element-wise function: pred holds for EVERY element."""
    c = ctx()
    if c.in_spec or c.concrete:
        return
    nm = "%s[%s]" % (name, c.fresh_name("dom"))
    if _arrish(x):
        a = as_array(x)
        snap = a.snapshot()
        if a.mask is not None:
            mfn = a.mask[1]
            S.prove(nm, S.Forall(a.shape, lambda *i: implies(mfn(*i), pred(snap(*i)))), kind="domain")
        else:
            S.prove(nm, S.Forall(a.shape, lambda *i: pred(snap(*i))), kind="domain")
    else:
        v = _as_scalar(x)
        if is_sym(v):
            c.oblige(nm, pred(v), kind="domain")


class _Reduction:
    pass


def _minmax(name, a, is_min, axis=None, skipnan=False):
    _use(name)
    a = as_array(a)
    c = ctx()
    if axis is not None:
        return _minmax_axis(name, a, is_min, axis)
    if a.ndim == 0:
        return a.at()
    snap = a.snapshot()
    dims = a.shape
    mfn = a.mask[1] if a.mask is not None else None
    sizes = [concrete_value(n) for n in dims]
    nanfn = None
    if a.storage.nan is not None:
        nfn, fwd = a.storage.nan, a.fwd
        nanfn = lambda *idx: nfn(fwd(idx))
    # small concrete arrays without masks: fold directly (exact, no quantifiers)
    if mfn is None and nanfn is None and all(s is not None for s in sizes) and _prod([int(s) for s in sizes]) <= (4096 if c.crossexec else 8):
        import itertools

        idxs = list(itertools.product(*[range(int(s)) for s in sizes]))
        if not idxs:
            raise ValueError("zero-size array to reduction operation which has no identity")
        r = snap(*idxs[0])
        for ix in idxs[1:]:
            v = snap(*ix)
            r = vmin(r, v) if is_min else vmax(r, v)
        return lift(r)
    # general: fresh value with bound + attainment facts
    nonempty = a.size > 0 if mfn is None else None
    if mfn is None:
        if nonempty is False:
            raise ValueError("zero-size array to reduction operation %s which has no identity" % name)
        if nonempty is not True:
            c.oblige("%s.nonempty[%s]" % (name, c.fresh_name("ne")), nonempty, kind="domain")
    else:
        S.prove("%s.nonempty[%s]" % (name, c.fresh_name("ne")), S.Exists(dims, lambda *i: mfn(*i)), kind="domain")
    m = c.fresh("min" if is_min else "max", "real" if a.kind == "f" else "int")

    def sel(*i):
        g = True if mfn is None else mfn(*i)
        if nanfn is not None and skipnan:
            g = and_(g, not_(nanfn(*i)))
        return g

    if nanfn is not None and not skipnan:
        # a NaN anywhere makes the result NaN: outside the modelled (NaN-free result) domain
        S.prove("%s.no_nan[%s]" % (name, c.fresh_name("nn")), S.Forall(dims, lambda *i: not_(nanfn(*i))), kind="domain")
    if is_min:
        S.assume(S.Forall(dims, lambda *i: implies(sel(*i), m <= snap(*i)), name=name + ".lower_bound"))
    else:
        S.assume(S.Forall(dims, lambda *i: implies(sel(*i), m >= snap(*i)), name=name + ".upper_bound"))
    S.assume(S.Exists(dims, lambda *i: and_(sel(*i), m == snap(*i))))
    return m


def _minmax_axis(name, a, is_min, axis):
    from .sums import array_minmax_axis

    return array_minmax_axis(a, axis, is_min)


def _quantified_bool(name, a, want_any):
    """np.any / np.all over a boolean array."""
    _use(name)
    if not _is_arr(a):
        if isinstance(a, (list, tuple)):
            vals = [_as_scalar(v) for v in a]
            vals = [v if kind_of(v) == "bool" else _numeric(v) != 0 for v in vals]
            return or_(*vals) if want_any else and_(*vals)
        v = _as_scalar(a)
        return v if kind_of(v) == "bool" else _numeric(v) != 0
    c = ctx()
    snap0 = a.snapshot()
    if a.kind != "b":
        snap = lambda *i: _numeric(snap0(*i)) != 0
    else:
        snap = snap0
    dims = a.shape
    sizes = [concrete_value(n) for n in dims]
    if all(s is not None for s in sizes) and _prod([int(s) for s in sizes]) <= (4096 if c.crossexec else 8):
        import itertools

        vals = [snap(*ix) for ix in itertools.product(*[range(int(s)) for s in sizes])]
        if not vals:
            return not want_any
        r = or_(*vals) if want_any else and_(*vals)
        return lift_bool(r)
    r = c.fresh("any" if want_any else "all", "bool")
    if want_any:
        S.assume(S.Exists(dims, lambda *i: snap(*i)), guard=r)
        S.assume(S.Forall(dims, lambda *i: not_(snap(*i)), name="any.false"), guard=not_(r))
    else:
        S.assume(S.Forall(dims, lambda *i: snap(*i), name="all.true"), guard=r)
        S.assume(S.Exists(dims, lambda *i: not_(snap(*i))), guard=not_(r))
    return r


def lift_bool(b):
    v = concrete_value(b)
    return b if v is None else bool(v)


class _Random:
    """numpy.random.RandomState: a deterministic function of (seed, call number, index)."""

    def __init__(self, seed):
        self.seed = seed
        self.calls = 0

    def uniform(self, low=0.0, high=1.0, size=None):
        ctx().used_prelude.add("numpy.random.RandomState.uniform")
        call = self.calls
        self.calls += 1
        U = z3.Function("rand_uniform", z3.RealSort(), z3.IntSort(), z3.IntSort(), z3.RealSort())
        seed = to_z3(self.seed, "real")
        c = ctx()

        def elem(i):
            u = SymNum(U(seed, z3.IntVal(call), to_z3(i)), "real")
            c.assume(and_(u >= 0, u < 1))
            return low + (high - low) * u

        if size is None:
            return elem(0)
        if isinstance(size, tuple):
            if len(size) != 1:
                raise Unsupported("uniform with multi-dimensional size")
            size = size[0]
        if not is_sym(size) and size < 0:
            raise ValueError("negative dimensions are not allowed")
        if is_sym(size):
            c.oblige("uniform.size_nonneg[%s]" % c.fresh_name("u"), size >= 0, kind="domain")
        return new_array((size,), lambda idx: elem(idx[0]), "f")

    def shuffle(self, x):
        """In-place shuffle of a 1-D array of CONCRETE length: x becomes x o sigma for an unspecified permutation sigma
        (a function of the seed and the call number only)."""
        c = ctx()
        x = as_array(x)
        n = concrete_value(x.shape[0]) if x.ndim == 1 else None
        if n is None:
            raise Unsupported("RandomState.shuffle of an array of symbolic length")
        n = int(n)
        call = self.calls
        self.calls += 1
        c.used_prelude.add("RandomState.shuffle: in-place permutation determined by (seed, call number, length)")
        PERM = z3.Function("rand_perm_%d" % n, z3.RealSort(), z3.IntSort(), z3.IntSort(), z3.IntSort())
        seed = to_z3(self.seed, "real")
        sig = [SymNum(PERM(seed, z3.IntVal(call), z3.IntVal(t)), "int") for t in range(n)]
        c.assume(and_(*[and_(s_ >= 0, s_ < n) for s_ in sig]))
        c.assume(and_(*[sig[i] != sig[j] for i in range(n) for j in range(i + 1, n)]) if n > 1 else True)
        old = [x.at(t) for t in range(n)]

        def pick(s_):
            r = old[-1]
            for j in range(n - 2, -1, -1):
                r = ite(s_ == j, old[j], r)
            return r

        new = [pick(s_) for s_ in sig]
        for t in range(n):
            x[t] = new[t]
        c.ghost.setdefault("shuffle", []).append((x, sig))
        return None

    def permutation(self, x):
        """permutation(n): arange(n) shuffled; permutation(array): a shuffled COPY (the argument is left as it was)."""
        if _arrish(x):
            out = as_array(x).copy()
        else:
            n = concrete_value(x)
            if n is None or isinstance(n, bool) or kind_of(n) != "int":
                raise Unsupported("RandomState.permutation of a symbolic count")
            out = from_list([int(t) for t in range(int(n))], "i")
        self.shuffle(out)
        return out


def check_random_state(seed):
    ctx().used_prelude.add("sklearn.utils.check_random_state")
    if isinstance(seed, _Random):
        return seed
    if seed is None:
        return _Random(ctx().fresh("entropy", "int"))
    return _Random(seed)


class _Broadcast:
    def __init__(self, *arrs):
        shapes = [as_array(a).shape if not isinstance(a, SymNum) else () for a in arrs]
        self.shape = broadcast_shapes(shapes, "np.broadcast")
        self.size = _prod(self.shape)
        self.nd = len(self.shape)
        self.ndim = self.nd


class SmallUnique(Proxy):
    """np.unique of a short array of symbolic values: only its SIZE (the number of distinct values) is modelled."""

    def __init__(self, vals):
        self.vals = vals
        tot = 0
        for t, v in enumerate(vals):
            first = and_(*[vals[s_] != v for s_ in range(t)]) if t else True
            tot = tot + ite(first, 1, 0)
        self.size = lift(tot)
        self.shape = (self.size,)
        self.ndim = 1

    def __len__(self):
        raise Unsupported("len() of np.unique of symbolic values")


def _as_int_dim(n, what):
    """A repeat / tile count used as a dimension: an integer (numpy refuses floats and negative counts)."""
    if isinstance(n, bool) or kind_of(n) != "int":
        raise TypeError("%s count must be an integer" % what)
    if is_sym(n):
        c = ctx()
        c.oblige("%s.count_nonneg[%s]" % (what, c.fresh_name("rp")), n >= 0, kind="domain")
    elif n < 0:
        raise ValueError("negative dimensions are not allowed")
    return n


class _NP:
    pi = math.pi
    inf = math.inf
    nan = float("nan")
    newaxis = None
    float64 = float
    int64 = int
    bool_ = bool
    ndarray = SymArr

    def __getattr__(self, name):
        raise Unsupported("numpy.%s has no assumed contract in the prelude" % name)

    @property
    def ma(self):
        from .prelude_io import MA

        return MA

    def loadtxt(self, fobj, dtype=None, **kw):
        from .prelude_io import sym_loadtxt

        return sym_loadtxt(fobj, dtype, **kw)

    # ---- constructors
    def array(self, x, dtype=None, copy=True):
        _use("array")
        from .prelude_index import GenericElem, SymIndexSet, np_array_of_indices

        if isinstance(x, (SymIndexSet, GenericElem)):
            return np_array_of_indices(x)
        k = parse_dtype(dtype).kind if dtype is not None else None
        if _is_arr(x):
            r = x.copy()
            return r.astype(k) if k and k != r.kind else r
        if isinstance(x, (list, tuple)):
            if k == "O":
                raise Unsupported("object array from list")
            r = from_list(list(x))
            return r.astype(k) if k and k != r.kind else r
        r = as_array(x)
        return r.astype(k) if k and k != r.kind else r

    def asarray(self, x, dtype=None):
        _use("asarray")
        if _is_arr(x) and (dtype is None or parse_dtype(dtype).kind == x.kind):
            return x
        return self.array(x, dtype=dtype)

    def asanyarray(self, x, dtype=None):
        return self.asarray(x, dtype)

    def atleast_1d(self, x):
        _use("atleast_1d")
        a = as_array(x)
        if a.ndim == 0:
            return a.reshape((1,))
        return a

    def atleast_2d(self, x):
        _use("atleast_2d")
        a = as_array(x)
        if a.ndim == 0:
            return a.reshape((1, 1))
        if a.ndim == 1:
            return a[None, :]
        return a

    def empty(self, shape, dtype=None):
        _use("empty")
        if not isinstance(shape, (tuple, list)):
            shape = (shape,)
        k = parse_dtype(dtype).kind
        c = ctx()
        for n in shape:
            if is_sym(n):
                c.oblige("empty.nonneg[%s]" % c.fresh_name("e"), n >= 0, kind="domain")
        if k == "O":
            return new_array(shape, lambda idx: None, "O")
        if c.crossexec:
            z = {"f": 0.0, "i": 0, "b": False}[k]
            return new_array(shape, lambda idx: z, k)
        junk = havoc_array("uninit", shape, k)
        junk.storage.owner = "fresh"
        return junk

    def empty_like(self, a, dtype=None):
        _use("empty_like")
        a = as_array(a)
        return self.empty(a.shape, dtype if dtype is not None else a.dtype)

    def zeros(self, shape, dtype=None):
        _use("zeros")
        if not isinstance(shape, (tuple, list)):
            shape = (shape,)
        k = parse_dtype(dtype).kind
        z = {"f": 0.0, "i": 0, "b": False}[k]
        return new_array(shape, lambda idx: z, k)

    def ones(self, shape, dtype=None):
        _use("ones")
        if not isinstance(shape, (tuple, list)):
            shape = (shape,)
        k = parse_dtype(dtype).kind
        o = {"f": 1.0, "i": 1, "b": True}[k]
        return new_array(shape, lambda idx: o, k)

    def zeros_like(self, a, dtype=None):
        a = as_array(a)
        return self.zeros(a.shape, dtype if dtype is not None else a.dtype)

    def ones_like(self, a, dtype=None):
        _use("ones_like")
        a = as_array(a)
        return self.ones(a.shape, dtype if dtype is not None else a.dtype)

    def full(self, shape, value, dtype=None):
        if not isinstance(shape, (tuple, list)):
            shape = (shape,)
        k = parse_dtype(dtype).kind if dtype is not None else {"real": "f", "int": "i", "bool": "b"}[kind_of(value)]
        return new_array(shape, lambda idx: value, k)

    def arange(self, start, stop=None, step=1, dtype=None):
        _use("arange")
        if stop is None:
            start, stop = 0, start
        if is_sym(step) or step != 1:
            raise Unsupported("arange with step")
        n = stop - start
        n = lift(ite(n < 0, 0, n)) if is_sym(n) else max(n, 0)
        k = "i" if kind_of(start) == "int" and kind_of(stop) == "int" else "f"
        return new_array((n,), lambda idx: lift(start + idx[0]), k)

    def cumsum(self, a, axis=None, dtype=None):
        """Running sums of a 1-D array of CONCRETE length (partial sums written out)."""
        _use("cumsum")
        a = as_array(a)
        if a.ndim != 1 or axis not in (None, 0, -1):
            raise Unsupported("cumsum of a rank-%d array" % a.ndim)
        n = concrete_value(a.shape[0])
        if n is None:
            raise Unsupported("cumsum of an array of symbolic length")
        out, tot = [], 0
        for i in range(int(n)):
            tot = tot + _numeric(a.at(i))
            out.append(tot)
        return from_list(out, a.kind if a.kind != "b" else "i")

    def searchsorted(self, a, v, side="left", sorter=None):
        """Insertion index in a sorted 1-D array of CONCRETE length: the number of entries < v (left) / <= v (right)."""
        _use("searchsorted")
        if sorter is not None:
            raise Unsupported("searchsorted(sorter=)")
        a = as_array(a)
        m = concrete_value(a.shape[0]) if a.ndim == 1 else None
        if m is None:
            raise Unsupported("searchsorted in an array of symbolic length")
        vals = [_numeric(a.at(i)) for i in range(int(m))]
        c = ctx()
        if not c.in_spec and len(vals) > 1:
            c.oblige("searchsorted.sorted[%s]" % c.fresh_name("ss"), and_(*[x <= y for x, y in zip(vals, vals[1:])]), kind="domain")

        def one(x):
            x = _numeric(x)
            tot = 0
            for t in vals:
                tot = tot + ite((t < x) if side == "left" else (t <= x), 1, 0)
            return lift(tot)

        if _arrish(v):
            v = as_array(v)
            k = concrete_value(v.shape[0]) if v.ndim == 1 else None
            if k is None:
                raise Unsupported("searchsorted of a symbolic number of values")
            return from_list([one(v.at(i)) for i in range(int(k))], "i")
        return one(v)

    def argsort(self, a, axis=-1, kind=None, order=None):
        """Indices that sort a 1-D array: a permutation of 0..n-1 along which the values are non-decreasing
        (the order among equal values is left unspecified, as for numpy's default unstable sort)."""
        _use("argsort")
        a = as_array(a)
        if a.ndim != 1 or order is not None:
            raise Unsupported("argsort of a rank-%d array" % a.ndim)
        n = a.shape[0]
        idx = havoc_array("argsort", (n,), "i")
        ia, av = idx.snapshot(), a.snapshot()
        S.assume(S.Forall((n,), lambda i: and_(ia(i) >= 0, ia(i) < n), name="argsort.index_in_range"))
        S.assume(S.Forall((n, n), lambda i, j: implies(i != j, ia(i) != ia(j)), name="argsort.permutation"))
        S.assume(S.Forall((n,), lambda i: implies(i >= 1, _numeric(av(ia(i - 1))) <= _numeric(av(ia(i)))), name="argsort.sorted"))
        return idx

    def linspace(self, start, stop, num=50, endpoint=True, retstep=False, dtype=None, axis=0):
        """linspace over the reals: node i = start + i*(stop-start)/(num-1); num==1 -> [start]."""
        _use("linspace")
        if not endpoint or retstep or axis != 0:
            raise Unsupported("linspace(endpoint=False / retstep / axis)")
        if dtype is not None and str(dtype) not in ("float64", "float", "<class 'float'>", "d"):
            raise Unsupported("linspace(dtype=%s): precision of the nodes is not modelled" % (dtype,))
        c = ctx()
        start, stop = _as_scalar(start), _as_scalar(stop)
        if kind_of(num) != "int":
            raise TypeError("'%s' object cannot be interpreted as an integer" % type(num).__name__)
        if not is_sym(num):
            if num < 0:
                raise ValueError("Number of samples, %s, must be non-negative." % num)
            if num == 1:
                return new_array((1,), lambda idx: cast_value(start, "f"), "f")
            if num == 0:
                return new_array((0,), lambda idx: 0.0, "f")
            step = div(stop - start, num - 1)
            return new_array((num,), lambda idx: cast_value(start + idx[0] * step, "f"), "f")
        c.oblige("linspace.num_nonneg[%s]" % c.fresh_name("ls"), num >= 0, kind="domain")
        step = c.fresh("lstep", "real")
        c.assume(implies(num > 1, step * (num - 1) == stop - start))

        def fn(idx):
            return cast_value(ite(num == 1, start, start + idx[0] * step), "f")

        return new_array((num,), fn, "f")

    def meshgrid(self, *xi, indexing="xy"):
        _use("meshgrid")
        if len(xi) != 2 or indexing not in ("xy", "ij"):
            raise Unsupported("meshgrid other than 2-D 'xy' / 'ij'")
        if indexing == "ij":
            # meshgrid(a, b, indexing="ij") = (A, B) with A[i, j] = a[i], B[i, j] = b[j]: the 'xy' grids of (b, a), swapped
            B_, A_ = self.meshgrid(xi[1], xi[0], indexing="xy")
            return (A_, B_)
        x, y = as_array(xi[0]), as_array(xi[1])
        if x.ndim != 1:
            x = x.ravel()
        if y.ndim != 1:
            y = y.ravel()
        xs, ys = x.snapshot(), y.snapshot()
        shape = (y.shape[0], x.shape[0])
        X = new_array(shape, lambda idx: xs(idx[1]), x.kind)
        Y = new_array(shape, lambda idx: ys(idx[0]), y.kind)
        return (X, Y)

    def broadcast(self, *arrs):
        _use("broadcast")
        return _Broadcast(*arrs)

    # ---- shape manipulation
    def ravel(self, a, order="C"):
        _use("ravel")
        from .prelude_pd import SymSeries

        if isinstance(a, SymSeries):
            return a.values_view()
        return as_array(a).ravel(order)

    def reshape(self, a, shape=None, newshape=None):
        _use("reshape")
        return as_array(a).reshape(shape if shape is not None else newshape)

    def transpose(self, a, axes=None):
        _use("transpose")
        if isinstance(a, (tuple, list)):
            a = self.array(list(a))
        return as_array(a).transpose()

    def squeeze(self, a):
        return as_array(a).squeeze()

    def ndim(self, a):
        _use("ndim")
        if isinstance(a, (int, float, SymNum, SymBool)):
            return 0
        return as_array(a).ndim

    def shape(self, a):
        return as_array(a).shape

    def size(self, a):
        return as_array(a).size

    def result_type(self, *args):
        _use("result_type")
        from .arr import _join_kinds

        ks = []
        for a in args:
            if isinstance(a, SymArr):
                ks.append(a.kind)
            elif isinstance(a, (SymNum, int, float, bool)):
                ks.append({"real": "f", "int": "i", "bool": "b"}[kind_of(a)])
            else:
                ks.append(parse_dtype(a).kind)
        k = _join_kinds(ks)
        return DType("i" if k == "b" else k)

    def isscalar(self, x):
        _use("isscalar")
        import numpy as _np

        return isinstance(x, (int, float, SymNum, SymBool, complex, str, bytes, _np.generic))

    def copy(self, a):
        return as_array(a).copy()

    def concatenate(self, arrs, axis=0):
        _use("concatenate")
        arrs = [as_array(a) for a in arrs]
        if all(a.ndim == 2 for a in arrs) and axis in (0, 1, -1):
            return self._concatenate2d(arrs, 1 if axis in (1, -1) else 0)
        if axis != 0 or any(a.ndim != 1 for a in arrs):
            raise Unsupported("concatenate other than 1-D along axis 0")
        snaps = [a.snapshot() for a in arrs]
        sizes = [a.shape[0] for a in arrs]
        offs = [0]
        for n in sizes:
            offs.append(lift(offs[-1] + n))
        kinds = [a.kind for a in arrs]
        from .arr import _join_kinds

        k = _join_kinds(kinds)

        def fn(idx):
            i = idx[0]
            r = cast_value(snaps[-1](lift(i - offs[-2])), k)
            for j in range(len(arrs) - 2, -1, -1):
                r = ite(i < offs[j + 1], cast_value(snaps[j](lift(i - offs[j])), k), r)
            return r

        return new_array((offs[-1],), fn, k)

    def _concatenate2d(self, arrs, axis):
        """Rank-2 arrays joined along `axis`; the other dimension must agree (numpy raises ValueError otherwise)."""
        from .arr import _join_kinds

        c = ctx()
        other = 1 - axis
        for a in arrs[1:]:
            same = a.shape[other] == arrs[0].shape[other]
            if same is False:
                raise ValueError("all the input array dimensions except for the concatenation axis must match exactly")
            if same is not True and bool(not_(same)):
                raise ValueError("all the input array dimensions except for the concatenation axis must match exactly")
        snaps = [a.snapshot() for a in arrs]
        offs = [0]
        for a in arrs:
            offs.append(lift(offs[-1] + a.shape[axis]))
        k = _join_kinds([a.kind for a in arrs])

        def fn(idx):
            i = idx[axis]

            def pick(j):
                sub = list(idx)
                sub[axis] = lift(i - offs[j])
                return cast_value(snaps[j](*sub), k)

            r = pick(len(arrs) - 1)
            for j in range(len(arrs) - 2, -1, -1):
                r = ite(i < offs[j + 1], pick(j), r)
            return r

        shape = [arrs[0].shape[0], arrs[0].shape[1]]
        shape[axis] = offs[-1]
        return new_array(tuple(shape), fn, k)

    def column_stack(self, arrs):
        _use("column_stack")
        arrs = [as_array(a) for a in arrs]
        if any(a.ndim != 1 for a in arrs):
            raise Unsupported("column_stack of non 1-D")
        shp = broadcast_shapes([a.shape for a in arrs], "column_stack")
        snaps = [a.snapshot() for a in arrs]
        from .arr import _join_kinds

        k = _join_kinds([a.kind for a in arrs])
        n = len(arrs)

        def fn(idx):
            j = idx[1]
            if not is_sym(j):
                return snaps[j](idx[0])
            r = snaps[-1](idx[0])
            for t in range(n - 2, -1, -1):
                r = ite(j == t, snaps[t](idx[0]), r)
            return r

        return new_array((shp[0], n), fn, k)

    # ---- ufuncs
    def abs(self, x):
        return _ew1("abs", lambda v: abs(_numeric(v)), x, None if _arrish(x) else "f")

    absolute = abs

    def sqrt(self, x):
        _domain("sqrt.domain", x, lambda v: _numeric(v) >= 0)
        return _ew1("sqrt", spec_sqrt, x)

    def log(self, x):
        _domain("log.domain", x, lambda v: _numeric(v) > 0)
        return _ew1("log", spec_log, x)

    def sin(self, x):
        return _ew1("sin", lambda v: spec_trig("sin", v), x)

    def cos(self, x):
        return _ew1("cos", lambda v: spec_trig("cos", v), x)

    def hypot(self, x, y):
        return _ew2("hypot", spec_hypot, x, y, "f")

    def arctan2(self, y, x):
        return _ew2("arctan2", spec_arctan2, y, x, "f")

    def add(self, x, y, out=None):
        return _ew2("add", lambda a, b: _numeric(a) + _numeric(b), x, y, None, out)

    def subtract(self, x, y, out=None):
        return _ew2("subtract", lambda a, b: _numeric(a) - _numeric(b), x, y, None, out)

    def multiply(self, x, y, out=None):
        return _ew2("multiply", lambda a, b: _numeric(a) * _numeric(b), x, y, None, out)

    def greater_equal(self, x, y, out=None):
        return _ew2("greater_equal", lambda a, b: _numeric(a) >= _numeric(b), x, y, "b", out)

    def less_equal(self, x, y, out=None):
        return _ew2("less_equal", lambda a, b: _numeric(a) <= _numeric(b), x, y, "b", out)

    def greater(self, x, y, out=None):
        return _ew2("greater", lambda a, b: _numeric(a) > _numeric(b), x, y, "b", out)

    def less(self, x, y, out=None):
        return _ew2("less", lambda a, b: _numeric(a) < _numeric(b), x, y, "b", out)

    def logical_and(self, x, y, out=None):
        return _ew2("logical_and", lambda a, b: and_(_tobool(a), _tobool(b)), x, y, "b", out)

    def logical_or(self, x, y, out=None):
        return _ew2("logical_or", lambda a, b: or_(_tobool(a), _tobool(b)), x, y, "b", out)

    def logical_not(self, x, out=None):
        r = _ew1("logical_not", lambda a: not_(_tobool(a)), x, "b")
        if out is not None:
            _write_out(out, r, "logical_not")
            return out
        return r

    def minimum(self, x, y):
        return _ew2("minimum", vmin, x, y)

    def maximum(self, x, y):
        return _ew2("maximum", vmax, x, y)

    def isnan(self, x):
        _use("isnan")
        a = as_array(x)
        if a.storage.nan is None:
            return new_array(a.shape, lambda idx: False, "b")
        nfn, fwd = a.storage.nan, a.fwd
        return new_array(a.shape, lambda idx: nfn(fwd(idx)), "b")

    def nan_to_num(self, x, copy=True, nan=0.0, **kw):
        """NaN -> `nan` (0 by default); writes through to its argument when copy=False."""
        _use("nan_to_num")
        if kw:
            raise Unsupported("nan_to_num(posinf/neginf)")
        if not _arrish(x):
            return _as_scalar(x)
        a = as_array(x)
        snap = a.snapshot()
        if a.storage.nan is None:
            isn = lambda idx: False
        else:
            nfn, fwd = a.storage.nan, a.fwd
            isn = lambda idx: nfn(fwd(idx))
        fill = lambda idx: ite(isn(idx), nan, snap(*idx))
        if copy:
            return new_array(a.shape, fill, a.kind)
        a._log_write("nan_to_num")
        vals = new_array(a.shape, fill, a.kind)
        a._assign(lambda vidx: True, lambda vidx: vals.at(*vidx))
        if a.storage.nan is not None:
            old_nan, inv = a.storage.nan, a.inv
            a.storage.nan = lambda sidx: and_(old_nan(sidx), not_(inv(sidx)[0]))
        return a

    def isin(self, element, test_elements, assume_unique=False, invert=False):
        if assume_unique:
            # numpy: "If True, the input arrays are BOTH assumed to be unique" - with repeated values the sort-based path
            # returns wrong answers. The assumption is an obligation on the caller.
            c0 = ctx()
            if not c0.in_spec:
                for nm, arr in (("element", element), ("test_elements", test_elements)):
                    if _arrish(arr):
                        a1 = as_array(arr).ravel()
                        s1 = a1.snapshot()
                        S.prove("isin.assume_unique.%s_has_no_repeated_values[%s]" % (nm, c0.fresh_name("iu")), S.Forall((a1.shape[0], a1.shape[0]), lambda i, j: implies(i != j, _numeric(s1(i)) != _numeric(s1(j)))), kind="domain")
        """Element-wise membership. test_elements: a scalar, or a 1-D array whose length is concrete or bounded by the
        configuration's structural bound (then written out as a finite disjunction)."""
        _use("isin")
        if invert:
            raise Unsupported("isin(invert=True)")
        el = as_array(element)
        es = el.snapshot()
        if not _arrish(test_elements):
            v = _as_scalar(test_elements)
            out = new_array(el.shape, lambda idx: _numeric(es(*idx)) == _numeric(v), "b")
            if el.ndim == 1 and el.kind == "i":
                out._count_of = (el, v)  # .sum() of this mask is the number of entries equal to v
            return out
        te = as_array(test_elements)
        if te.ndim != 1:
            raise Unsupported("isin with rank-%d test elements" % te.ndim)
        ts = te.snapshot()
        m = concrete_value(te.shape[0])
        c = ctx()
        if m is None:
            bound = c.ghost.get("group_count_hint")
            if bound is None:
                raise Unsupported("isin with a symbolic number of test elements")
            if not c.in_spec:
                c.oblige("isin.test_elements_within_the_structural_bound[%s]" % c.fresh_name("isin"), te.shape[0] <= int(bound), kind="domain")
            mm = te.shape[0]
            out = new_array(el.shape, lambda idx: or_(*[and_(t < mm, _numeric(es(*idx)) == _numeric(ts(t))) for t in range(int(bound))]), "b")
            out._isin_of = (el, lambda v: or_(*[and_(t < mm, _numeric(v) == _numeric(ts(t))) for t in range(int(bound))]))
            return out
        out = new_array(el.shape, lambda idx: or_(*[_numeric(es(*idx)) == _numeric(ts(t)) for t in range(int(m))]) if int(m) else False, "b")
        out._isin_of = (el, lambda v: or_(*[_numeric(v) == _numeric(ts(t)) for t in range(int(m))]) if int(m) else False)
        return out

    def argmin(self, a, axis=None):
        """Index of the FIRST minimum of a 1-D sequence of concrete length."""
        _use("argmin")
        a = as_array(a)
        m = concrete_value(a.shape[0]) if a.ndim == 1 else None
        if m is None or axis not in (None, 0):
            raise Unsupported("argmin of an array of symbolic length")
        vals = [_numeric(a.at(i)) for i in range(int(m))]
        best = int(m) - 1
        r = lift(best)
        for i in range(int(m) - 2, -1, -1):
            # i wins over every later index if it is <= all later values (first minimum)
            r = ite(and_(*[vals[i] <= vals[j] for j in range(i + 1, int(m))]), i, r)
        return lift(r)

    def nonzero(self, a):
        return self.where(a)

    def flatnonzero(self, a):
        a = as_array(a)
        return self.where(a if a.ndim == 1 else a.ravel())[0]  # (a 1-D mask keeps its label-membership tag)

    def split(self, ary, indices_or_sections, axis=0):
        """np.split of a 1-D array at a 1-D array (or list) of split points of concrete length: consecutive slices."""
        _use("split")
        a = as_array(ary)
        if a.ndim != 1 or axis != 0:
            raise Unsupported("split of a rank-%d array" % a.ndim)
        if not _arrish(indices_or_sections) and not isinstance(indices_or_sections, (list, tuple)):
            raise Unsupported("split into equal sections")
        pts = as_array(indices_or_sections)
        k = concrete_value(pts.shape[0]) if pts.ndim == 1 else None
        if k is None:
            raise Unsupported("split at a symbolic number of points")
        cuts = [pts.at(t) for t in range(int(k))]
        out, lo = [], 0
        for hi in cuts:
            out.append(a[lo:hi])
            lo = hi
        out.append(a[lo:])
        return out

    def where(self, cond, x=None, y=None):
        _use("where")
        if x is None and y is None:
            from .prelude_index import SymIndexArr, SymIndexSet

            cond = as_array(cond)
            if cond.ndim != 1:
                raise Unsupported("np.where(cond) index form of a rank-%d array" % cond.ndim)
            cs = cond.snapshot()
            mem = (lambda p: cs(p)) if cond.kind == "b" else (lambda p: _numeric(cs(p)) != 0)
            iset = SymIndexSet(cond.shape[0], mem, "where")
            iset.isin_of = getattr(cond, "_isin_of", None)  # (label array, value -> V bool): for the cardinality
            res = SymIndexArr(iset)
            ctx().ghost.setdefault("where_index_results", []).append(res)
            return (res,)
        cond = as_array(cond)
        shape = broadcast_shapes([cond.shape] + [as_array(v).shape for v in (x, y) if _arrish(v)], "where")
        cg = broadcast_getter(cond, shape)
        xg = broadcast_getter(x, shape)
        yg = broadcast_getter(y, shape)
        kx = as_array(x).kind if _arrish(x) else {"real": "f", "int": "i", "bool": "b"}[kind_of(x)]
        ky = as_array(y).kind if _arrish(y) else {"real": "f", "int": "i", "bool": "b"}[kind_of(y)]
        from .arr import _join_kinds

        return new_array(shape, lambda idx: ite(cg(idx), xg(idx), yg(idx)), _join_kinds([kx, ky]))

    # ---- reductions
    def min(self, a, axis=None):
        from .prelude_groupby import GroupSeries

        if isinstance(a, GroupSeries):
            return a._agg("min")
        return _minmax("min", a, True, axis)

    def max(self, a, axis=None):
        from .prelude_groupby import GroupSeries

        if isinstance(a, GroupSeries):
            return a._agg("max")
        return _minmax("max", a, False, axis)

    amin = min
    amax = max

    def nanmin(self, a, axis=None):
        return _minmax("nanmin", a, True, axis, skipnan=True)

    def nanmax(self, a, axis=None):
        return _minmax("nanmax", a, False, axis, skipnan=True)

    def any(self, a, axis=None):
        if axis is not None:
            raise Unsupported("any(axis)")
        return _quantified_bool("any", a, True)

    def all(self, a, axis=None):
        if axis is not None:
            raise Unsupported("all(axis)")
        return _quantified_bool("all", a, False)

    def allclose(self, a, b, rtol=1e-05, atol=1e-08):
        """numpy.allclose over the reals: all(|a-b| <= atol + rtol*|b|)."""
        _use("allclose")

        def cl(x, y):
            x, y = _numeric(x), _numeric(y)
            return abs(x - y) <= atol + rtol * abs(y)

        if _arrish(a) or _arrish(b):
            e = elementwise(cl, (as_array(a) if _arrish(a) else a, as_array(b) if _arrish(b) else b), "b")
            return _quantified_bool("all", e, False)
        return cl(_as_scalar(a), _as_scalar(b))

    def sum(self, a, axis=None):
        from .sums import array_sum
        from .prelude_groupby import GroupSeries

        if isinstance(a, GroupSeries):
            return a._agg("sum")

        _use("sum")
        return array_sum(as_array(a), axis)

    def mean(self, a, axis=None):
        from .sums import array_mean
        from .prelude_groupby import GroupSeries, group_reduce

        if isinstance(a, GroupSeries):
            return group_reduce("mean", a)
        _use("mean")
        if isinstance(a, (list, tuple)) and all(not _arrish(v) for v in a):
            vals = [_as_scalar(v) for v in a]
            tot = 0
            for v in vals:
                tot = tot + _numeric(v)
            return div(tot, len(vals))
        return array_mean(as_array(a), axis)

    def unique(self, a, **kw):
        from .prelude_groupby import np_unique

        counts = kw.pop("return_counts", False)
        if kw:
            raise Unsupported("np.unique with options")
        a = as_array(a)
        if counts:
            from .sums import count_equal

            keys = np_unique(a)
            G = concrete_value(keys.shape[0])
            if G is None:
                raise Unsupported("np.unique(return_counts=True) with a symbolic number of distinct values")
            return keys, from_list([count_equal(a, keys.at(g)) for g in range(int(G))], "i")
        n = concrete_value(a.shape[0]) if a.ndim == 1 else None
        if n is not None and 0 < int(n) <= 6:
            return SmallUnique([_numeric(a.at(i)) for i in range(int(n))])
        return np_unique(a)

    def average(self, a, axis=None, weights=None):
        from .prelude_groupby import GroupSeries, group_reduce

        if isinstance(a, GroupSeries):
            return group_reduce("average", a, weights=weights)
        raise Unsupported("np.average of an array")

    def median(self, a, axis=None):
        from .sums import array_median
        from .prelude_groupby import GroupSeries

        if isinstance(a, GroupSeries):
            return a._agg("median")

        _use("median")
        return array_median(as_array(a), axis)

    def var(self, a, axis=None, ddof=0):
        from .prelude_groupby import GroupSeries

        if isinstance(a, GroupSeries):
            return a._agg("var_ddof%d" % ddof)
        raise Unsupported("np.var of an array")

    def std(self, a, axis=None, ddof=0):
        from .prelude_groupby import GroupSeries

        if isinstance(a, GroupSeries):
            return a._agg("std_ddof%d" % ddof)
        raise Unsupported("np.std of an array")

    # ---- further element-wise / reduction entries (keep refactored code inside the modelled subset)
    def ptp(self, a, axis=None):
        if axis is not None:
            raise Unsupported("ptp(axis)")
        return _minmax("max", a, False) - _minmax("min", a, True)

    def square(self, x):
        return _ew1("square", lambda v: _numeric(v) * _numeric(v), x, None if _arrish(x) else "f")

    def negative(self, x):
        return _ew1("negative", lambda v: -_numeric(v), x, None if _arrish(x) else "f")

    def sign(self, x):
        return _ew1("sign", lambda v: ite(_numeric(v) > 0, 1, ite(_numeric(v) < 0, -1, 0)), x, None)

    def power(self, x, y):
        from .core import power as _pw
        from .arr import _power_in_range

        _power_in_range(x, y)
        return _ew2("power", _pw, x, y)

    def divide(self, x, y, out=None):
        if _arrish(y):
            from .arr import _divisor_nonzero

            _divisor_nonzero(as_array(y), None)
        return _ew2("divide", div, x, y, "f", out)

    true_divide = divide

    def equal(self, x, y, out=None):
        return _ew2("equal", lambda a, b: _numeric(a) == _numeric(b), x, y, "b", out)

    def not_equal(self, x, y, out=None):
        return _ew2("not_equal", lambda a, b: _numeric(a) != _numeric(b), x, y, "b", out)

    def isclose(self, a, b, rtol=1e-05, atol=1e-08):
        return _ew2("isclose", lambda x, y: abs(_numeric(x) - _numeric(y)) <= atol + rtol * abs(_numeric(y)), a, b, "b")

    def array_equal(self, a, b):
        a, b = as_array(a), as_array(b)
        if a.ndim != b.ndim:
            return False
        e = elementwise(lambda x, y: _numeric(x) == _numeric(y), (a, b), "b")
        return _quantified_bool("all", e, False)

    def clip(self, a, lo, hi):
        return _ew1("clip", lambda v: vmin(vmax(_numeric(v), lo), hi), a, None if _arrish(a) else "f")

    def floor(self, x):
        from .core import floor_int

        return _ew1("floor", lambda v: floor_int(v), x, "f")

    def full_like(self, a, value, dtype=None):
        a = as_array(a)
        return self.full(a.shape, value, dtype if dtype is not None else a.dtype)

    def stack(self, arrs, axis=0):
        arrs = [as_array(x) for x in arrs]
        if axis in (-1, 1) and all(a.ndim == 1 for a in arrs):
            return self.column_stack(arrs)  # 1-D arrays stacked along a new last axis are the columns of an (n, k) matrix
        if axis == 0:
            return from_list(arrs)
        # arrays of one common shape joined along a NEW axis at position `axis`
        _use("stack along a new inner axis")
        rank = arrs[0].ndim
        if any(a.ndim != rank for a in arrs):
            raise ValueError("all input arrays must have the same shape")
        ax = axis + rank + 1 if axis < 0 else axis
        if not 0 <= ax <= rank:
            raise ValueError("axis %r is out of bounds" % (axis,))
        c = ctx()
        for a in arrs[1:]:
            for x, y in zip(arrs[0].shape, a.shape):
                if not _same_dim(x, y):
                    ok = dims_equal(x, y)
                    if ok is False:
                        raise ValueError("all input arrays must have the same shape")
                    c.oblige("stack.shapes[%s]" % c.fresh_name("st"), ok, kind="domain")
        from .arr import _join_kinds

        snaps = [a.snapshot() for a in arrs]
        n = len(arrs)
        inner = tuple(arrs[0].shape)

        def fn(idx):
            j = idx[ax]
            rest = tuple(idx[:ax]) + tuple(idx[ax + 1 :])
            if not is_sym(j):
                return snaps[j](*rest)
            r = snaps[-1](*rest)
            for t in range(n - 2, -1, -1):
                r = ite(j == t, snaps[t](*rest), r)
            return r

        return new_array(inner[:ax] + (n,) + inner[ax:], fn, _join_kinds([a.kind for a in arrs]))

    def diff(self, a, n=1, axis=-1):
        """numpy.diff of a 1-D array: differences of consecutive entries."""
        _use("diff")
        a = as_array(a)
        if n != 1 or a.ndim != 1 or axis not in (-1, 0):
            raise Unsupported("diff with n != 1 / of a non 1-D array")
        snap = a.snapshot()
        m = concrete_value(a.shape[0])
        length = max(int(m) - 1, 0) if m is not None else lift(vmax(_numeric(a.shape[0]) - 1, 0))
        if a.kind == "b":
            return new_array((length,), lambda idx: snap(idx[0] + 1) != snap(idx[0]), "b")
        return new_array((length,), lambda idx: _numeric(snap(idx[0] + 1)) - _numeric(snap(idx[0])), a.kind)

    def sort(self, a, axis=-1, kind=None):
        """numpy.sort of a short 1-D array of concrete length: a compare-exchange network over its entries."""
        _use("sort")
        a = as_array(a)
        m = concrete_value(a.shape[0]) if a.ndim == 1 else None
        if m is None or int(m) > 6 or axis not in (-1, 0) or a.kind not in "if":
            raise Unsupported("sort of an array of symbolic / large length")
        xs = [_numeric(a.at(i)) for i in range(int(m))]
        for i in range(len(xs)):
            for j in range(len(xs) - 1 - i):
                xs[j], xs[j + 1] = vmin(xs[j], xs[j + 1]), vmax(xs[j], xs[j + 1])
        return from_list([lift(x) for x in xs], a.kind)

    def repeat(self, a, repeats, axis=None):
        """numpy.repeat with one scalar count: every element of the raveled input `repeats` times, in order."""
        _use("repeat")
        if axis is not None or _arrish(repeats):
            raise Unsupported("repeat with an axis / per-element counts")
        a = as_array(a).ravel()
        n, r = a.shape[0], _as_int_dim(repeats, "repeat")
        snap = a.snapshot()
        return new_array((n * r,), lambda idx: snap(unflatten(idx[0], (n, r))[0]), a.kind)

    def tile(self, a, reps):
        """numpy.tile of a 1-D array with one scalar count: the whole array `reps` times, one copy after the other."""
        _use("tile")
        a = as_array(a)
        if a.ndim != 1 or _arrish(reps) or isinstance(reps, (tuple, list)):
            raise Unsupported("tile of a non 1-D array / with a tuple of counts")
        n, r = a.shape[0], _as_int_dim(reps, "tile")
        snap = a.snapshot()
        return new_array((r * n,), lambda idx: snap(unflatten(idx[0], (r, n))[1]), a.kind)

    def take(self, a, indices, axis=None, **kw):
        """numpy.take along the first axis (or of the raveled array): plain integer indexing."""
        _use("take")
        if kw:
            raise Unsupported("take with %s" % sorted(kw))
        a = as_array(a)
        if axis is None:
            return a.ravel()[indices]
        if axis == 0 or (axis == -1 and a.ndim == 1):
            return a[indices]
        raise Unsupported("take along an inner axis")

    def broadcast_to(self, a, shape, subok=False):
        """numpy.broadcast_to: a READ-ONLY array of the requested shape whose entries repeat those of the input."""
        _use("broadcast_to")
        a = as_array(a)
        shape = tuple(shape) if isinstance(shape, (tuple, list)) else (shape,)
        if a.ndim > len(shape):
            raise ValueError("input operand has more dimensions than allowed by the axis remapping")
        c = ctx()
        off = len(shape) - a.ndim
        for j, d in enumerate(a.shape):
            if not is_sym(d) and d == 1:
                continue
            if not _same_dim(d, shape[off + j]):
                ok = dims_equal(d, shape[off + j])
                if ok is False:
                    raise ValueError("operands could not be broadcast together with remapped shapes")
                c.oblige("broadcast_to.shapes[%s]" % c.fresh_name("bt"), ok, kind="domain")
        get = broadcast_getter(a, shape, "broadcast_to")
        out = new_array(shape, lambda idx: get(idx), a.kind)
        out.storage.readonly = True
        return out

    def broadcast_arrays(self, *arrays, subok=False):
        """numpy.broadcast_arrays: every input repeated up to the common broadcast shape (as for broadcast_to, the
        results are handed out read-only: numpy warns / refuses writes into them)."""
        _use("broadcast_arrays")
        arrs = [as_array(a) for a in arrays]
        shape = broadcast_shapes([a.shape for a in arrs], "broadcast_arrays")
        out = []
        for a in arrs:
            get = broadcast_getter(a, shape, "broadcast_arrays")
            r = new_array(shape, lambda idx, get=get: get(idx), a.kind)
            r.storage.readonly = True
            out.append(r)
        return tuple(out)

    def block(self, arrays):
        """numpy.block of a rectangular nested list of 2-D blocks: rows joined side by side, then stacked."""
        _use("block")
        if not isinstance(arrays, list) or not arrays:
            raise Unsupported("block of %r" % type(arrays))
        if all(isinstance(row, list) for row in arrays):
            rows = [[as_array(b) for b in row] for row in arrays]
            if any(b.ndim != 2 for row in rows for b in row):
                raise Unsupported("block of non 2-D blocks")
            return self.concatenate([self.concatenate(row, axis=1) if len(row) > 1 else row[0] for row in rows], axis=0) if len(rows) > 1 else self.concatenate(rows[0], axis=1)
        if any(isinstance(row, list) for row in arrays):
            raise ValueError("List depths are mismatched")
        blocks = [as_array(b) for b in arrays]
        return self.concatenate(blocks, axis=-1 if blocks[0].ndim else 0)

    def vstack(self, arrs):
        arrs = [as_array(x) for x in arrs]
        if all(a.ndim == 1 for a in arrs):
            return self.stack(arrs)
        return self.concatenate(arrs, axis=0)

    def hstack(self, arrs):
        arrs = [as_array(x) for x in arrs]
        if all(a.ndim == 1 for a in arrs):
            return self.concatenate(arrs)
        return self.concatenate(arrs, axis=1)

    def count_nonzero(self, a, axis=None):
        """Number of entries that are non-zero / True."""
        _use("count_nonzero")
        if axis is not None:
            raise Unsupported("count_nonzero along an axis")
        a = as_array(a)
        if a.kind == "b" and getattr(a, "_count_of", None) is not None:
            return self.sum(a)
        if a.kind == "b" and a.ndim == 1 and getattr(a, "_isin_of", None) is not None:
            # a label-membership mask: its number of True entries is the cardinality of the selection np.where(a) makes
            from .prelude_index import SymIndexArr, SymIndexSet

            cs = a.snapshot()
            iset = SymIndexSet(a.shape[0], lambda p: cs(p), "count_nonzero")
            iset.isin_of = a._isin_of
            return SymIndexArr(iset).size
        a = a.ravel()
        m = concrete_value(a.shape[0])
        if m is not None:
            tot = 0
            for i in range(int(m)):
                v = a.at(i)
                tot = tot + ite(v if kind_of(v) == "bool" else _numeric(v) != 0, 1, 0)
            return lift(tot)
        if a.kind == "b":
            return self.sum(a)  # the sum of a boolean array is its number of True entries (count facts in pyvc.sums)
        raise Unsupported("count_nonzero of a non-boolean array of symbolic length")

    def hypot_(self):
        raise Unsupported("internal")

    def unravel_index(self, indices, shape):
        _use("unravel_index")
        from .prelude_index import GenericElem, SymIndexArr, np_unravel

        if isinstance(indices, (SymIndexArr, GenericElem)):
            return np_unravel(indices, shape)
        ind = as_array(indices)
        snap = ind.snapshot()
        shape = tuple(shape)
        outs = []
        for ax in range(len(shape)):
            outs.append(new_array(ind.shape, lambda idx, ax=ax: unflatten(snap(*idx), shape)[ax], "i"))
        return tuple(outs)


def _tobool(v):
    return v if kind_of(v) == "bool" else _numeric(v) != 0


def spec_trig(name, v):
    c = ctx()
    v = _numeric(v)
    r = spec_fn(name, v)
    if not is_sym(r):
        return r
    if not is_sym(v):
        if v == 0:
            return 0.0 if name == "sin" else 1.0
    c.assume(and_(r >= -1, r <= 1))
    c.assume(spec_fn("sin", 0) == 0)
    c.assume(spec_fn("cos", 0) == 1)
    c.used_axioms.add("sin/cos: uninterpreted, |.|<=1, sin(0)=0, cos(0)=1")
    return r


def spec_hypot(x, y):
    c = ctx()
    x, y = _numeric(x), _numeric(y)
    r = spec_fn("hypot", x, y)
    if not is_sym(r):
        return r
    c.assume(and_(r >= 0, r * r == x * x + y * y))
    c.used_axioms.add("hypot(x,y) >= 0 and hypot(x,y)^2 = x^2 + y^2")
    return r


def spec_arctan2(y, x):
    """arctan2 as an uninterpreted angle with cos(a)*hypot(x,y) = x, sin(a)*hypot(x,y) = y."""
    c = ctx()
    y, x = _numeric(y), _numeric(x)
    a = spec_fn("arctan2", y, x)
    if not is_sym(a):
        return a
    h = spec_fn("hypot", x, y)
    c.assume(and_(h >= 0, h * h == x * x + y * y))
    c.assume(and_(spec_fn("cos", a) * h == x, spec_fn("sin", a) * h == y))
    c.assume(implies(and_(x == 0, y == 0), a == 0))
    c.assume(and_(spec_fn("sin", 0) == 0, spec_fn("cos", 0) == 1))
    c.used_axioms.add("arctan2: cos(arctan2(y,x))*hypot(x,y) = x, sin(...)*hypot = y, arctan2(0,0)=0")
    return a


NP = _NP()
