"""range() stand-in: concrete ranges run as they are; a range over a SYMBOLIC bound is executed
with the classical loop-invariant rule inside CPython's own `for`:

  first  __next__: prove Inv(0) (initiation); havoc the loop state; pick an arbitrary 0 <= j < n;
                   assume Inv(j); run the real body once with that j
  second __next__: prove Inv(j+1) (preservation); havoc; assume Inv(n); StopIteration

Invariants live in the sidecar contract (`loop_invariant`), phrased over the accumulator arrays."""
from . import spec as S
from .arr import SymArr, havoc_array
from .core import SymNum, Unsupported, and_, concrete_value, ctx, is_sym

_builtin_range = range

LOOP_SPEC = [None]  # set by the harness: object with .state(args)->list of SymArr and .invariant(j)->formula


def sym_range(*args):
    vals = [concrete_value(a) if is_sym(a) else a for a in args]
    if all(v is not None for v in vals):
        return _builtin_range(*[int(v) for v in vals])
    spec = LOOP_SPEC[0]
    if spec is None:
        raise Unsupported("loop over a symbolic range without a registered invariant")
    if len(args) != 1:
        raise Unsupported("symbolic range with start/step")
    return _InvariantLoop(args[0], spec)


class _InvariantLoop:
    def __init__(self, n, spec):
        self.n, self.spec, self.stage = n, spec, 0
        spec.loops_seen = getattr(spec, "loops_seen", 0) + 1
        if spec.loops_seen > 1:
            raise Unsupported("more than one symbolic loop in a function (one invariant supported)")

    def __iter__(self):
        return self

    def _havoc(self):
        for arr in self.spec.state():
            fresh = havoc_array("loopstate", arr.storage.shape, arr.storage.kind)
            arr.storage.fn = fresh.storage.fn

    def __next__(self):
        c = ctx()
        label = self.spec.label
        if self.stage == 0:
            self.stage = 1
            S.prove("%s:loop.invariant_initiation" % label, self.spec.invariant(0), kind="loop")
            c.oblige("%s:loop.bound_nonnegative" % label, self.n >= 0, kind="loop")
            self._havoc()
            j = c.fresh("j", "int")
            c.assume(and_(0 <= j, j < self.n))
            S.assume(self.spec.invariant(j))
            self.j = j
            return j
        if self.stage == 1:
            self.stage = 2
            S.prove("%s:loop.invariant_preservation" % label, self.spec.invariant(self.j + 1), kind="loop")
            self._havoc()
            S.assume(self.spec.invariant(self.n))
            raise StopIteration
        raise StopIteration
