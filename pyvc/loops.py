"""range() stand-in: concrete ranges run as they are; symbolic ranges use the invariant rule."""
from .core import SymNum, Unsupported, concrete_value, is_sym

_builtin_range = range

LOOP_HANDLER = [None]


def sym_range(*args):
    vals = [concrete_value(a) if is_sym(a) else a for a in args]
    if all(v is not None for v in vals):
        return _builtin_range(*[int(v) for v in vals])
    h = LOOP_HANDLER[0]
    if h is None:
        raise Unsupported("loop over a symbolic range without a registered invariant")
    return h(*args)
