"""Bounded stand-in: run-time evaluation of the same contracts on the real functions.

Labelled *bounded* everywhere; never added to obligations/discharged."""
import random

import numpy as np

from . import concrete as C


def _map_arrays(x, f, counter):
    if isinstance(x, np.ndarray):
        if x.ndim >= 2 and min(x.shape) > 1:
            counter[0] += 1
            return f(x, counter[0])
        return x
    if isinstance(x, tuple):
        return tuple(_map_arrays(v, f, counter) for v in x)
    if isinstance(x, list):
        return [_map_arrays(v, f, counter) for v in x]
    if isinstance(x, dict):
        return {k: _map_arrays(v, f, counter) for k, v in x.items()}
    try:
        import xarray as xr
    except Exception:  # pragma: no cover
        return x
    if isinstance(x, xr.DataArray):
        # same values, dims and coordinates; the data (and the non-index coordinates) in another memory layout -
        # what `.transpose(...)` of a grid stored the other way round gives
        new = x.copy(data=_map_arrays(np.asarray(x.values), f, counter))
        for cname in list(x.coords):
            if x.coords[cname].ndim >= 2:
                new = new.assign_coords({cname: (x.coords[cname].dims, _map_arrays(np.asarray(x.coords[cname].values), f, counter))})
        return new
    if isinstance(x, xr.Dataset):
        new = x.copy()
        for name in list(x.data_vars):
            new[name] = (x[name].dims, _map_arrays(np.asarray(x[name].values), f, counter), dict(x[name].attrs))
        for cname in list(x.coords):
            if x.coords[cname].ndim >= 2:
                new = new.assign_coords({cname: (x.coords[cname].dims, _map_arrays(np.asarray(x.coords[cname].values), f, counter))})
        return new
    return x


def layout_variants(args, kwargs):
    """The same VALUES in other memory layouts (Fortran order for every >= 2-D array; for every other one only):
    a contract speaks about values, so it must hold for them too (catches order='K'/'A' flattening, .flat, strides)."""
    out = []
    for mode in ("all", "mixed"):
        n = [0]
        f = (lambda x, k: np.asfortranarray(x)) if mode == "all" else (lambda x, k: np.asfortranarray(x) if k % 2 == 0 else x)
        va, vk = _map_arrays(args, f, n), _map_arrays(kwargs, f, n)
        if n[0] == 0 or (mode == "mixed" and n[0] < 2):
            continue
        out.append((va, vk))
    return out


def run_samplers(keys, tier, seed, limit=None):
    from .contract import REGISTRY

    rng = random.Random(seed)
    nrng = np.random.RandomState(seed % (2**31))
    evaluations = 0
    skipped = 0
    per = {}
    failures = []
    samples = []
    for key in keys:
        K = REGISTRY[key]
        gen = getattr(K, "samples", None)
        if gen is None:
            continue
        n = 0
        try:
            items = list(gen(rng, nrng, tier))
        except Exception as e:  # a sampler that no longer fits the (refactored) code: skip this function, say so
            per[key] = "skipped: sampler failed (%s: %s)" % (type(e).__name__, str(e)[:120])
            continue
        if getattr(K, "layout_variants", True):
            extra = []
            for item in items:
                try:
                    extra += [(va, vk) for va, vk in layout_variants(item[0], item[1])]
                except Exception:
                    pass
            items = items + extra
        for item in items:
            args, kwargs = item[0], item[1]
            try:
                res = C.check_call(K, args, kwargs, tol=getattr(K, "tol", None))
            except TypeError as e:
                if "argument" in str(e):  # the function's signature changed: its contract no longer applies
                    per[key] = "skipped: contract does not bind to the current signature (%s)" % str(e)[:120]
                    break
                raise
            if res.kind == "skipped":
                skipped += 1
                continue
            n += 1
            evaluations += 1
            if len(samples) < 6 and n <= 2:
                samples.append({"target": key, "inputs": C.describe({"args": args, "kwargs": kwargs}), "outcome": res.kind})
            for clause, detail in res.failures:
                if len(failures) < 50:
                    failures.append(
                        {
                            "target": key,
                            "clause": clause,
                            "detail": detail,
                            "inputs": C.describe({"args": args, "kwargs": kwargs}),
                            "outcome": res.kind + ((": %r" % (res.exc,)) if res.exc is not None else ""),
                        }
                    )
            if limit and n >= limit:
                break
        if not isinstance(per.get(key), str):
            per[key] = n
    return {"evaluations": evaluations, "skipped_outside_requires": skipped, "per_function": per, "failures": failures, "samples": samples}
