"""Bounded stand-in: run-time evaluation of the same contracts on the real functions.

Labelled *bounded* everywhere; never added to obligations/discharged."""
import os
import random

import numpy as np

from . import concrete as C


def _own_copy(x):
    if isinstance(x, (int, float, str, bool, type(None))):
        return x
    try:
        import copy

        return copy.deepcopy(x)
    except Exception:
        return x


def _map_arrays(x, f, counter, every=False):
    if isinstance(x, np.ndarray):
        if every or (x.ndim >= 2 and min(x.shape) > 1):
            counter[0] += 1
            return f(x, counter[0])
        return x
    if isinstance(x, tuple):
        return tuple(_map_arrays(v, f, counter, every) for v in x)
    if isinstance(x, list):
        return [_map_arrays(v, f, counter, every) for v in x]
    if isinstance(x, dict):
        return {k: _map_arrays(v, f, counter, every) for k, v in x.items()}
    if every:
        # dtype variants: plain arrays only. Everything else (estimators among the arguments ...) gets its OWN copy: the
        # variant is another input, and an object the base sample's call has already fitted is a different history
        return _own_copy(x)
    try:
        import xarray as xr
    except Exception:  # pragma: no cover
        return x
    if isinstance(x, xr.DataArray):
        # same values, dims and coordinates; the data (and the non-index coordinates) in another memory layout -
        # what `.transpose(...)` of a grid stored the other way round gives
        new = x.copy(data=_map_arrays(np.asarray(x.values), f, counter))
        for cname in list(x.coords):
            if x.coords[cname].ndim >= 2:
                new = new.assign_coords({cname: (x.coords[cname].dims, _map_arrays(np.asarray(x.coords[cname].values), f, counter))})
        return new
    if isinstance(x, xr.Dataset):
        new = x.copy()
        for name in list(x.data_vars):
            new[name] = (x[name].dims, _map_arrays(np.asarray(x[name].values), f, counter), dict(x[name].attrs))
        for cname in list(x.coords):
            if x.coords[cname].ndim >= 2:
                new = new.assign_coords({cname: (x.coords[cname].dims, _map_arrays(np.asarray(x.coords[cname].values), f, counter))})
        return new
    return _own_copy(x)  # (an estimator shared with the base sample would arrive already fitted)


def layout_variants(args, kwargs):
    """The same VALUES in other memory layouts (Fortran order for every >= 2-D array; for every other one only):
    a contract speaks about values, so it must hold for them too (catches order='K'/'A' flattening, .flat, strides)."""
    out = []
    for mode in ("all", "mixed"):
        n = [0]
        f = (lambda x, k: np.asfortranarray(x)) if mode == "all" else (lambda x, k: np.asfortranarray(x) if k % 2 == 0 else x)
        va, vk = _map_arrays(args, f, n), _map_arrays(kwargs, f, n)
        if n[0] == 0 or (mode == "mixed" and n[0] < 2):
            continue
        out.append((va, vk))
    return out


def _as_integer_dtype(x):
    """x rounded and cast to int64 when that keeps what samplers silently rely on: float64 input, all finite, at least
    two entries, no value collapses onto another one and no sign changes (a positive weight stays positive)."""
    if not isinstance(x, np.ndarray) or x.dtype != np.float64 or x.size < 2 or not np.all(np.isfinite(x)) or np.abs(x).max() > 2**40:
        return None
    r = np.round(x)
    if np.unique(r).size != np.unique(x).size or np.any(np.sign(r) != np.sign(x)):
        return None
    return r.astype("int64")


def dtype_variants(args, kwargs):
    """The sample with (some of) its float64 arrays ROUNDED to whole numbers and handed over with an integer dtype: (a)
    every eligible array, (b) every other eligible array (its neighbours keep their fractional values). These are other
    inputs, not the same values - a contract holds for every valid input, so it must hold for them too (catches
    buffers allocated with the dtype of one argument, in-place writes into integer arrays, casts to a common dtype)."""
    out = []
    for mode in (0, 1, 2):
        n, done = [0], [0]

        def f(x, k, mode=mode):
            r = _as_integer_dtype(x)
            if r is None or (mode and (k + mode) % 2):
                return x
            done[0] += 1
            return r

        va, vk = _map_arrays(args, f, n, True), _map_arrays(kwargs, f, n, True)
        if done[0] == 0 or (mode and done[0] == n[0]):
            continue
        out.append((va, vk))
    return out


def _leaf_arrays(x, out):
    if isinstance(x, np.ndarray):
        out.append(x)
    elif isinstance(x, (tuple, list)):
        for v in x:
            _leaf_arrays(v, out)
    elif isinstance(x, dict):
        for v in x.values():
            _leaf_arrays(v, out)
    return out


def _mix(used, pristine):
    """Arrays from `used` (same objects), everything else from `pristine` (same structure)."""
    if isinstance(used, np.ndarray):
        return used
    if isinstance(used, tuple) and isinstance(pristine, tuple) and len(used) == len(pristine):
        return tuple(_mix(u, p) for u, p in zip(used, pristine))
    if isinstance(used, list) and isinstance(pristine, list) and len(used) == len(pristine):
        return [_mix(u, p) for u, p in zip(used, pristine)]
    if isinstance(used, dict) and isinstance(pristine, dict) and used.keys() == pristine.keys():
        return {k: _mix(used[k], pristine[k]) for k in used}
    return pristine


def history_variants(K, pristine, tol):
    """Two call HISTORIES on top of a sample (a contract speaks about one call, whatever happened before):
    (1) call, scribble over the arrays the call RETURNED, call again on a pristine copy of the inputs - a result that is
        aliased with state kept between calls (a cache) comes back scribbled;
    (2) call, change the VALUES of the same input array objects in place (all rolled by one position, so every
        precondition on the multiset of values still holds), call again on the same objects - anything remembered by
        object identity is now stale.
    Yields (label, outcome of the LAST call)."""
    import copy

    if pristine is None:
        return
    a0, k0 = pristine
    # (1)
    try:
        a1, k1 = copy.deepcopy(a0), copy.deepcopy(k0)
        first = C.check_call(K, a1, k1, tol=tol)
        if first.kind == "return":
            res_arrays = [x for x in _leaf_arrays(first.result, []) if x.flags.writeable and x.size]
            in_ids = {id(x) for x in _leaf_arrays((a1, k1), [])}
            scribbled = False
            for x in res_arrays:
                if id(x) in in_ids or any(np.shares_memory(x, y) for y in _leaf_arrays((a1, k1), [])):
                    continue  # results that ARE (views of) this call's inputs belong to the caller anyway
                if x.dtype.kind == "f":
                    x *= -1.5
                    x += 7.25
                    scribbled = True
                elif x.dtype.kind in "iu":
                    x += 1
                    scribbled = True
            if scribbled:
                a2, k2 = copy.deepcopy(a0), copy.deepcopy(k0)
                yield "after scribbling over the arrays returned by an identical earlier call", C.check_call(K, a2, k2, tol=tol)
    except Exception:
        pass
    # (2)
    try:
        a1, k1 = copy.deepcopy(a0), copy.deepcopy(k0)
        first = C.check_call(K, a1, k1, tol=tol)
        arrays = [x for x in _leaf_arrays((a1, k1), []) if x.flags.writeable and x.size > 1 and x.dtype.kind == "f"]
        sizes = {x.size for x in arrays}
        if first.kind == "return" and arrays and len(sizes) == 1:
            for x in arrays:
                flat = x.ravel().copy()
                x[...] = np.roll(flat, 1).reshape(x.shape)
            # the same ARRAY objects, but every other argument (estimators carry fitted state by design) pristine again
            a2, k2 = _mix(a1, copy.deepcopy(a0)), _mix(k1, copy.deepcopy(k0))
            yield "after changing the values of the same input array objects in place", C.check_call(K, a2, k2, tol=tol)
    except Exception:
        pass


def reuse_variant(K, pristine, tol):
    """A third history, for METHODS (fit / filter / predict / split ... of an object among the arguments): the same
    object first serves a call on OTHER data of the same shapes (every float array reversed and mapped affinely), then
    the sample itself - whatever the first call left on the object, the contract of the second call must hold (refit =
    fresh fit, a second filter / split is not influenced by the first). Yields (label, outcome of the second call)."""
    import copy

    if pristine is None or "." not in K.target.split(":")[-1] or not getattr(K, "reuse_variant", True):
        return
    a0, k0 = pristine
    try:
        a1, k1 = copy.deepcopy(a0), copy.deepcopy(k0)
        n = [0]

        def other(x, k):
            if x.dtype.kind != "f" or x.size < 2 or not np.all(np.isfinite(x)):
                return x
            n[0] += 1
            span = float(x.max() - x.min()) + 1.0
            return (x.ravel()[::-1].reshape(x.shape) * 0.83 + 0.11 * span).astype(x.dtype)

        ao = tuple(a1[:1]) + tuple(_map_arrays(a1[1:], other, [0], True)) if isinstance(a1, tuple) else a1
        ko = _map_arrays(k1, other, [0], True)
        if n[0] == 0:
            return
        ao = (a1[0],) + tuple(ao[1:])  # the SAME object as in the second call
        first = C.check_call(K, ao, ko, tol=tol)
        if first.kind != "return":
            return  # the other data are not acceptable to the method (or outside its precondition): no history made
        a2 = (a1[0],) + tuple(copy.deepcopy(a0)[1:])
        yield "after the same object served an earlier call on other data", C.check_call(K, a2, copy.deepcopy(k0), tol=tol)
    except Exception:
        return


def run_samplers(keys, tier, seed, limit=None):
    from .contract import REGISTRY

    rng = random.Random(seed)
    nrng = np.random.RandomState(seed % (2**31))
    evaluations = 0
    skipped = 0
    per = {}
    failures = []
    samples = []
    for key in keys:
        K = REGISTRY[key]
        gen = getattr(K, "samples", None)
        if gen is None:
            continue
        n = 0
        try:
            items = list(gen(rng, nrng, tier))
        except Exception as e:  # a sampler that no longer fits the (refactored) code: skip this function, say so
            per[key] = "skipped: sampler failed (%s: %s)" % (type(e).__name__, str(e)[:120])
            continue
        if getattr(K, "layout_variants", True):
            extra = []
            for item in items:
                try:
                    extra += [(va, vk) for va, vk in layout_variants(item[0], item[1])]
                except Exception:
                    pass
            items = items + extra
        if getattr(K, "dtype_variants", True) and os.environ.get("VERIF_NO_DTYPE_VARIANTS") != "1":
            extra, base = [], [it for it in items[: len(items) - len(extra) if getattr(K, "layout_variants", True) else len(items)]]
            for item in base[: (40 if tier == "thorough" else 15)]:
                try:
                    extra += [(va, vk) for va, vk in dtype_variants(item[0], item[1])]
                except Exception:
                    pass
            items = items + extra
        for item in items:
            args, kwargs = item[0], item[1]
            pristine = None
            if getattr(K, "history_variants", True) and n < (12 if tier == "thorough" else 5):
                try:
                    import copy

                    pristine = copy.deepcopy((args, kwargs))  # before the call: estimators among the arguments get fitted
                except Exception:
                    pristine = None
            try:
                res = C.check_call(K, args, kwargs, tol=getattr(K, "tol", None))
            except TypeError as e:
                if "argument" in str(e):  # the function's signature changed: its contract no longer applies
                    per[key] = "skipped: contract does not bind to the current signature (%s)" % str(e)[:120]
                    break
                raise
            if res.kind == "skipped":
                skipped += 1
                continue
            n += 1
            evaluations += 1
            if len(samples) < 6 and n <= 2:
                samples.append({"target": key, "inputs": C.describe({"args": args, "kwargs": kwargs}), "outcome": res.kind})
            for clause, detail in res.failures:
                if len(failures) < 50:
                    failures.append(
                        {
                            "target": key,
                            "clause": clause,
                            "detail": detail,
                            "inputs": C.describe({"args": args, "kwargs": kwargs}),
                            "outcome": res.kind + ((": %r" % (res.exc,)) if res.exc is not None else ""),
                        }
                    )
            if getattr(K, "history_variants", True) and n <= (12 if tier == "thorough" else 5) and res.kind == "return" and not res.failures:
                import itertools

                for label, hres in itertools.chain(history_variants(K, pristine, getattr(K, "tol", None)), reuse_variant(K, pristine, getattr(K, "tol", None))):
                    if hres.kind == "skipped":
                        continue
                    evaluations += 1
                    for clause, detail in hres.failures:
                        if len(failures) < 50:
                            failures.append({"target": key, "clause": clause, "detail": "[%s] %s" % (label, detail), "inputs": C.describe({"args": args, "kwargs": kwargs}), "outcome": hres.kind + ((": %r" % (hres.exc,)) if hres.exc is not None else "")})
            if limit and n >= limit:
                break
        if not isinstance(per.get(key), str):
            per[key] = n
    return {"evaluations": evaluations, "skipped_outside_requires": skipped, "per_function": per, "failures": failures, "samples": samples}
