"""Access to /verif/known_findings.json (committed; never written at run time)."""
import json
import os

_ROOT = os.path.dirname(os.path.dirname(os.path.abspath(__file__)))
_CACHE = None


def entries():
    global _CACHE
    if _CACHE is None:
        p = os.path.join(_ROOT, "known_findings.json")
        _CACHE = json.load(open(p)).get("findings", []) if os.path.exists(p) else []
    return _CACHE


def active(fid):
    """True iff finding `fid` is listed with status 'known' (then its carve-out applies)."""
    return any(e.get("id") == fid and e.get("status") == "known" for e in entries())
