"""Lemmas: generic arithmetic facts proved ONCE by z3 over fresh variables and then applied
(instantiated) inside a goal. Keeps hard non-linear reasoning out of the big queries."""
import time

import z3

from .core import Ctx, Obligation, SymBool, SymNum, and_, ctx, implies, is_sym, to_z3, to_z3_bool

_PROVED = {}


class Lemma:
    def __init__(self, name, params, statement, doc=""):
        """params: list of (name, 'real'|'int'); statement(**vars) -> (premises list, conclusion)."""
        self.name, self.params, self.statement, self.doc = name, params, statement, doc

    def _generic(self):
        vs = {}
        for n, k in self.params:
            vs[n] = SymNum(z3.Int("L_" + n) if k == "int" else z3.Real("L_" + n), k)
        return vs

    def prove(self, timeout_ms=60000):
        if self.name in _PROVED:
            return _PROVED[self.name]
        c = ctx()
        c.in_spec += 1
        try:
            prem, concl = self.statement(**self._generic())
        finally:
            c.in_spec -= 1
        t0 = time.time()
        r = z3.unknown
        # z3's non-linear engine is seed sensitive: a small portfolio of seeds with short timeouts
        for seed in range(12):
            s = z3.Solver()
            s.set("timeout", 5000)
            s.set("random_seed", seed)
            s.set("smt.random_seed", seed)
            for p in prem:
                s.add(to_z3_bool(p))
            s.add(z3.Not(to_z3_bool(concl)))
            r = s.check()
            if r != z3.unknown:
                break
        dt = time.time() - t0
        status = "discharged" if r == z3.unsat else ("refuted" if r == z3.sat else "unknown")
        _PROVED[self.name] = (status, dt, str(s.model())[:500] if r == z3.sat else "")
        return _PROVED[self.name]

    def apply(self, **terms):
        """Use the lemma at the given terms inside the current goal (symbolic mode only)."""
        c = ctx()
        if c.concrete or not any(is_sym(v) for v in terms.values()):
            return True
        key = "lemma." + self.name
        if key not in c.lemma_obligations:
            status, dt, detail = self.prove()
            c.lemma_obligations[key] = Obligation(key, status, dt, detail=detail, kind="lemma", backend="z3", formula_txt=self.doc)
        if c.lemma_obligations[key].status != "discharged":
            return True  # an unproved lemma is never used
        prem, concl = self.statement(**terms)
        c.assume(implies(and_(*prem), concl))
        c.used_axioms.add("lemma %s (proved by z3 in this run): %s" % (self.name, self.doc))
        return True
