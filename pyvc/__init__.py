"""pyvc: contract-based deductive verification of real Python functions by shadow symbolic execution."""
