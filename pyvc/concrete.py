"""Concrete evaluation of contracts on the real, unpatched functions.

Used (a) to replay a solver counter-model against the real code and (b) as the *bounded stand-in*
(run-time contract checking on enumerated / random inputs). Never counted as proof.
"""
import copy
import math
import traceback
from fractions import Fraction

import numpy as np

from . import spec as S
from .arr import SymArr, from_list, new_array
from .core import Ctx, SymBool, SymNum, concrete_value, is_sym


_WRAP_MEMO = {}


def wrap(x):
    """numpy / python value -> concrete V / SymArr; identity preserving within one check_call."""
    if isinstance(x, (np.ndarray, tuple, list, dict)):
        hit = _WRAP_MEMO.get(id(x))
        if hit is not None and hit[0] is x:
            return hit[1]
        w = _wrap(x)
        _WRAP_MEMO[id(x)] = (x, w)
        return w
    return _wrap(x)


def _wrap(x):
    if isinstance(x, np.ndarray):
        if x.dtype == object:
            shape = x.shape
            flat = [wrap(v) for v in x.ravel().tolist()]
            return _conc_array(shape, flat, "O")
        k = {"f": "f", "i": "i", "u": "i", "b": "b"}.get(x.dtype.kind)
        if k is None:
            return x
        flat = x.ravel().tolist()
        arr = _conc_array(x.shape, flat, k)
        arr.np_ref = x
        if k == "f" and np.isnan(x).any():
            nanflat = np.isnan(x).ravel().tolist()
            shape = x.shape
            arr.storage.nan = lambda idx, nanflat=nanflat, shape=shape: nanflat[_flat(idx, shape)]
        return arr
    if isinstance(x, np.generic):
        return x.item()
    if isinstance(x, tuple):
        return tuple(wrap(v) for v in x)
    if isinstance(x, list):
        return [wrap(v) for v in x]
    if isinstance(x, dict):
        return {k: wrap(v) for k, v in x.items()}
    return x


def _flat(idx, shape):
    f = 0
    for i, n in zip(idx, shape):
        f = f * n + int(i)
    return f


def _conc_array(shape, flat, kind):
    shape = tuple(int(s) for s in shape)

    def fn(idx, flat=flat, shape=shape):
        return flat[_flat(idx, shape)]

    a = new_array(shape, fn, kind, owner="concrete")
    a.concrete_data = (shape, flat)
    return a


def aliases(x, y):
    """Do two arrays share storage?  symbolic: same Storage; concrete: numpy memory overlap."""
    if x is None or y is None:
        return False
    rx, ry = getattr(x, "np_ref", None), getattr(y, "np_ref", None)
    if rx is not None and ry is not None:
        return bool(np.shares_memory(rx, ry))
    if isinstance(x, SymArr) and isinstance(y, SymArr):
        return x.storage is y.storage
    return False


def unwrap(x):
    """Concrete SymArr -> numpy (for feeding inputs built by a contract's sampler)."""
    if isinstance(x, SymArr):
        shape = tuple(int(s) for s in x.shape)
        out = np.empty(shape, dtype={"f": float, "i": int, "b": bool, "O": object}[x.kind])
        for idx in np.ndindex(*shape):
            out[idx] = x.at(*idx)
        return out
    if isinstance(x, tuple):
        return tuple(unwrap(v) for v in x)
    if isinstance(x, list):
        return [unwrap(v) for v in x]
    return x


def _snapshot_bytes(x, out):
    if isinstance(x, np.ndarray):
        out.append((x, x.copy() if x.dtype != object else None))
    elif isinstance(x, (tuple, list)):
        for v in x:
            _snapshot_bytes(v, out)
    elif isinstance(x, dict):
        for v in x.values():
            _snapshot_bytes(v, out)


def _same(a, b):
    if b is None:
        return True
    if a.shape != b.shape or a.dtype != b.dtype:
        return False
    if a.dtype.kind == "f":
        return bool(np.array_equal(a, b, equal_nan=True))
    return bool(np.array_equal(a, b))


class ConcreteOutcome:
    def __init__(self):
        self.failures = []  # list of (clause, detail)
        self.kind = None
        self.exc = None
        self.result = None


def check_call(contract, args, kwargs, tol=None):
    """Run the REAL function natively on concrete (args, kwargs) and evaluate the contract."""
    out = ConcreteOutcome()
    _WRAP_MEMO.clear()
    func = contract.func()
    snaps = []
    _snapshot_bytes((args, kwargs), snaps)
    c = Ctx()
    c.concrete = True
    prev = Ctx.current
    Ctx.current = c
    old_tol = (S.Tol.rtol, S.Tol.atol)
    if tol is not None:
        S.Tol.rtol, S.Tol.atol = tol
    try:
        wa = contract.bind(tuple(wrap(a) for a in args), {k: wrap(v) for k, v in kwargs.items()})
        out.bound = wa
        wa_old = wa
        c.in_spec += 1
        try:
            req, _ = S.evaluate(contract.requires(wa))
        except Exception as e:  # requires not evaluable on this input: treat as outside the contract
            req = False
        if not req:
            out.kind = "skipped"
            return out
        rz = contract.raises(wa)
        conds = []
        for T, cond in rz:
            ok, _ = S.evaluate(getattr(cond, "pos", cond))
            if hasattr(cond, "neg"):
                nok, _ = S.evaluate(cond.neg)
            else:
                nok = not ok
            conds.append((T, ok, nok))
        c.in_spec -= 1
        import warnings

        with warnings.catch_warnings(record=True) as wlist:
            warnings.simplefilter("always")
            try:
                result = func(*args, **kwargs)
                out.kind = "return"
                out.result = result
            except Exception as e:
                out.kind = "raise"
                out.exc = e
                out.tb = traceback.format_exc(limit=4)
        label = contract.target.split(":")[1]
        if out.kind == "raise" and type(out.exc).__name__ in ("QhullError", "LinAlgError"):
            out.kind = "skipped"  # the real third-party library rejected this (degenerate) sample input
            return out
        if out.kind == "raise":
            if not any(isinstance(out.exc, T) and ok for T, ok, nok in conds):
                out.failures.append(("%s:raises.allowed[%s]" % (label, type(out.exc).__name__), "raised %r but no raises-clause condition holds" % (out.exc,)))
            return out
        for k, (T, ok, nok) in enumerate(conds):
            if not nok:
                out.failures.append(("%s:raises.required[%s#%d]" % (label, T.__name__, k), "returned normally although the contract requires %s" % T.__name__))
        # post-state view of the arguments (out-parameters) with identities preserved
        _WRAP_MEMO.clear()
        wa = contract.bind(tuple(wrap(a) for a in args), {k: wrap(v) for k, v in kwargs.items()})
        wa.old = wa_old
        c.in_spec += 1
        post = contract.ensures(wa, wrap(result))
        for name, f in post.items():
            try:
                ok, w = S.evaluate(f)
            except Exception as e:
                ok, w = False, "clause evaluation error: %s: %s" % (type(e).__name__, e)
            if not ok:
                out.failures.append(("%s:post.%s" % (label, name), "clause false on concrete execution; witness=%r" % (w,)))
        c.in_spec -= 1
        ew = contract.expect_warning(wa)
        if ew is not None:
            cats = {type(w.message).__name__ if isinstance(w.message, Warning) else w.category.__name__ for w in wlist}
            cats |= {w.category.__name__ for w in wlist}
            for cat, cond in ew:
                ok, _ = S.evaluate(cond)
                if ok and cat not in cats:
                    out.failures.append(("%s:warns[%s].required" % (label, cat), "warning not issued"))
                if (not ok) and cat in cats:
                    out.failures.append(("%s:warns[%s].justified" % (label, cat), "warning issued although its condition is false"))
        if contract.pure:
            allowed = []
            mw = getattr(contract, "may_write", None)
            if mw is not None:
                allowed = [getattr(x, "np_ref", None) for x in mw(wa)]
            for arr, before in snaps:
                if any(arr is y for y in allowed):
                    continue
                if not _same(arr, before):
                    out.failures.append(("%s:frame.no_write_to_inputs" % label, "an argument array was modified"))
                    break
        return out
    finally:
        S.Tol.rtol, S.Tol.atol = old_tol
        Ctx.current = prev


# ------------------------------------------------------------ model -> concrete inputs


def model_value(model, v):
    """Evaluate a V under a z3 model to a python number."""
    import z3

    if isinstance(v, SymNum):
        t = model.eval(v.t, model_completion=True)
        if z3.is_int_value(t):
            return t.as_long()
        if z3.is_rational_value(t):
            f = Fraction(t.numerator_as_long(), t.denominator_as_long())
            return float(f)
        if z3.is_algebraic_value(t):
            return float(t.approx(20).as_fraction())
        raise ValueError("non-numeric model value %s" % t)
    if isinstance(v, SymBool):
        t = model.eval(v.t, model_completion=True)
        return bool(z3.is_true(t))
    return v


def concretize(model, x, max_elems=4096):
    """Turn symbolic call arguments into native ones using a z3 model."""
    if isinstance(x, (SymNum, SymBool)):
        return model_value(model, x)
    if isinstance(x, SymArr):
        shape = tuple(int(model_value(model, n)) if is_sym(n) else int(n) for n in x.shape)
        n = int(np.prod(shape)) if shape else 1
        if n > max_elems:
            raise ValueError("counter-model too large to replay (%d elements)" % n)
        dt = {"f": float, "i": int, "b": bool}[x.kind]
        out = np.empty(shape, dtype=dt)
        c = Ctx.current
        uf = getattr(x.storage, "uf", None)
        for idx in np.ndindex(*shape):
            if uf is not None and x._fwd is None:
                import z3

                t = uf(*[z3.IntVal(int(i)) for i in idx])
                v = SymBool(t) if x.kind == "b" else SymNum(t, "real" if x.kind == "f" else "int")
            else:
                v = x.at(*idx)
            out[idx] = model_value(model, v)
        return out
    if isinstance(x, tuple):
        return tuple(concretize(model, v) for v in x)
    if isinstance(x, list):
        return [concretize(model, v) for v in x]
    if isinstance(x, dict):
        return {k: concretize(model, v) for k, v in x.items()}
    return x


def describe(x, depth=0):
    """JSON-able description of concrete inputs/outputs."""
    if isinstance(x, np.ndarray):
        if x.size <= 64:
            return {"ndarray": x.tolist() if x.dtype != object else [describe(v) for v in x.ravel().tolist()], "shape": list(x.shape), "dtype": str(x.dtype)}
        return {"ndarray": "…", "shape": list(x.shape), "dtype": str(x.dtype)}
    if isinstance(x, np.generic):
        return x.item()
    if isinstance(x, (tuple, list)):
        return [describe(v) for v in x]
    if isinstance(x, dict):
        return {str(k): describe(v) for k, v in x.items()}
    if isinstance(x, float) and (math.isnan(x) or math.isinf(x)):
        return repr(x)
    if isinstance(x, (int, float, str, bool)) or x is None:
        return x
    if isinstance(x, Fraction):
        return float(x)
    return repr(x)[:300]
