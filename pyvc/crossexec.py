"""Proxy-vs-native cross-execution (thorough tier): the real verde function is executed once natively
and once THROUGH THE PROXIES (numpy & co. replaced by the prelude, verde callees NOT stubbed) on the
same concrete inputs; the two results must agree. This tests the trusted base itself - the proxy
arithmetic, the array/view model and the concrete semantics of the assumed library contracts -
against the real libraries. A disagreement is a CHECKER error (exit 3), never a property verdict."""
import copy
import math
import random

import numpy as np

from . import concrete as C
from .arr import SymArr
from .contract import Patches, default_patches
from .core import Ctx, SpecError, Unsupported, is_sym


def _has_symbolic(x):
    if isinstance(x, SymArr):
        try:
            C.unwrap(x)
            return False
        except Exception:
            return True
    if is_sym(x):
        return True
    if isinstance(x, (tuple, list)):
        return any(_has_symbolic(v) for v in x)
    return False


def _equalish(a, b, tol=1e-9):
    if isinstance(a, (tuple, list)) and isinstance(b, (tuple, list)):
        return len(a) == len(b) and all(_equalish(x, y, tol) for x, y in zip(a, b))
    if isinstance(a, SymArr):
        a = C.unwrap(a)
    if isinstance(b, SymArr):
        b = C.unwrap(b)
    if isinstance(a, np.ndarray) or isinstance(b, np.ndarray):
        a, b = np.asarray(a), np.asarray(b)
        if a.shape != b.shape:
            return False
        if a.dtype == object or b.dtype == object:
            return all(_equalish(x, y, tol) for x, y in zip(a.ravel().tolist(), b.ravel().tolist()))
        if a.dtype.kind == "b" or b.dtype.kind == "b":
            return bool(np.array_equal(a.astype(bool), b.astype(bool)))
        scale = float(np.nanmax(np.abs(b.astype(float)))) + 1.0 if b.size else 1.0
        return bool(np.allclose(a.astype(float), b.astype(float), rtol=0, atol=tol * scale, equal_nan=True))
    if isinstance(a, (int, float, np.generic)) and isinstance(b, (int, float, np.generic)):
        a, b = float(a), float(b)
        if math.isnan(a) and math.isnan(b):
            return True
        return abs(a - b) <= tol * (abs(b) + 1.0)
    if a is None or b is None:
        return a is b
    return True  # objects we do not compare structurally (estimators, datasets): exceptions / shapes were compared


def cross_execute(contract, args, kwargs):
    """Returns 'agree' | 'disagree: ...' | 'skipped: ...'."""
    func = contract.func()
    mod = contract.resolve()[0]
    a0, k0 = copy.deepcopy(args), copy.deepcopy(kwargs)
    import warnings

    with warnings.catch_warnings():
        warnings.simplefilter("ignore")
        try:
            native = ("return", func(*a0, **k0))
        except Exception as e:
            native = ("raise", type(e).__name__)
    c = Ctx()
    c.crossexec = True
    prev = Ctx.current
    Ctx.current = c
    P = Patches()
    try:
        default_patches(P, mod)
        for name, obj in contract.prelude:
            P.set(mod, name, obj)
        extra = getattr(contract, "patch_modules", None)
        if extra:
            try:
                extra(P)
            except Exception:
                pass
        wargs = tuple(C.wrap(x) for x in copy.deepcopy(args))
        wkw = {k: C.wrap(v) for k, v in copy.deepcopy(kwargs).items()}
        try:
            proxy = ("return", func(*wargs, **wkw))
        except (Unsupported, SpecError) as e:
            return "skipped: %s" % str(e)[:80]
        except Exception as e:
            # the proxies are only understood inside the patched module(s): an exception raised while executing an
            # UNPATCHED verde module (a real estimator passed as an argument calls into its own module with real
            # numpy) says nothing about the model - skipped, not a disagreement
            patched = {d.get("__name__") for d, _n, _o, _m in P.saved if isinstance(d, dict)}
            tb, mods = e.__traceback__, []
            while tb is not None:
                mods.append(tb.tb_frame.f_globals.get("__name__", ""))
                tb = tb.tb_next
            outside = [m for m in mods if m.startswith("verde") and m not in patched]
            if outside and native[0] == "return":
                return "skipped: proxy execution left the patched module (%s)" % outside[-1]
            proxy = ("raise", type(e).__name__)
    finally:
        P.restore()
        Ctx.current = prev
    if native[0] == "raise" and native[1] in ("QhullError", "LinAlgError", "MemoryError"):
        return "skipped: the real third-party library rejected the input (%s)" % native[1]
    if native[0] != proxy[0]:
        return "disagree: native %s %s vs proxy %s %s" % (native[0], native[1] if native[0] == "raise" else "", proxy[0], proxy[1] if proxy[0] == "raise" else "")
    if native[0] == "raise":
        n, p = native[1], proxy[1]
        ok = n == p or {n, p} <= {"IOError", "OSError"} or {n, p} <= {"UFuncTypeError", "TypeError", "_UFuncOutputCastingError"}
        return "agree" if ok else "disagree: native raises %s, proxy raises %s" % (n, p)
    if _has_symbolic(proxy[1]):
        return "skipped: proxy result contains values the prelude leaves symbolic (assumed-contract results)"
    Ctx.current = c
    try:
        ok = _equalish(proxy[1], native[1])
    except Exception as e:
        return "skipped: results not comparable (%s)" % type(e).__name__
    finally:
        Ctx.current = prev
    return "agree" if ok else "disagree: values differ"


def run(keys, tier, seed, per_function=25):
    from .contract import REGISTRY

    rng = random.Random(seed + 7)
    nrng = np.random.RandomState((seed + 7) % (2**31))
    out = {"agree": 0, "skipped": 0, "disagreements": [], "per_function": {}}
    for key in keys:
        K = REGISTRY[key]
        gen = getattr(K, "samples", None)
        if gen is None or getattr(K, "native_replay", True) is False and not hasattr(K, "samples"):
            continue
        if not K.target.startswith("verde"):
            continue
        n = 0
        stat = {"agree": 0, "skipped": 0, "disagree": 0}
        for item in gen(rng, nrng, tier):
            r = cross_execute(K, item[0], item[1])
            kind = r.split(":")[0]
            stat[kind] = stat.get(kind, 0) + 1
            if kind == "agree":
                out["agree"] += 1
            elif kind == "skipped":
                out["skipped"] += 1
            else:
                if len(out["disagreements"]) < 20:
                    out["disagreements"].append({"target": key, "what": r, "inputs": C.describe({"args": item[0], "kwargs": item[1]})})
            n += 1
            if n >= per_function:
                break
        out["per_function"][key] = stat
    return out
