"""Contract formula language: polarity-neutral formulas that can be proved or assumed.

A formula is a V bool (python bool / SymBool) or one of the nodes below. The same clause text
is *proved* when the function is verified, *assumed* when the function is used as a stub, and
*evaluated concretely* (python numbers, enumerated indices) for replay / bounded checks.
"""
import itertools

import z3

from .core import (
    SpecError,
    SymBool,
    SymNum,
    and_,
    concrete_value,
    ctx,
    implies,
    is_sym,
    ite,
    not_,
    or_,
    to_z3_bool,
)


class Forall:
    def __init__(self, dims, fn, name=None):
        self.dims = tuple(dims) if isinstance(dims, (tuple, list)) else (dims,)
        self.fn = fn
        self.name = name


class Exists:
    def __init__(self, dims, fn, witnesses=None):
        self.dims = tuple(dims) if isinstance(dims, (tuple, list)) else (dims,)
        self.fn = fn
        self.witnesses = witnesses  # optional explicit candidates (list of idx tuples)


class ExistsInt:
    """There exist integers v_1..v_n with body(v).  prove: the witness tuples are supplied by
    `witnesses()` (typically ghost values recorded from stub calls); assume: fresh integers;
    concrete: `candidates()` enumerates tuples to try."""

    def __init__(self, n, fn, witnesses=None, candidates=None):
        self.n, self.fn, self.witnesses, self.candidates = n, fn, witnesses, candidates


def hint(*idx):
    """Instantiation hint usable inside clause bodies: use universals of rank len(idx) at idx."""
    c = ctx()
    if not c.concrete:
        c.touch_index(tuple(idx), depth=0)
    return True


class AnyOf:
    """Disjunction of existential / leaf formulas (positive positions only, never assumed)."""

    def __init__(self, *parts):
        self.parts = list(parts)


class All:
    def __init__(self, *parts):
        self.parts = [p for p in parts]


class Imp:
    def __init__(self, a, b):
        self.a = a  # quantifier-free V bool
        self.b = b


def _bounds(idx, dims):
    return and_(*[and_(0 <= i, i < n) for i, n in zip(idx, dims)]) if idx else True


def _is_leaf(f):
    return not isinstance(f, (Forall, Exists, All, Imp, AnyOf, ExistsInt))


def _exists_alternatives(c, f):
    cands = list(f.witnesses or [])
    if not f.witnesses:
        cands += list(c.index_pool.get(len(f.dims), []))
    alts = []
    for w in cands:
        w = tuple(w)
        body = f.fn(*w)
        if not _is_leaf(body):
            raise SpecError("Exists body must be quantifier free")
        alts.append(and_(_bounds(w, f.dims), body))
    return alts


# ------------------------------------------------------------------ prove


def prove(name, f, kind="post", hyps=()):
    """Generate and discharge obligations for formula f under the current path state.

    Every leaf goal is discharged in its own instantiation scope: its Skolem indices and hints
    are dropped before the next goal, so sibling goals do not pollute each other's queries."""
    c = ctx()
    if c.replaying:
        return []
    obs = []
    _prove(c, f, list(hyps), name, kind, obs)
    return obs


def _prove(c, f, hyps, name, kind, obs):
    if isinstance(f, All):
        for k, p in enumerate(f.parts):
            _prove(c, p, list(hyps), "%s.%d" % (name, k) if len(f.parts) > 1 else name, kind, obs)
        return
    if isinstance(f, ExistsInt):
        wits = list(f.witnesses() if f.witnesses else [])
        if len(wits) > 1:
            raise SpecError("ExistsInt: ambiguous ghost witnesses (%d)" % len(wits))
        if wits:
            c.in_spec += 1
            try:
                body = f.fn(*wits[0])
            finally:
                c.in_spec -= 1
            _prove(c, body, hyps, name, kind, obs)
            return
    snap = c.push_goal_scope()
    try:
        c.in_spec += 1
        try:
            goals = []
            _strip(c, f, list(hyps), goals, name)
        finally:
            c.in_spec -= 1
        if len(goals) > 1 and not isinstance(f, (All,)):
            # a quantifier with a conjunctive body: still one scope per leaf goal
            pass
        for gname, hyp, goal in goals:
            obs.append(c.oblige(gname, goal, kind=kind, hyps=hyp))
    finally:
        c.pop_goal_scope(snap)


def _strip(c, f, hyps, goals, name):
    if isinstance(f, All):
        for k, p in enumerate(f.parts):
            _strip(c, p, list(hyps), goals, "%s.%d" % (name, k) if len(f.parts) > 1 else name)
    elif isinstance(f, Imp):
        _strip(c, f.b, hyps + [f.a], goals, name)
    elif isinstance(f, Forall):
        sk = [c.fresh("k", "int") for _ in f.dims]
        c.touch_index(tuple(sk))
        body = f.fn(*sk)
        _strip(c, body, hyps + [_bounds(sk, f.dims)], goals, name)
    elif isinstance(f, Exists):
        alts = _exists_alternatives(c, f)
        if not alts:
            goals.append((name, hyps, False))
            return
        goals.append((name, hyps, or_(*alts) if len(alts) > 1 else alts[0]))
    elif isinstance(f, ExistsInt):
        wits = list(f.witnesses() if f.witnesses else [])
        if not wits:
            goals.append((name, hyps, False))
            return
        if len(wits) > 1:
            raise SpecError("ExistsInt: ambiguous ghost witnesses (%d)" % len(wits))
        _strip(c, f.fn(*wits[0]), hyps, goals, name)
    elif isinstance(f, AnyOf):
        alts = []
        for p in f.parts:
            if isinstance(p, Exists):
                alts += _exists_alternatives(c, p)
            elif _is_leaf(p):
                alts.append(p)
            else:
                raise SpecError("AnyOf parts must be Exists or quantifier free")
        goals.append((name, hyps, or_(*alts) if len(alts) > 1 else (alts[0] if alts else False)))
    else:
        goals.append((name, hyps, f))


# ------------------------------------------------------------------ assume


def assume(f, guard=True):
    c = ctx()
    c.in_spec += 1
    try:
        _assume(c, f, guard)
    finally:
        c.in_spec -= 1


def _assume(c, f, guard):
    if isinstance(f, All):
        for p in f.parts:
            _assume(c, p, guard)
    elif isinstance(f, Imp):
        _assume(c, f.b, and_(guard, f.a))
    elif isinstance(f, Forall):
        rank = len(f.dims)
        dims, fn = f.dims, f.fn

        def inst(*idx, dims=dims, fn=fn, guard=guard):
            body = fn(*idx)
            if isinstance(body, Imp) and _is_leaf(body.b):
                body = implies(body.a, body.b)
            if isinstance(body, All) and all(_is_leaf(p) for p in body.parts):
                body = and_(*body.parts)
            if not _is_leaf(body):
                raise SpecError("nested quantifier in an assumed Forall")
            return implies(and_(guard, _bounds(idx, dims)), body)

        c.add_universal(rank, inst, f.name or "")
    elif isinstance(f, AnyOf):
        if all(_is_leaf(p) for p in f.parts):
            c.assume(implies(guard, or_(*f.parts)))
        # a disjunction with existential parts is simply not assumed (weaker, sound)
    elif isinstance(f, ExistsInt):
        w = tuple(c.fresh("e", "int") for _ in range(f.n))
        _assume(c, f.fn(*w), guard)
    elif isinstance(f, Exists):
        w = tuple(c.fresh("w", "int") for _ in f.dims)
        c.touch_index(w)
        body = f.fn(*w)
        if not _is_leaf(body):
            raise SpecError("Exists body must be quantifier free")
        c.assume(implies(guard, and_(_bounds(w, f.dims), body)))
    else:
        c.assume(implies(guard, f))


# ------------------------------------------------------------------ concrete evaluation


class Tol:
    """Tolerance used by the concrete evaluator for real-valued comparisons."""

    rtol = 1e-9
    atol = 1e-9


def evaluate(f):
    """Concrete evaluation: all dims and values are python numbers. Returns (ok, witness)."""
    if isinstance(f, All):
        for p in f.parts:
            ok, w = evaluate(p)
            if not ok:
                return False, w
        return True, None
    if isinstance(f, Imp):
        a = f.a
        if is_sym(a):
            raise SpecError("symbolic value in concrete evaluation")
        if not a:
            return True, None
        return evaluate(f.b)
    if isinstance(f, Forall):
        for idx in itertools.product(*[range(int(n)) for n in f.dims]):
            ok, w = evaluate(f.fn(*idx))
            if not ok:
                return False, {"index": idx, "inner": w}
        return True, None
    if isinstance(f, ExistsInt):
        last = None
        for cand in f.candidates():
            ok, w = evaluate(f.fn(*cand))
            if ok:
                return True, None
            last = {"candidate": cand, "inner": w}
        return False, {"exists_int": "no candidate works", "last": last}
    if isinstance(f, AnyOf):
        for p in f.parts:
            ok, _ = evaluate(p)
            if ok:
                return True, None
        return False, {"anyof": "no alternative holds"}
    if isinstance(f, Exists):
        for idx in itertools.product(*[range(int(n)) for n in f.dims]):
            ok, _ = evaluate(f.fn(*idx))
            if ok:
                return True, None
        return False, {"exists": "no witness"}
    if is_sym(f):
        v = concrete_value(f)
        if v is None:
            raise SpecError("symbolic value in concrete evaluation: %r" % (f,))
        f = v
    return bool(f), None


# tolerant comparisons for clauses (exact symbolically, tolerant concretely)


def _conc(*xs):
    return not any(is_sym(x) for x in xs)


def close(a, b, scale=1.0):
    """a == b (exact in symbolic mode; within tolerance in concrete mode)."""
    if _conc(a, b) and (isinstance(a, float) or isinstance(b, float)):
        import math

        if isinstance(a, float) and math.isnan(a) or isinstance(b, float) and math.isnan(b):
            return False
        if math.isinf(a) or math.isinf(b):
            return a == b  # an infinite value is never "close" to a finite one (inf <= inf would pass below)
        return abs(a - b) <= Tol.atol * scale + Tol.rtol * max(abs(a), abs(b), scale)
    return a == b


def le(a, b, scale=1.0):
    if _conc(a, b) and (isinstance(a, float) or isinstance(b, float)):
        import math

        if math.isinf(a) or math.isinf(b):
            return a <= b
        return a <= b + Tol.atol * scale + Tol.rtol * max(abs(a), abs(b), scale)
    return a <= b


def ge(a, b, scale=1.0):
    return le(b, a, scale)
