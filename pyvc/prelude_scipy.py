"""Assumed contracts for scipy.spatial (cKDTree, Delaunay) and scipy.interpolate."""
import z3

from . import spec as S
from .arr import SymArr, as_array, havoc_array, new_array
from .core import Proxy  # noqa
from .core import SymNum, Unsupported, and_, ctx, implies, is_sym, ite, lift, not_, or_, spec_sqrt
from .spec import Exists, Forall


def _use(name):
    ctx().used_prelude.add("scipy." + name)


class SymKDTree(Proxy):
    """scipy.spatial.cKDTree over the rows of an (n, d) array (contents captured at build time)."""

    def __init__(self, data, leafsize=16, **kwargs):
        _use("spatial.cKDTree")
        data = as_array(data)
        if data.ndim != 2:
            raise ValueError("data must be 2 dimensions")
        self.n, self.m = data.shape
        d = lift(self.m)
        if is_sym(d):
            raise Unsupported("kd-tree with symbolic point dimension")
        self.m = int(d)
        self._p = data.snapshot()
        self.data = new_array(data.shape, lambda idx: self._p(*idx), "f")

    def point(self, j):
        return tuple(self._p(j, d) for d in range(self.m))

    def d2(self, x, j):
        from .core import sqdist

        return sqdist(tuple(x), self.point(j))

    def _queries(self, x):
        x = as_array(x)
        if x.ndim == 1:
            x = x[None, :]
            single = True
        else:
            single = False
        if x.ndim != 2:
            raise Unsupported("kd-tree query with rank-%d input" % x.ndim)
        c = ctx()
        if is_sym(x.shape[1]) or int(x.shape[1]) != self.m:
            raise ValueError("x must consist of vectors of length %d but has shape %s" % (self.m, x.shape))
        xs = x.snapshot()
        return x.shape[0], (lambda q: tuple(xs(q, d) for d in range(self.m))), single

    def query(self, x, k=1, eps=0, p=2, distance_upper_bound=float("inf"), workers=1):
        """k=1: index of a nearest point (minimises the Euclidean distance), and that distance.
        k>1: the k nearest, sorted by distance; every other point is at least as far."""
        _use("spatial.cKDTree.query")
        if p != 2 or is_sym(eps) or eps < 0:
            raise Unsupported("kd-tree query with p/eps")
        if eps != 0 and not (not is_sym(k) and k == 1):
            raise Unsupported("approximate kd-tree query with k > 1")
        if not (not is_sym(k) and k == 1) and not (not is_sym(distance_upper_bound) and distance_upper_bound == float("inf")):
            raise Unsupported("kd-tree query with k > 1 and a distance upper bound")
        # eps > 0 (scipy: "the k-th returned value is guaranteed to be no further than (1+eps) times
        # the distance to the real k-th nearest neighbor"): the weaker guarantee is what is assumed.
        slack = (1.0 + float(eps)) ** 2
        nq, xq, single = self._queries(x)
        c = ctx()
        if single:
            raise Unsupported("kd-tree query with a single point")
        c.oblige("kdtree.query.nonempty_tree[%s]" % c.fresh_name("kd"), self.n >= 1, kind="domain")
        if not is_sym(k) and k == 1:
            idx = havoc_array("kd_idx", (nq,), "i")
            ia = idx.snapshot()
            n = self.n
            S.assume(Forall((nq,), lambda q: and_(ia(q) >= 0, ia(q) < n), name="kd.query.index_in_range"))
            S.assume(Forall((nq, n), lambda q, j: self.d2(xq(q), ia(q)) <= (self.d2(xq(q), j) if slack == 1.0 else slack * self.d2(xq(q), j)), name="kd.query.nearest" if slack == 1.0 else "kd.query.approx_nearest"))
            ub = distance_upper_bound
            if not is_sym(ub) and ub == float("inf"):
                dist = new_array((nq,), lambda i: spec_sqrt(self.d2(xq(i[0]), ia(i[0]))), "f")
                c.ghost.setdefault("kd.query", []).append((self, nq, xq, 1, idx))
                return dist, idx
            # distance_upper_bound (scipy: "return only neighbors within this distance"; the comparison is STRICT):
            # a query point whose nearest neighbour is not strictly closer gets distance inf and index n. inf is a
            # fresh real above the bound (all that comparisons with finite thresholds up to the bound can observe)
            big = c.fresh("kd_inf", "real")
            c.assume(and_(big > ub, big > 0))
            near = lambda q: spec_sqrt(self.d2(xq(q), ia(q))) < ub  # noqa: E731
            dist = new_array((nq,), lambda i: ite(near(i[0]), spec_sqrt(self.d2(xq(i[0]), ia(i[0]))), big), "f")
            idx2 = new_array((nq,), lambda i: ite(near(i[0]), ia(i[0]), n), "i")
            c.used_prelude.add("cKDTree.query(distance_upper_bound): strict bound, misses reported as (inf, n)")
            c.ghost.setdefault("kd.query", []).append((self, nq, xq, 1, idx))
            return dist, idx2
        dist, idx = self._query_k(nq, xq, k)
        c.ghost.setdefault("kd.query", []).append((self, nq, xq, k, idx))
        return dist, idx

    def _query_k(self, nq, xq, k):
        c = ctx()
        c.oblige("kdtree.query.k_le_n[%s]" % c.fresh_name("kd"), and_(k >= 1, k <= self.n), kind="domain")
        idx = havoc_array("kd_idxk", (nq, k), "i")
        ia = idx.snapshot()
        n = self.n
        S.assume(Forall((nq, k), lambda q, t: and_(ia(q, t) >= 0, ia(q, t) < n), name="kd.queryk.index_in_range"))
        # sorted by distance
        S.assume(Forall((nq, k), lambda q, t: implies(t >= 1, self.d2(xq(q), ia(q, t - 1)) <= self.d2(xq(q), ia(q, t))), name="kd.queryk.sorted"))
        # pairwise distinct neighbours (consecutive ones differ; with sortedness + the complement fact
        # distinctness of all pairs is stated directly)
        S.assume(Forall((nq, k, k), lambda q, s, t: implies(s != t, ia(q, s) != ia(q, t)), name="kd.queryk.distinct"))
        # every point that is not among the k neighbours is at least as far as the k-th
        kc = None if is_sym(k) else int(k)
        if kc is not None:
            S.assume(
                Forall((nq, n), lambda q, j: or_(*([j == ia(q, t) for t in range(kc)] + [self.d2(xq(q), ia(q, kc - 1)) <= self.d2(xq(q), j)])), name="kd.queryk.complement"),
            )
        else:
            member = z3.Function(c.fresh_name("kd_member"), z3.IntSort(), z3.IntSort(), z3.BoolSort())
            from .core import SymBool, to_z3

            S.assume(Forall((nq, k), lambda q, t: SymBool(member(to_z3(q), to_z3(ia(q, t)))), name="kd.queryk.member"))
            S.assume(
                Forall((nq, n), lambda q, j: or_(SymBool(member(to_z3(q), to_z3(j))), self.d2(xq(q), ia(q, k - 1)) <= self.d2(xq(q), j)), name="kd.queryk.complement"),
            )
        dist = new_array((nq, k), lambda i: spec_sqrt(self.d2(xq(i[0]), ia(i[0], i[1]))), "f")
        return dist, idx

    def query_ball_point(self, x, r, p=2.0, eps=0, workers=1, return_sorted=None, return_length=False):
        _use("spatial.cKDTree.query_ball_point")
        from .prelude_index import BallResult

        if p not in (float("inf"), 2, 2.0, 1, 1.0):
            raise Unsupported("query_ball_point with p=%r" % (p,))
        nq, xq, single = self._queries(x)
        return BallResult(self, nq, xq, r, single, p)


cKDTree = SymKDTree


class SymDelaunay(Proxy):
    """scipy.spatial.Delaunay(points).find_simplex(x) != -1  <=>  x lies in the convex hull of the points
    (points on the hull boundary may go either way).  in_hull is an uninterpreted predicate of the point
    set (identified by its written contents) and the query point."""

    def __init__(self, points, **kw):
        _use("spatial.Delaunay")
        from .core import array_text
        import hashlib

        pts = as_array(points)
        if pts.ndim != 2:
            raise ValueError("points must be 2-D")
        self.points = pts.copy()
        self.tag = hashlib.sha1(array_text(self.points).encode()).hexdigest()[:12]
        c = ctx()
        c.ghost.setdefault("delaunay", []).append(self)

    def in_hull(self, x, y):
        import z3

        from .core import SymBool, to_z3

        f = z3.Function("in_hull_" + self.tag, z3.RealSort(), z3.RealSort(), z3.BoolSort())
        return SymBool(f(to_z3(x, "real"), to_z3(y, "real")))

    def find_simplex(self, xi, **kw):
        _use("spatial.Delaunay.find_simplex")
        x = as_array(xi)
        if x.ndim != 2:
            raise Unsupported("find_simplex of a non 2-D query")
        xs = x.snapshot()
        simplex = havoc_array("simplex", (x.shape[0],), "i")
        ss = simplex.snapshot()
        S.assume(Forall((x.shape[0],), lambda q: and_(ss(q) >= -1, (ss(q) != -1) == self.in_hull(xs(q, 0), xs(q, 1))), name="delaunay.find_simplex"))
        return simplex


Delaunay = SymDelaunay
