"""pyvc core: symbolic scalars, path exploration, obligations, solver bridge.

Value domain V used everywhere (element functions, contract clauses):
python int/float/bool/Fraction  |  SymNum  |  SymBool.
Helpers ite/and_/or_/not_/implies stay symbolic and never branch; the ONLY place
where symbolic data meets CPython control flow is SymBool.__bool__.
"""
import itertools
import math
import os
import time
from fractions import Fraction

import z3

z3.set_param("pp.max_depth", 40)


class Unsupported(Exception):
    """The executed code left the subset the engine models (verdict: undecided)."""


class Proxy:
    """Base of every prelude object: an attribute the model does not have is an ENGINE gap
    (raised here, inside pyvc, so that it is classified as undecided), not behaviour of the code."""

    def __getattr__(self, name):
        if name.startswith("__") and name.endswith("__"):
            raise AttributeError(name)
        raise AttributeError("%s.%s is not modelled by the prelude" % (type(self).__name__, name))


class SpecError(Exception):
    """A contract clause is malformed (checker error, exit 3)."""


class PathAbort(BaseException):
    """Internal: abandon the current path (infeasible)."""


# --------------------------------------------------------------------------- ctx


class Obligation:
    __slots__ = ("name", "status", "seconds", "detail", "model", "kind", "backend", "formula_txt")

    def __init__(self, name, status, seconds=0.0, detail="", model=None, kind="post", backend="z3", formula_txt=""):
        self.name = name
        self.status = status  # discharged | refuted | unknown
        self.seconds = seconds
        self.detail = detail
        self.model = model
        self.kind = kind
        self.backend = backend
        self.formula_txt = formula_txt

    def as_dict(self):
        return {k: getattr(self, k) for k in self.__slots__}


class Ctx:
    current = None

    def __init__(self, prefix=(), timeout_ms=30000, label=""):
        self.prefix = list(prefix)
        self.decisions = []
        self.new_prefixes = []
        self.pc = []  # z3 bools: path condition
        self.assumptions = []  # z3 bools: requires, prelude posts, definitions
        self.universals = []  # (rank, fn(idx...)->V bool, name)
        self.index_pool = {}  # rank -> list of tuples of V ints
        self._index_seen = {}
        self._pool_depth = {}
        self._pool_version = 0
        self._inst_depth = None
        self._inst_done = set()
        self._inst_facts = []
        self._explicit = {}
        self.small_hints = []
        self.divmod_cache = {}
        self.sqrt_terms = {}
        self.sum_tags = {}
        self.stub_mode = 0
        self.inf_used = False
        self.crossexec = False  # proxy-vs-native cross execution: concrete arguments are computed numerically
        self.lemma_obligations = {}
        self.ghost = {}
        self._leaf_seen = {}
        self._leaf_access = {}
        self._probe = None
        self._patterns = {}
        self.obligations = []
        self.counters = {}
        self.events = []  # ("warn", category_name, message) ...
        self.writes = []  # (storage, description)
        self.in_spec = 0
        self.timeout_ms = timeout_ms
        self.label = label
        self.used_prelude = set()
        self.used_axioms = set()
        self.solver_seconds = 0.0
        self.solver_calls = 0
        self.concrete = False
        self.skolem_models = []
        self.defs = []

    # -- naming
    def fresh_name(self, base):
        n = self.counters.get(base, 0)
        self.counters[base] = n + 1
        return "%s!%d" % (base, n)

    def fresh(self, base, kind="real"):
        name = self.fresh_name(base)
        if kind == "int":
            return SymNum(z3.Int(name), "int")
        if kind == "bool":
            return SymBool(z3.Bool(name))
        return SymNum(z3.Real(name), "real")

    @property
    def replaying(self):
        return len(self.decisions) < len(self.prefix)

    # -- facts
    def assume(self, b, why=None):
        b = to_z3_bool(b)
        if z3.is_true(b):
            return
        self.assumptions.append(b)

    def add_universal(self, rank, fn, name=""):
        self.universals.append((rank, fn, name))

    MAX_INST_DEPTH = 2

    # ---- instantiation of universal facts: E-matching by hand ------------------------------
    # * explicit entries: goal Skolem indices, existential witnesses (touch_index)
    # * leaf accesses: every application of an input / havoc array (uninterpreted function) to
    #   an index tuple is logged (leaf_access); a universal is *probed* once with dummy indices
    #   to learn its patterns  leaf(.., d_k, ..)  and is then instantiated at every logged access
    #   of that leaf that binds all its dummies, and at every explicit entry of its rank.
    # * entries carry a generation depth (0 = occurs in program/goal; d+1 = first produced while
    #   instantiating at a depth-d entry); only depth <= MAX_INST_DEPTH is used.

    def in_spec_probe(self):
        return self._probe is not None

    def push_goal_scope(self):
        """Snapshot the instantiation state; Skolem indices / hints of one goal must not leak
        into the next goal of the same path."""
        return (
            {k: list(v) for k, v in self.index_pool.items()},
            dict(self._index_seen),
            dict(self._pool_depth),
            {k: list(v) for k, v in self._explicit.items()},
            dict(self._leaf_seen),
            {k: list(v) for k, v in self._leaf_access.items()},
            set(self._inst_done),
            list(self._inst_facts),
            len(self.assumptions),
            len(self.universals),
            dict(self._patterns),
            dict(self.divmod_cache),
            dict(self.sqrt_terms),
        )

    def pop_goal_scope(self, snap):
        (self.index_pool, self._index_seen, self._pool_depth, self._explicit, self._leaf_seen, self._leaf_access, self._inst_done, self._inst_facts, na, nu, self._patterns) = (
            snap[0], snap[1], snap[2], snap[3], snap[4], snap[5], snap[6], snap[7], snap[8], snap[9], snap[10],
        )
        del self.assumptions[na:]
        del self.universals[nu:]
        self.divmod_cache = snap[11]
        self.sqrt_terms = snap[12]
        self._pool_version += 1

    def _cur_depth(self):
        return 0 if self._inst_depth is None else self._inst_depth + 1

    def touch_index(self, idx, depth=None):
        """Register an explicit instantiation candidate (goal Skolem / witness index)."""
        rank = len(idx)
        if depth is None:
            depth = self._cur_depth()
        key = (rank,) + tuple(_key(i) for i in idx)
        old = self._index_seen.get(key)
        if old is not None and old <= depth:
            return
        self._index_seen[key] = depth
        if old is None:
            self.index_pool.setdefault(rank, []).append(tuple(idx))
            self._explicit.setdefault(rank, []).append(tuple(idx))
        self._pool_depth[key] = depth
        self._pool_version += 1

    def leaf_touch(self, leaf_id, idx):
        """Called by leaf arrays (uninterpreted functions) on every element access."""
        if self._probe is not None:
            self._probe.append((leaf_id, tuple(idx)))
            return
        depth = self._cur_depth()
        rank = len(idx)
        key = (leaf_id, rank) + tuple(_key(i) for i in idx)
        old = self._leaf_seen.get(key)
        if old is not None and old <= depth:
            return
        self._leaf_seen[key] = depth
        if old is None:
            self._leaf_access.setdefault(leaf_id, []).append(tuple(idx))
            pk = (rank,) + key[2:]
            if pk not in self._index_seen:
                self._index_seen[pk] = depth
                self._pool_depth[pk] = depth
                self.index_pool.setdefault(rank, []).append(tuple(idx))
        self._pool_version += 1

    def _probe_universal(self, rank, fn):
        dummies = tuple(SymNum(z3.Int("?d%d" % k), "int") for k in range(rank))
        self._probe = []
        self.in_spec += 1
        n_assumed = len(self.assumptions)
        n_univ = len(self.universals)
        saved_caches = (dict(self.divmod_cache), dict(self.sqrt_terms))
        try:
            try:
                fn(*dummies)
            except Exception:
                pass
            rec = self._probe
        finally:
            self._probe = None
            self.in_spec -= 1
            del self.assumptions[n_assumed:]
            del self.universals[n_univ:]
            self.divmod_cache, self.sqrt_terms = saved_caches
        pats = []
        seen = set()
        partial = {}
        for leaf_id, idx in rec:
            comp = []
            for i in idx:
                k = None
                if isinstance(i, SymNum):
                    for dk, d in enumerate(dummies):
                        if i.t.eq(d.t):
                            k = dk
                comp.append(k)
            bound = {k for k in comp if k is not None}
            if len(bound) == rank:
                sig = (leaf_id, tuple(comp))
                if sig not in seen:
                    seen.add(sig)
                    pats.append(sig)
            for pos, k in enumerate(comp):
                if k is not None:
                    partial.setdefault(k, set()).add((leaf_id, pos, len(comp)))
        if not pats and rank > 1 and len(partial) == rank:
            pats.append(("multi", tuple(sorted(partial[k]) for k in range(rank))))
        return pats

    def _candidates(self, ui, rank, pats):
        out = []
        for idx in self._explicit.get(rank, []):
            key = (rank,) + tuple(_key(i) for i in idx)
            out.append((idx, self._pool_depth.get(key, 0)))
        for leaf_id, comp in pats:
            if leaf_id == "multi":
                import itertools as _it

                per = []
                for srcs in comp:
                    vals, seen_v = [], set()
                    for lid, pos, ln in srcs:
                        for acc in self._leaf_access.get(lid, []):
                            if len(acc) != ln:
                                continue
                            d = self._leaf_seen.get((lid, ln) + tuple(_key(i) for i in acc), 0)
                            kk = _key(acc[pos])
                            if kk not in seen_v and d <= 1:
                                seen_v.add(kk)
                                vals.append((acc[pos], d))
                    per.append(vals[:10])
                for combo in _it.product(*per):
                    out.append((tuple(v for v, _ in combo), max(d for _, d in combo)))
                continue
            for acc in self._leaf_access.get(leaf_id, []):
                if len(acc) != len(comp):
                    continue
                key = (leaf_id, len(acc)) + tuple(_key(i) for i in acc)
                d = self._leaf_seen.get(key, 0)
                bind = [None] * rank
                for c, a in zip(comp, acc):
                    if c is not None:
                        bind[c] = a
                out.append((tuple(bind), d))
        return out

    def instantiate_universals(self):
        """Instantiate lazily-kept universal facts (cached along the path)."""
        while True:
            version = (self._pool_version, len(self.universals))
            for ui, (rank, fn, name) in enumerate(self.universals):
                if ui not in self._patterns:
                    self._patterns[ui] = self._probe_universal(rank, fn)
                for idx, d in self._candidates(ui, rank, self._patterns[ui]):
                    if d > self.MAX_INST_DEPTH:
                        continue
                    key = (ui,) + tuple(_key(i) for i in idx)
                    if key in self._inst_done:
                        continue
                    self._inst_done.add(key)
                    self.in_spec += 1
                    prev = self._inst_depth
                    self._inst_depth = d
                    try:
                        f = fn(*idx)
                    finally:
                        self._inst_depth = prev
                        self.in_spec -= 1
                    f = to_z3_bool(f)
                    if not z3.is_true(f):
                        self._inst_facts.append(f)
            if version == (self._pool_version, len(self.universals)):
                break
        return list(self._inst_facts)

    def facts(self):
        inst = self.instantiate_universals()
        return list(self.assumptions) + list(self.pc) + inst

    # -- solver
    def check(self, extra, timeout_ms=None):
        """Return ('sat'|'unsat'|'unknown', model|None).

        Portfolio: (1) z3 with non-linear reasoning switched off (monomials are opaque: an
        abstraction, so `unsat` is sound; anything else is inconclusive), short timeout;
        (2) z3 default with the full timeout, whose sat/unsat answers are final."""
        fs = self.facts() + list(extra)
        tmo = int(timeout_ms or self.timeout_ms)
        t0 = time.time()
        try:
            s = z3.Solver()
            s.set("timeout", min(tmo, 4000))
            s.set("arith.nl", False)
            for f in fs:
                s.add(f)
            r = s.check()
            if r == z3.unsat:
                self.last_backend = "z3(linear abstraction)"
                return "unsat", None
            # z3's non-linear engine is seed sensitive: default seed first, then a few more seeds
            budget = [(0, min(tmo, 10000))] + ([(sd, min(tmo, 8000)) for sd in (1, 2, 3)] if tmo > 10000 else [])
            for seed, t_ms in budget:
                s = z3.Solver()
                s.set("timeout", t_ms)
                if seed:
                    s.set("random_seed", seed)
                    s.set("smt.random_seed", seed)
                for f in fs:
                    s.add(f)
                r = s.check()
                if r != z3.unknown:
                    break
            self.last_backend = "z3"
            if r == z3.sat:
                return "sat", s.model()
            if r == z3.unsat:
                return "unsat", None
            dump = os.environ.get("VERIF_DUMP")
            if dump:
                with open(os.path.join(dump, "q%d_%d.smt2" % (os.getpid(), self.solver_calls)), "w") as fh:
                    fh.write(s.to_smt2())
            return "unknown", None
        finally:
            self.solver_seconds += time.time() - t0
            self.solver_calls += 1

    def feasible(self, cond):
        r, _ = self.check([cond], timeout_ms=min(self.timeout_ms, 10000))
        return r != "unsat"

    # -- branching
    def branch(self, cond):
        """cond: z3 Bool. Decide which way to go on this path."""
        cond = z3.simplify(cond)
        if z3.is_true(cond):
            return True
        if z3.is_false(cond):
            return False
        if self.in_spec:
            raise SpecError("contract clause branched on a symbolic value: %s" % cond)
        pos = len(self.decisions)
        if pos < len(self.prefix):
            d = self.prefix[pos]
        else:
            t_ok = self.feasible(cond)
            f_ok = self.feasible(z3.Not(cond))
            if t_ok and f_ok:
                d = True
                self.new_prefixes.append(self.decisions + [False])
            elif t_ok:
                d = True
            elif f_ok:
                d = False
            else:
                raise PathAbort()
        self.decisions.append(d)
        self.pc.append(cond if d else z3.Not(cond))
        return d

    # -- obligations
    PROVE_KINDS = None  # None = everything; else the set of obligation kinds that are discharged in this run

    def oblige(self, name, goal, kind="post", hyps=()):
        """Prove `goal` (V bool / z3 Bool) under the current facts (+hyps)."""
        if self.replaying:
            return None  # already checked on the parent path with identical state
        if Ctx.PROVE_KINDS is not None and kind not in Ctx.PROVE_KINDS:
            return None  # roll-up runs (C20) only discharge the obligation kinds they are about
        g = to_z3_bool(goal)
        hyps = [to_z3_bool(h) for h in hyps]
        t0 = time.time()
        if z3.is_true(z3.simplify(g)):
            ob = Obligation(name, "discharged", 0.0, kind=kind, backend="simplify", formula_txt="True")
            self.obligations.append(ob)
            return ob
        r, model = self.check(hyps + [z3.Not(g)])
        dt = time.time() - t0
        txt = _short(g)
        if r == "unsat":
            ob = Obligation(name, "discharged", dt, kind=kind, formula_txt=txt, backend=getattr(self, "last_backend", "z3"))
        elif r == "sat":
            # prefer a small counter-model (array sizes <= 3, then <= 6) so that it can be replayed
            for bound in (3, 6):
                if not self.small_hints:
                    break
                r2, m2 = self.check(hyps + [z3.Not(g)] + [h.t <= bound for h in self.small_hints], timeout_ms=5000)
                if r2 == "sat":
                    model = m2
                    break
            ob = Obligation(name, "refuted", dt, detail=_model_txt(model), model=model, kind=kind, formula_txt=txt)
        else:
            r2 = self._second_opinion(hyps + [z3.Not(g)])
            if r2 == "unsat":
                ob = Obligation(name, "discharged", time.time() - t0, kind=kind, backend="z3-nlsat/cvc5", formula_txt=txt)
            else:
                ob = Obligation(name, "unknown", time.time() - t0, detail="solver returned unknown", kind=kind, formula_txt=txt)
        self.obligations.append(ob)
        return ob

    def _second_opinion(self, extra):
        """Retry an `unknown` query with other z3 tactics. Returns 'unsat'/'sat'/'unknown'."""
        fs = self.facts() + list(extra)
        for tac in ("qfnra-nlsat", "smt"):
            try:
                s = z3.Tactic(tac).solver()
                s.set("timeout", int(self.timeout_ms))
                for f in fs:
                    s.add(f)
                r = s.check()
                if r == z3.unsat:
                    return "unsat"
            except z3.Z3Exception:
                continue
        return "unknown"

    def fail(self, name, detail, kind="frame"):
        if self.replaying:
            return
        r, model = self.check([])
        self.obligations.append(
            Obligation(name, "refuted", 0.0, detail=detail + "\n" + (_model_txt(model) if model is not None else ""), model=model, kind=kind)
        )

    def ok(self, name, kind="frame", txt=""):
        if self.replaying:
            return
        self.obligations.append(Obligation(name, "discharged", 0.0, kind=kind, backend="structural", formula_txt=txt))


def _short(t, n=400):
    s = str(t).replace("\n", " ")
    s = " ".join(s.split())
    return s if len(s) <= n else s[:n] + "..."


def _model_txt(model):
    if model is None:
        return ""
    items = []
    for d in model.decls():
        try:
            items.append("%s = %s" % (d.name(), model[d]))
        except Exception:
            pass
    items.sort()
    return "; ".join(items)[:4000]


def _key(v):
    if isinstance(v, SymNum):
        return ("s", v.t.get_id())
    return ("c", v)


def ctx():
    c = Ctx.current
    if c is None:
        raise RuntimeError("no active verification context")
    return c


# ----------------------------------------------------------------------- scalars


def _frac(x):
    if isinstance(x, bool):
        return Fraction(int(x))
    if isinstance(x, int):
        return Fraction(x)
    if isinstance(x, Fraction):
        return x
    if isinstance(x, float):
        if math.isnan(x) or math.isinf(x):
            raise Unsupported("non-finite float constant %r" % x)
        return Fraction(repr(x))
    raise TypeError(x)


_POS_INF = z3.Real("INF!pos")


def _mentions_inf(t):
    try:
        from z3.z3util import get_vars

        return any(v.eq(_POS_INF) for v in get_vars(t))
    except Exception:
        return False


def is_sym(x):
    return isinstance(x, (SymNum, SymBool))


def is_num(x):
    import numpy as _np

    return isinstance(x, (int, float, Fraction, SymNum, _np.integer, _np.floating)) and not isinstance(x, bool) or isinstance(x, bool)


def kind_of(x):
    if isinstance(x, SymNum):
        return x.kind
    if isinstance(x, SymBool) or isinstance(x, bool):
        return "bool"
    if isinstance(x, int):
        return "int"
    import numpy as _np

    if isinstance(x, _np.integer):
        return "int"
    if isinstance(x, _np.bool_):
        return "bool"
    return "real"


def to_z3(x, want=None):
    """V -> z3 arithmetic term."""
    if isinstance(x, SymNum):
        t = x.t
        if want == "real" and x.kind == "int":
            return z3.ToReal(t)
        return t
    if isinstance(x, SymBool):
        return z3.If(x.t, z3.IntVal(1), z3.IntVal(0))
    if isinstance(x, bool):
        x = int(x)
    import numpy as _np

    if isinstance(x, _np.generic):
        x = x.item()
    if isinstance(x, int):
        return z3.RealVal(x) if want == "real" else z3.IntVal(x)
    if isinstance(x, float) and math.isinf(x):
        # +-inf: a distinguished real that exceeds (in magnitude) every finite value it is COMPARED with (the fact is
        # added at each comparison); arithmetic on it is not given float semantics (inf + 1 == inf is not modelled)
        c = Ctx.current
        if c is not None:
            c.inf_used = True
            c.used_axioms.add("float inf: a real constant greater than every finite value it is compared with")
        return _POS_INF if x > 0 else -_POS_INF
    f = _frac(x)
    return z3.RealVal(str(f))


def to_z3_bool(x):
    if isinstance(x, SymBool):
        return x.t
    if isinstance(x, bool):
        return z3.BoolVal(x)
    import numpy as _np

    if isinstance(x, _np.bool_):
        return z3.BoolVal(bool(x))
    if z3.is_expr(x) and z3.is_bool(x):
        return x
    if isinstance(x, SymNum):
        return x.t != 0
    if isinstance(x, (int, float)):
        return z3.BoolVal(bool(x))
    raise SpecError("not a boolean: %r" % (x,))


def _coerce2(a, b):
    ka, kb = kind_of(a), kind_of(b)
    k = "real" if "real" in (ka, kb) else "int"
    return to_z3(a, k), to_z3(b, k), k


class SymBool:
    __slots__ = ("t",)

    def __init__(self, t):
        self.t = t

    def __bool__(self):
        return ctx().branch(self.t)

    def __and__(self, o):
        return SymBool(z3.And(self.t, to_z3_bool(o)))

    __rand__ = __and__

    def __or__(self, o):
        return SymBool(z3.Or(self.t, to_z3_bool(o)))

    __ror__ = __or__

    def __invert__(self):
        return SymBool(z3.Not(self.t))

    def __eq__(self, o):
        return SymBool(self.t == to_z3_bool(o))

    def __ne__(self, o):
        return SymBool(self.t != to_z3_bool(o))

    def __hash__(self):
        raise Unsupported("hash of a symbolic bool")

    def __repr__(self):
        return "SymBool(%s)" % _short(self.t, 80)

    # numeric use of booleans (True == 1)
    def _num(self):
        return SymNum(z3.If(self.t, z3.IntVal(1), z3.IntVal(0)), "int")

    def __add__(self, o):
        return self._num() + o

    __radd__ = __add__

    def __mul__(self, o):
        return self._num() * o

    __rmul__ = __mul__


def _numeric(x):
    if isinstance(x, SymBool):
        return x._num()
    return x


class SymNum:
    __slots__ = ("t", "kind")
    __array_priority__ = 1000

    def __init__(self, t, kind):
        self.t = t
        self.kind = kind

    # ---- representation
    def __repr__(self):
        return "<%s>" % _short(self.t, 60)

    __str__ = __repr__

    def __format__(self, spec):
        return repr(self)

    def __hash__(self):
        raise Unsupported("hash of a symbolic number")

    def __index__(self):
        v = concrete_value(self)
        if v is None:
            # a symbolic integer used to index a python sequence: when the path condition bounds it to a few values
            # (e.g. the position of a minimum among 2-3 candidates) split the path per value; otherwise undecided
            c = Ctx.current
            if c is not None and self.kind == "int" and not c.in_spec:
                lo_ok, _ = c.check([z3.Not(z3.And(self.t >= 0, self.t < 6))], timeout_ms=2000)
                if lo_ok == "unsat":
                    for k in range(6):
                        if self == k:
                            return k
            raise Unsupported("symbolic number used as a concrete index/size: %s" % self)
        return int(v)

    def __int__(self):
        v = concrete_value(self)
        if v is None:
            raise Unsupported("int() of a symbolic number without the patched builtin")
        return int(v)

    def __float__(self):
        v = concrete_value(self)
        if v is None:
            raise Unsupported("float() of a symbolic number")
        return float(v)

    def __bool__(self):
        return ctx().branch(self.t != 0)

    # ---- arithmetic
    def _bin(self, o, op, swap=False):
        o = _numeric(o)
        if not isinstance(o, (SymNum, int, float, Fraction)):
            import numpy as _np

            if isinstance(o, _np.generic):
                o = o.item()
            else:
                return NotImplemented
        a, b = (o, self) if swap else (self, o)
        x, y, k = _coerce2(a, b)
        return SymNum(z3.simplify(op(x, y)), k)

    def __add__(self, o):
        return self._bin(o, lambda x, y: x + y)

    def __radd__(self, o):
        return self._bin(o, lambda x, y: x + y, True)

    def __sub__(self, o):
        return self._bin(o, lambda x, y: x - y)

    def __rsub__(self, o):
        return self._bin(o, lambda x, y: x - y, True)

    def __mul__(self, o):
        return self._bin(o, lambda x, y: x * y)

    def __rmul__(self, o):
        return self._bin(o, lambda x, y: x * y, True)

    def __neg__(self):
        return SymNum(-self.t, self.kind)

    def __pos__(self):
        return self

    def __abs__(self):
        return SymNum(z3.If(self.t >= 0, self.t, -self.t), self.kind)

    def __truediv__(self, o):
        return NotImplemented if _not_scalar(o) else div(self, o)

    def __rtruediv__(self, o):
        return NotImplemented if _not_scalar(o) else div(o, self)

    def __floordiv__(self, o):
        return NotImplemented if _not_scalar(o) else floordiv(self, o)

    def __rfloordiv__(self, o):
        return NotImplemented if _not_scalar(o) else floordiv(o, self)

    def __mod__(self, o):
        return NotImplemented if _not_scalar(o) else mod(self, o)

    def __rmod__(self, o):
        return NotImplemented if _not_scalar(o) else mod(o, self)

    def __pow__(self, o):
        return NotImplemented if _not_scalar(o) else power(self, o)

    def __rpow__(self, o):
        return NotImplemented if _not_scalar(o) else power(o, self)

    def __round__(self, ndigits=None):
        if ndigits is not None:
            raise Unsupported("round with ndigits")
        return round_half_even(self)

    # ---- comparisons
    def _cmp(self, o, op):
        o = _numeric(o)
        if o is None:
            return NotImplemented
        if not isinstance(o, (SymNum, int, float, Fraction)):
            import numpy as _np

            if isinstance(o, _np.generic):
                o = o.item()
            else:
                return NotImplemented
        x, y, _ = _coerce2(self, o)
        c = Ctx.current
        if c is not None and getattr(c, "inf_used", False):
            mx, my = _mentions_inf(x), _mentions_inf(y)
            if mx != my:
                fin = y if mx else x
                fin = z3.ToReal(fin) if fin.sort() == z3.IntSort() else fin
                c.assume(SymBool(z3.And(_POS_INF > fin, _POS_INF > -fin)))
        return SymBool(z3.simplify(op(x, y)))

    def __lt__(self, o):
        return self._cmp(o, lambda x, y: x < y)

    def __le__(self, o):
        return self._cmp(o, lambda x, y: x <= y)

    def __gt__(self, o):
        return self._cmp(o, lambda x, y: x > y)

    def __ge__(self, o):
        return self._cmp(o, lambda x, y: x >= y)

    def __eq__(self, o):
        r = self._cmp(o, lambda x, y: x == y)
        if r is NotImplemented:
            return False
        return r

    def __ne__(self, o):
        r = self._cmp(o, lambda x, y: x != y)
        if r is NotImplemented:
            return True
        return r

    # numpy-scalar look-alikes
    @property
    def shape(self):
        return ()

    @property
    def ndim(self):
        return 0

    @property
    def size(self):
        return 1

    @property
    def dtype(self):
        from .arr import DType

        return DType("i" if self.kind == "int" else "f")

    def ravel(self):
        from .arr import scalar_to_arr

        return scalar_to_arr(self).ravel()

    def copy(self):
        return self

    def item(self):
        return self


def _not_scalar(o):
    import numpy as _np

    return not isinstance(o, (SymNum, SymBool, int, float, Fraction, bool, _np.generic))


def concrete_value(x):
    """Return a python number if x is a literal constant, else None."""
    if isinstance(x, SymNum):
        t = z3.simplify(x.t)
        if z3.is_int_value(t):
            return t.as_long()
        if z3.is_rational_value(t):
            return Fraction(t.numerator_as_long(), t.denominator_as_long())
        return None
    if isinstance(x, SymBool):
        t = z3.simplify(x.t)
        if z3.is_true(t):
            return True
        if z3.is_false(t):
            return False
        return None
    return x


def lift(x):
    """Simplify a V: turn constant SymNums back into python numbers."""
    v = concrete_value(x)
    if v is None:
        return x
    if isinstance(v, Fraction) and v.denominator == 1 and isinstance(x, SymNum) and x.kind == "int":
        return int(v)
    return v


# ---- non-branching logical helpers over V


def and_(*xs):
    xs = [x for x in xs]
    if all(isinstance(x, bool) for x in xs):
        return all(xs)
    return SymBool(z3.And(*[to_z3_bool(x) for x in xs]))


def or_(*xs):
    if all(isinstance(x, bool) for x in xs):
        return any(xs)
    return SymBool(z3.Or(*[to_z3_bool(x) for x in xs]))


def not_(x):
    if isinstance(x, bool):
        return not x
    return SymBool(z3.Not(to_z3_bool(x)))


def implies(a, b):
    if isinstance(a, bool) and isinstance(b, bool):
        return (not a) or b
    if isinstance(a, bool):
        return b if a else True
    return SymBool(z3.Implies(to_z3_bool(a), to_z3_bool(b)))


def iff(a, b):
    if isinstance(a, bool) and isinstance(b, bool):
        return a == b
    return SymBool(to_z3_bool(a) == to_z3_bool(b))


def ite(c, a, b):
    if isinstance(c, bool):
        return a if c else b
    import numpy as _np

    if isinstance(c, _np.bool_):
        return a if c else b
    cv = concrete_value(c)
    if cv is not None and isinstance(c, SymBool):
        return a if cv else b
    cb = to_z3_bool(c)
    if kind_of(a) == "bool" and kind_of(b) == "bool":
        return SymBool(z3.If(cb, to_z3_bool(a), to_z3_bool(b)))
    x, y, k = _coerce2(_numeric(a), _numeric(b))
    return SymNum(z3.If(cb, x, y), k)


def eq(a, b):
    r = _numeric(a) == _numeric(b) if not (kind_of(a) == "bool" and kind_of(b) == "bool") else iff(a, b)
    return r


# ---- arithmetic with Python semantics


def _is_const(x):
    return not isinstance(x, (SymNum, SymBool))


def div(a, b):
    """Python true division; emits a division-by-zero obligation for symbolic divisors."""
    a, b = _numeric(a), _numeric(b)
    if _is_const(a) and _is_const(b):
        return Fraction(_frac(a)) / Fraction(_frac(b)) if not isinstance(a, float) and not isinstance(b, float) else a / b
    x = to_z3(a, "real")
    y = to_z3(b, "real")
    if _is_const(b):
        if b == 0:
            raise ZeroDivisionError("division by zero")
    else:
        c = ctx()
        if not c.in_spec and not c.concrete:
            c.oblige("div.nonzero[%s]" % c.fresh_name("d"), b != 0, kind="domain")
    return SymNum(z3.simplify(x / y), "real")


def floordiv(a, b):
    a, b = _numeric(a), _numeric(b)
    if _is_const(a) and _is_const(b):
        return a // b
    ka, kb = kind_of(a), kind_of(b)
    c = ctx()
    if not _is_const(b) and not c.in_spec:
        c.oblige("floordiv.nonzero[%s]" % c.fresh_name("d"), b != 0, kind="domain")
    if ka == "int" and kb == "int":
        x, y = to_z3(a), to_z3(b)
        # z3 div is Euclidean (remainder >= 0); python floors.
        if _is_const(b) and b > 0:
            return SymNum(x / y, "int")
        q = z3.If(y > 0, x / y, z3.If(x % y == 0, x / y, (x / y)))
        # for y<0: euclidean q_e satisfies x = y*q_e + r, 0<=r<|y|; floor = q_e if r==0 else q_e - 1 ... careful:
        q = z3.If(y > 0, x / y, z3.If(x % y == 0, x / y, x / y - 1))
        return SymNum(q, "int")
    x, y = to_z3(a, "real"), to_z3(b, "real")
    return SymNum(z3.ToReal(z3.ToInt(x / y)), "real")


def mod(a, b):
    """Python floor modulo: result has the sign of the divisor."""
    a, b = _numeric(a), _numeric(b)
    if _is_const(a) and _is_const(b):
        return a % b
    ka, kb = kind_of(a), kind_of(b)
    c = ctx()
    if not _is_const(b) and not c.in_spec:
        c.oblige("mod.nonzero[%s]" % c.fresh_name("d"), b != 0, kind="domain")
    if ka == "int" and kb == "int":
        x, y = to_z3(a), to_z3(b)
        if _is_const(b) and b > 0:
            return SymNum(x % y, "int")
        r = x % y  # euclidean: 0 <= r < |y|
        return SymNum(z3.If(z3.Or(y > 0, r == 0), r, r + y), "int")
    x, y = to_z3(a, "real"), to_z3(b, "real")
    return SymNum(z3.simplify(x - y * z3.ToReal(z3.ToInt(x / y))), "real")


def round_half_even(x):
    """Python round(x): nearest integer, ties to even. Returns an int-kind V."""
    if _is_const(x):
        return round(x)
    if x.kind == "int":
        return x
    c = ctx()
    n = c.fresh("round", "int")
    xr = x.t
    nr = z3.ToReal(n.t)
    c.assume(z3.And(xr - nr <= z3.RealVal("1/2"), nr - xr <= z3.RealVal("1/2")))
    c.assume(z3.Implies(z3.Or(xr - nr == z3.RealVal("1/2"), nr - xr == z3.RealVal("1/2")), n.t % 2 == 0))
    c.used_axioms.add("round(x): |x-n|<=1/2, ties to even (python semantics over the reals)")
    return n


def trunc_int(x):
    """Python int(x) for numbers: truncation toward zero."""
    x = _numeric(x)
    if _is_const(x):
        return int(x)
    if x.kind == "int":
        return x
    f = z3.ToInt(x.t)
    return SymNum(z3.If(x.t >= 0, f, -z3.ToInt(-x.t)), "int")


def floor_int(x):
    x = _numeric(x)
    if _is_const(x):
        return math.floor(x)
    if x.kind == "int":
        return x
    return SymNum(z3.ToInt(x.t), "int")


_UF = {}


def uf(name, arity, rng="real"):
    key = (name, arity, rng)
    if key not in _UF:
        sorts = [z3.RealSort()] * arity + [z3.RealSort() if rng == "real" else z3.IntSort()]
        _UF[key] = z3.Function(name, *sorts)
    return _UF[key]


def power(a, b):
    a, b = _numeric(a), _numeric(b)
    if _is_const(a) and _is_const(b):
        return a**b
    if _is_const(b) and isinstance(b, int) and 0 <= b <= 8:
        if b == 0:
            return 1 if kind_of(a) == "int" else 1.0
        r = a
        for _ in range(b - 1):
            r = r * a
        return r
    if _is_const(b) and isinstance(b, int) and -4 <= b < 0:
        return div(1, power(a, -b))
    return spec_pow(a, b)


def pow_in_range(a, b):
    """A general real power is the one operation in this code base whose float64 result leaves the
    finite range for moderate operands (x**x is inf from x ~ 143.3): the code under contract must keep
    y*ln(x) below ln(DBL_MAX) ~ 709.78 (the other disjuncts are the linear special cases)."""
    a, b = _numeric(a), _numeric(b)
    if _is_const(b) and isinstance(b, int) and -4 <= b <= 8:
        return True
    if _is_const(a) and _is_const(b):
        return True
    x, y = to_z3(a, "real"), to_z3(b, "real")
    lg = uf("log", 1)
    return SymBool(z3.Or(x <= 0, z3.And(x <= 1, y >= 0), z3.And(x >= 1, y <= 0), y * lg(x) <= 709))


def spec_pow(a, b):
    """General real power as an uninterpreted function with on-demand facts."""
    c = ctx()
    if c.crossexec and _is_const(a) and _is_const(b):
        return float(a) ** float(b)
    f = uf("pow", 2)
    x, y = to_z3(a, "real"), to_z3(b, "real")
    r = f(x, y)
    lg = uf("log", 1)
    c.assume(z3.Implies(x > 0, z3.And(r > 0, lg(r) == y * lg(x))))
    c.assume(z3.Implies(z3.And(x == 0, y == 0), r == 1))
    c.assume(z3.Implies(z3.And(x == 0, y > 0), r == 0))
    c.assume(z3.Implies(y == 1, r == x))
    c.assume(z3.Implies(z3.And(x > 0, x <= 1), lg(x) <= 0))
    c.assume(z3.Implies(x >= 1, z3.And(lg(x) >= 0, lg(x) <= x - 1)))
    c.used_axioms.add("pow: x>0 => pow(x,y)>0 and log(pow(x,y)) = y*log(x); pow(0,0)=1; pow(0,y>0)=0; pow(x,1)=x; log(x)<=0 on (0,1], 0<=log(x)<=x-1 on [1,inf)")
    if not c.in_spec and not c.stub_mode:
        c.oblige("pow.result_stays_in_the_float64_range[%s]" % c.fresh_name("pw"), pow_in_range(a, b), kind="domain")
    return SymNum(r, "real")


def spec_log(a):
    c = ctx()
    if c.crossexec and _is_const(_numeric(a)):
        return math.log(a) if a > 0 else float("-inf")
    x = to_z3(_numeric(a), "real")
    if _is_const(a):
        if a <= 0:
            raise Unsupported("log of a non-positive constant")
        if a == 1:
            return 0.0
    lg = uf("log", 1)
    c.assume(lg(z3.RealVal(1)) == 0)
    c.used_axioms.add("log: log(1)=0 (otherwise uninterpreted)")
    return SymNum(lg(x), "real")


def spec_sqrt(a):
    c = ctx()
    a = _numeric(a)
    if c.crossexec and _is_const(a):
        return math.sqrt(a) if a >= 0 else float("nan")
    if _is_const(a):
        r = math.isqrt(int(a)) if isinstance(a, int) and a >= 0 else None
        if r is not None and r * r == a:
            return float(r)
    x = to_z3(a, "real")
    f = uf("sqrt", 1)
    r = f(x)
    c.assume(z3.Implies(x >= 0, z3.And(r >= 0, r * r == x)))
    # monotonicity, instantiated pairwise at the sqrt terms that occur on this path
    key = x.get_id()
    if key not in c.sqrt_terms:
        for (ox, orr) in c.sqrt_terms.values():
            c.assume(z3.Implies(z3.And(ox >= 0, x >= 0), z3.And((ox <= x) == (orr <= r), (ox == x) == (orr == r))))
        c.sqrt_terms[key] = (x, r)
    c.used_axioms.add("sqrt: x>=0 => sqrt(x)>=0 and sqrt(x)^2 = x; sqrt is strictly increasing on x>=0")
    return SymNum(r, "real")


def sqdist(p, q, define=False):
    """Squared Euclidean distance between two points (tuples of V).

    Symbolically an OPAQUE spec function sqd(p, q) with the facts sqd >= 0 and p == q => sqd == 0,
    so that nearest-neighbour reasoning stays linear; `define=True` additionally states the
    defining polynomial for these particular arguments (used where geometry is needed)."""
    p = [_numeric(v) for v in p]
    q = [_numeric(v) for v in q]
    if not any(is_sym(v) for v in p + q):
        return sum((a - b) * (a - b) for a, b in zip(p, q))
    c = ctx()
    args = [to_z3(v, "real") for v in p + q]
    f = uf("sqd%d" % len(p), len(args))
    r = f(*args)
    same = z3.And(*[to_z3(a, "real") == to_z3(b, "real") for a, b in zip(p, q)])
    c.assume(z3.And(r >= 0, z3.Implies(same, r == 0)))
    # symmetry
    r2 = f(*([to_z3(v, "real") for v in q + p]))
    c.assume(r == r2)
    if define:
        poly = 0
        for a, b in zip(p, q):
            poly = poly + (a - b) * (a - b)
        c.assume(SymNum(r, "real") == poly)
    c.used_axioms.add("sqd(p,q) (squared Euclidean distance) is opaque: sqd >= 0, sqd(p,p) = 0, symmetric; defining polynomial stated only where geometry is needed")
    return SymNum(r, "real")


_NUMERIC_FNS = {"sin": math.sin, "cos": math.cos, "hypot": math.hypot, "arctan2": math.atan2}


def spec_fn(name, *args, facts=None):
    """Generic uninterpreted real function application."""
    if name in _NUMERIC_FNS and all(_is_const(_numeric(a)) for a in args):
        c = Ctx.current
        if c is not None and c.crossexec:
            return _NUMERIC_FNS[name](*[float(a) for a in args])
    f = uf(name, len(args))
    r = f(*[to_z3(_numeric(a), "real") for a in args])
    return SymNum(r, "real")


def sym_abs(x):
    x = _numeric(x)
    if _is_const(x):
        return abs(x)
    return abs(x)


def vmin(a, b):
    return ite(a <= b, a, b)


def vmax(a, b):
    return ite(a >= b, a, b)


# ------------------------------------------------------------ builtin stand-ins


def sym_int(x=0, *a):
    if a:
        return int(x, *a)
    if isinstance(x, (SymNum, SymBool)):
        return trunc_int(x)
    from .prelude_io import SymToken

    if isinstance(x, SymToken):
        return x.as_int()
    return int(x)


def sym_float(x=0.0):
    if isinstance(x, SymNum):
        if x.kind == "int":
            return SymNum(z3.ToReal(x.t), "real")
        return x
    from .prelude_io import SymToken

    if isinstance(x, SymToken):
        return x.as_float()
    return float(x)


def sym_len(x):
    from .arr import SymArr

    if isinstance(x, SymArr):
        if not x.shape:
            raise TypeError("len() of unsized object")
        return lift(x.shape[0])
    return len(x)


# ------------------------------------------------------------------- exploration


class PathResult:
    def __init__(self, c, outcome, exc=None):
        self.decisions = list(c.decisions)
        self.obligations = c.obligations + ([] if c.prefix else list(c.lemma_obligations.values()))
        self.outcome = outcome
        self.exc = exc
        self.events = c.events
        self.used_prelude = c.used_prelude
        self.used_axioms = c.used_axioms
        self.solver_seconds = c.solver_seconds
        self.solver_calls = c.solver_calls


def explore(run_path, max_paths=400, timeout_ms=30000, label=""):
    """Depth-first exploration over decision prefixes. run_path(ctx) runs one path."""
    queue = [[]]
    results = []
    while queue:
        if len(results) >= max_paths:
            raise Unsupported("path budget exceeded (%d) in %s" % (max_paths, label))
        prefix = queue.pop()
        c = Ctx(prefix, timeout_ms=timeout_ms, label=label)
        Ctx.current = c
        try:
            outcome = run_path(c)
            results.append(PathResult(c, outcome))
        except PathAbort:
            pass
        finally:
            Ctx.current = None
        queue.extend(c.new_prefixes)
    return results


# ------------------------------------------------------------------ opaque functions of whole arrays

_OPAQUE = {}


def array_text(arr):
    """Canonical text of an array's contents: its shape and its element expression at a bound index."""
    from .arr import SymArr

    if arr is None:
        return "None"
    if not isinstance(arr, SymArr):
        return repr(arr)
    c = ctx()
    idx = [SymNum(z3.Int("i%d!" % k), "int") for k in range(arr.ndim)]
    c.native_divmod = getattr(c, "native_divmod", 0) + 1
    c.in_spec += 1
    try:
        v = arr.at(*idx)
    finally:
        c.in_spec -= 1
        c.native_divmod -= 1
    shape = ",".join(str(z3.simplify(to_z3(n))) if is_sym(n) else str(n) for n in arr.shape)
    body = z3.simplify(to_z3(_numeric(v), "real")).sexpr() if not isinstance(v, (bool,)) else str(v)
    return "[%s]%s" % (shape, body)


def opaque_of_arrays(name, *arrays):
    """An uninterpreted real determined by the CONTENTS of whole arrays: one constant per distinct
    canonical text, so two applications are the same term exactly when their arguments are written the same."""
    import hashlib

    sig = name + "|" + "|".join(array_text(a) for a in arrays)
    key = "%s_%s" % (name, hashlib.sha1(sig.encode()).hexdigest()[:12])
    if key not in _OPAQUE:
        _OPAQUE[key] = z3.Real(key)
    return SymNum(_OPAQUE[key], "real")
