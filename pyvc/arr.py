"""SymArr: ndarray proxy with symbolic sizes, element functions, views and a write log."""
import itertools

import z3

from .core import (
    SymBool,
    SymNum,
    SpecError,
    Unsupported,
    and_,
    concrete_value,
    ctx,
    div,
    floordiv,
    implies,
    is_sym,
    ite,
    kind_of,
    lift,
    mod,
    not_,
    or_,
    power,
    to_z3,
    to_z3_bool,
    _numeric,
)


class DType:
    """dtype *kind* only: 'f' float, 'i' int, 'b' bool, 'O' object."""

    def __init__(self, kind):
        self.kind = kind

    def __eq__(self, o):
        return isinstance(o, DType) and o.kind == self.kind or (isinstance(o, str) and parse_dtype(o).kind == self.kind)

    def __hash__(self):
        return hash(self.kind)

    def __repr__(self):
        return {"f": "float64", "i": "int64", "b": "bool", "O": "object"}[self.kind]

    @property
    def name(self):
        return repr(self)


def parse_dtype(d, default="f"):
    if d is None:
        return DType(default)
    if isinstance(d, DType):
        return d
    if d is bool:
        return DType("b")
    if d is int:
        return DType("i")
    if d is float:
        return DType("f")
    if d is object:
        return DType("O")
    if isinstance(d, str):
        s = d.lower()
        if s.startswith("float") or s in ("f", "f8", "f4", "d"):
            return DType("f")
        if s.startswith("int") or s.startswith("uint") or s in ("i", "i8", "i4"):
            return DType("i")
        if s.startswith("bool") or s == "b":
            return DType("b")
        if s in ("object", "o"):
            return DType("O")
    import numpy as _np

    try:
        k = _np.dtype(d).kind
        return DType({"f": "f", "i": "i", "u": "i", "b": "b", "O": "O"}[k])
    except Exception:
        raise Unsupported("dtype %r" % (d,))


def cast_value(v, kind):
    """Value conversion on item assignment / astype."""
    from .core import trunc_int

    vk = kind_of(v)
    if kind == "O":
        return v
    if kind == "f":
        if vk == "bool":
            return _numeric(v) if is_sym(v) else float(v)
        if isinstance(v, SymNum) and v.kind == "int":
            return SymNum(z3.ToReal(v.t), "real")
        return v
    if kind == "i":
        if vk == "real":
            return trunc_int(v)
        if vk == "bool":
            return _numeric(v) if is_sym(v) else int(v)
        return v
    if kind == "b":
        if vk == "bool":
            return v
        return _numeric(v) != 0
    return v


_storage_ids = itertools.count()


class Storage:
    def __init__(self, shape, fn, kind, owner="fresh", name=None):
        self.id = next(_storage_ids)
        self.shape = tuple(shape)
        self.fn = fn  # idx tuple (V ints) -> V
        self.kind = kind
        self.owner = owner  # 'input:<name>' | 'fresh' | 'stub:<name>'
        self.name = name or ("s%d" % self.id)
        self.nwrites = 0
        self.readonly = False
        self.nan = None  # optional idx->V bool: element is NaN


def _prod(dims):
    r = 1
    for d in dims:
        r = r * d
    return lift(r)


def _same_dim(a, b):
    """Python-level check whether two dims are syntactically identical."""
    ca, cb = concrete_value(a), concrete_value(b)
    if ca is not None and cb is not None:
        return ca == cb
    if isinstance(a, SymNum) and isinstance(b, SymNum):
        return a.t.eq(b.t) or z3.is_true(z3.simplify(a.t == b.t))
    return False


def dims_equal(a, b):
    """V bool: dims equal."""
    if _same_dim(a, b):
        return True
    ca, cb = concrete_value(a), concrete_value(b)
    if ca is not None and cb is not None:
        return False
    return a == b


class SymArr:
    __array_priority__ = 2000

    def __init__(self, storage, shape=None, fwd=None, inv=None, mask=None):
        self.storage = storage
        self.shape = tuple(shape if shape is not None else storage.shape)
        self._fwd = fwd  # view idx -> storage idx (None = identity)
        self._inv = inv  # storage idx -> (cond, view idx)
        self.mask = mask  # compressed view: (mask_key, mask_fn over own idx)

    # ---------------------------------------------------------------- numpy protocols
    def __array_function__(self, func, types, args, kwargs):
        """Real numpy functions called on a proxy (e.g. a default argument `reduction=np.mean`
        captured before patching) are routed to the prelude entry of the same name."""
        from .prelude_np import NP

        name = getattr(func, "__name__", None)
        impl = getattr(type(NP), name, None) if name else None
        if impl is None:
            raise Unsupported("numpy.%s has no assumed contract in the prelude" % name)
        return getattr(NP, name)(*args, **kwargs)

    def __array_ufunc__(self, ufunc, method, *inputs, **kwargs):
        from .prelude_np import NP

        name = getattr(ufunc, "__name__", None)
        if method != "__call__" or not hasattr(type(NP), name):
            raise Unsupported("numpy ufunc %s.%s on a proxy" % (name, method))
        return getattr(NP, name)(*inputs, **kwargs)

    def __array__(self, *a, **k):
        raise Unsupported("a proxy array leaked into a real numpy routine (np.asarray on a SymArr)")

    np_ref = None
    concrete_data = None

    def __getattr__(self, name):
        # AttributeError (not Unsupported) so that hasattr() probes behave; an unmodelled ndarray
        # method used by the code surfaces as an engine gap (verdict: undecided), never as a finding
        raise AttributeError("ndarray.%s is not modelled by the SymArr proxy" % name)

    # ---------------------------------------------------------------- basics
    @property
    def ndim(self):
        return len(self.shape)

    @property
    def size(self):
        return _prod(self.shape)

    @property
    def kind(self):
        return self.storage.kind

    @property
    def dtype(self):
        return DType(self.storage.kind)

    @property
    def T(self):
        return self.transpose()

    @property
    def values(self):
        return self

    def __len__(self):
        if not self.shape:
            raise TypeError("len() of unsized object")
        n = concrete_value(self.shape[0])
        if n is None:
            raise Unsupported("len() of an array with symbolic length (module must use the patched len)")
        return int(n)

    def __repr__(self):
        return "SymArr(%s, shape=%s, kind=%s)" % (self.storage.name, self.shape, self.kind)

    def __bool__(self):
        raise Unsupported("truth value of an array")

    def __hash__(self):
        return id(self)

    def __iter__(self):
        n = concrete_value(self.shape[0]) if self.shape else None
        if n is None:
            raise Unsupported("iteration over an array of symbolic length")
        for i in range(int(n)):
            yield self[i]

    # ---------------------------------------------------------------- element access
    def fwd(self, idx):
        return tuple(idx) if self._fwd is None else self._fwd(tuple(idx))

    def inv(self, sidx):
        return (True, tuple(sidx)) if self._inv is None else self._inv(tuple(sidx))

    def at(self, *idx):
        """Element (V) at index tuple of V ints; no bounds obligation."""
        if len(idx) != len(self.shape):
            raise SpecError("rank mismatch in at(): %s vs shape %s" % (idx, self.shape))
        return self.storage.fn(self.fwd(idx))

    def snapshot(self):
        """Immutable element function of the current contents."""
        fn = self.storage.fn
        fwd = self._fwd
        if fwd is None:
            return lambda *idx: fn(tuple(idx))
        return lambda *idx: fn(fwd(tuple(idx)))

    def nan_at(self, *idx):
        if self.storage.nan is None:
            return False
        return self.storage.nan(self.fwd(idx))

    def in_bounds(self, idx):
        conds = []
        for i, n in zip(idx, self.shape):
            conds.append(and_(0 <= i, i < n) if is_sym(i) or is_sym(n) else (0 <= i < n))
        return and_(*conds) if conds else True

    # ---------------------------------------------------------------- indexing
    def _norm_key(self, key):
        if not isinstance(key, tuple):
            key = (key,)
        if any(k is Ellipsis for k in key):
            n_explicit = sum(1 for k in key if k is not Ellipsis and k is not None)
            fill = (slice(None),) * (self.ndim - n_explicit)
            out = []
            for k in key:
                if k is Ellipsis:
                    out.extend(fill)
                else:
                    out.append(k)
            key = tuple(out)
        n_explicit = sum(1 for k in key if k is not None)
        if n_explicit > self.ndim:
            raise IndexError("too many indices for array")
        key = key + (slice(None),) * (self.ndim - n_explicit)
        return key

    def _norm_index(self, i, n, what="index"):
        """Normalise a scalar index, emitting a bounds obligation."""
        c = ctx()
        iv = concrete_value(i) if is_sym(i) else i
        if iv is not None:
            i = int(iv)
            if i < 0:
                i = n + i
        import numpy as _np

        if isinstance(i, _np.integer):
            i = int(i)
        ok = and_(0 <= i, i < n) if (is_sym(i) or is_sym(n)) else (0 <= i < n)
        if ok is False:
            raise IndexError("index %s is out of bounds for axis with size %s" % (i, n))
        if ok is not True and not c.in_spec:
            ob = c.oblige("index.in_bounds[%s]" % c.fresh_name("ix"), ok, kind="domain")
        return i

    def _slice_params(self, s, n):
        """Return (start, count, step) as V ints for slice s over a dim of size n."""
        step = 1 if s.step is None else s.step
        if is_sym(step) or step not in (1, -1) and not isinstance(step, int):
            raise Unsupported("symbolic slice step")
        if step == -1:
            if s.start is None and s.stop is None:
                return n - 1, n, -1
            raise Unsupported("negative-step slice with bounds")
        if step <= 0:
            raise Unsupported("slice step %r" % step)

        def clamp(v, default):
            if v is None:
                return default
            cv = concrete_value(v) if is_sym(v) else v
            if cv is not None:
                v = int(cv)
                if v < 0:
                    v = n + v
                    # clamp at 0
                    v = ite(v < 0, 0, v) if is_sym(v) else max(v, 0)
                    return lift(v)
                if not is_sym(n):
                    return min(v, n)
                return lift(ite(n < v, n, v))
            # symbolic, assume non-negative (obligation) and clamp to n
            c = ctx()
            if not c.in_spec:
                c.oblige("slice.nonneg[%s]" % c.fresh_name("sl"), v >= 0, kind="domain")
            return lift(ite(n < v, n, v))

        start = clamp(s.start, 0)
        stop = clamp(s.stop, n)
        if step == 1:
            cnt = stop - start
            cnt = lift(ite(cnt < 0, 0, cnt)) if is_sym(cnt) else max(cnt, 0)
            return start, cnt, 1
        cnt = stop - start
        if is_sym(cnt):
            raise Unsupported("symbolic strided slice")
        cnt = max(0, (cnt + step - 1) // step)
        return start, cnt, step

    def __getitem__(self, key):
        from .prelude_groupby import GroupIndex, GroupSeries

        if isinstance(key, GroupIndex):
            # weights[values.index]: the rows of one group (label-based indexing with the original row index)
            if self.ndim != 1:
                raise Unsupported("group indexing of a non 1-D array")
            snap = self.snapshot()
            c = ctx()
            if not _same_dim(self.shape[0], key.gs.n) and not c.in_spec:
                c.oblige("group_index.length[%s]" % c.fresh_name("gi"), self.shape[0] == key.gs.n, kind="domain")
            return GroupSeries(key.gs, key.g, lambda p: snap(p))
        # boolean mask
        if isinstance(key, SymArr) and key.kind == "b":
            return self._masked_view(key)
        if isinstance(key, SymArr) and key.kind == "i":
            return self._fancy(key)
        if isinstance(key, list):
            from .prelude_np import NP

            return self._fancy(NP.array(key))
        if isinstance(key, tuple) and any(isinstance(k, SymArr) for k in key):
            return self._fancy_tuple(key)
        key = self._norm_key(key)
        new_shape = []
        maps = []  # per storage-axis: ('fix', i) | ('sl', start, step, pos_in_view)
        pos = 0
        newaxes = []
        axis = 0
        for k in key:
            if k is None:
                new_shape.append(1)
                newaxes.append(pos)
                pos += 1
                continue
            n = self.shape[axis]
            if isinstance(k, slice):
                start, cnt, step = self._slice_params(k, n)
                maps.append(("sl", start, step, pos, cnt))
                new_shape.append(cnt)
                pos += 1
            else:
                if isinstance(k, SymBool) or isinstance(k, bool):
                    raise Unsupported("boolean scalar index")
                i = self._norm_index(k, n)
                maps.append(("fix", i))
            axis += 1
        if not new_shape:
            idx = tuple(m[1] for m in maps)
            return self.at(*idx)
        outer_fwd, outer_inv = self.fwd, self.inv

        def fwd(vidx, maps=maps):
            out = []
            for m in maps:
                if m[0] == "fix":
                    out.append(m[1])
                else:
                    out.append(lift(m[1] + vidx[m[3]] * m[2]))
            return outer_fwd(tuple(out))

        rank = len(new_shape)

        def inv(sidx, maps=maps, newaxes=newaxes, rank=rank):
            cond, oidx = outer_inv(sidx)
            conds = [cond]
            vidx = [0] * rank
            for m, o in zip(maps, oidx):
                if m[0] == "fix":
                    conds.append(o == m[1] if (is_sym(o) or is_sym(m[1])) else (o == m[1]))
                else:
                    _, start, step, p, cnt = m
                    if step == 1:
                        v = lift(o - start)
                    elif step == -1:
                        v = lift(start - o)
                    else:
                        v = floordiv(o - start, step)
                        conds.append(mod(o - start, step) == 0)
                    conds.append(and_(0 <= v, v < cnt) if (is_sym(v) or is_sym(cnt)) else (0 <= v < cnt))
                    vidx[p] = v
            return and_(*conds), tuple(vidx)

        return SymArr(self.storage, new_shape, fwd, inv)

    def _masked_view(self, mask):
        if mask.ndim != self.ndim:
            raise Unsupported("boolean mask of different rank")
        c = ctx()
        for a, b in zip(mask.shape, self.shape):
            if not _same_dim(a, b):
                c.oblige("mask.shape[%s]" % c.fresh_name("mk"), a == b, kind="domain")
        mkey = mask_key(mask)
        mfn = mask.snapshot()
        if self.mask is not None:
            raise Unsupported("mask of a masked view")
        return SymArr(self.storage, self.shape, self._fwd, self._inv, mask=(mkey, mfn))

    def _fancy(self, index):
        """a[int_array] along axis 0."""
        c = ctx()
        src = self.snapshot()
        n0 = self.shape[0]
        isn = index.snapshot()
        rest = self.shape[1:]
        rk = index.ndim
        if not c.in_spec:
            sk = [c.fresh("fi", "int") for _ in range(rk)]
            hyp = [and_(0 <= s, s < d) for s, d in zip(sk, index.shape)]
            v = isn(*sk)
            c.oblige("fancy.in_bounds[%s]" % c.fresh_name("fx"), and_(0 <= v, v < n0), kind="domain", hyps=hyp)

        def fn(idx):
            i = isn(*idx[:rk])
            return src(i, *idx[rk:])

        return new_array(tuple(index.shape) + tuple(rest), fn, self.kind)

    def _fancy_tuple(self, key):
        if len(key) != self.ndim or not all(isinstance(k, SymArr) for k in key):
            raise Unsupported("mixed fancy indexing")
        src = self.snapshot()
        sn = [k.snapshot() for k in key]
        shp = key[0].shape
        rk = len(shp)
        return new_array(shp, lambda idx: src(*[s(*idx[:rk]) for s in sn]), self.kind)

    # ---------------------------------------------------------------- writes
    def _log_write(self, what):
        c = ctx()
        st = self.storage
        st.nwrites += 1
        c.writes.append((st, what))
        if st.readonly:
            raise ValueError("assignment destination is read-only")

    def _assign(self, region, value_at):
        """Functional update: own idx -> If(region(idx), value_at(idx), old)."""
        st = self.storage
        old = st.fn
        inv = self.inv
        kind = st.kind

        def fn(sidx):
            cond, vidx = inv(sidx)
            rc = and_(cond, region(vidx))
            if rc is False:
                return old(sidx)
            if rc is True:
                # whole-array update: do not evaluate the overwritten contents as well (a chain of n in-place
                # updates would otherwise be evaluated 2**n times)
                return cast_value(value_at(vidx), kind)
            return ite(rc, cast_value(value_at(vidx), kind), old(sidx))

        st.fn = fn

    def __setitem__(self, key, value):
        self._log_write("setitem")
        if self.kind == "O":
            return self._set_objects(key, value)
        if isinstance(key, SymArr) and key.kind == "b":
            self._set_masked(key, value)
            return
        target = self[key]
        if not isinstance(target, SymArr):
            # scalar position
            k = self._norm_key(key)
            idx = tuple(self._norm_index(i, n) for i, n in zip(k, self.shape))
            v = _as_scalar(value)
            self._assign(lambda vidx: and_(*[a == b if (is_sym(a) or is_sym(b)) else (a == b) for a, b in zip(vidx, idx)]), lambda vidx: v)
            return
        vat = broadcast_getter(value, target.shape, "setitem")
        if target.storage is not self.storage:
            raise Unsupported("assignment through a copying index")
        tinv = target.inv
        sfwd = self.fwd

        def region(vidx):
            cond, _ = tinv(sfwd(vidx))
            return cond

        def value_at(vidx):
            _, tidx = tinv(sfwd(vidx))
            return vat(tidx)

        if isinstance(value, SymArr) and value.kind == "f" and self.kind == "i":
            pass  # item assignment casts (truncation), numpy allows it
        self._assign(region, value_at)

    def _set_objects(self, key, value):
        """Object arrays: only whole-array assignment (through identity / ravel views)."""
        from .prelude_index import GenericElem

        full = key is Ellipsis or (isinstance(key, slice) and key == slice(None)) or (isinstance(key, tuple) and all(isinstance(k, slice) and k == slice(None) for k in key))
        if not full:
            raise Unsupported("partial assignment into an object array")
        c = ctx()
        st = self.storage
        inv = self.inv
        if isinstance(value, list) and len(value) == 1 and isinstance(value[0], GenericElem):
            g = value[0]
            if self.ndim != 1:
                raise Unsupported("generic sequence assigned to a non 1-D object view")
            if not _same_dim(g.count, self.shape[0]):
                c.oblige("setitem.sequence_length[%s]" % c.fresh_name("sq"), g.count == self.shape[0], kind="domain")
            st.fn = lambda sidx: g.at(inv(sidx)[1][0])
            return
        if isinstance(value, list):
            n = len(value)
            if self.ndim != 1:
                raise Unsupported("list assigned to a non 1-D object view")
            if not _same_dim(n, self.shape[0]):
                c.oblige("setitem.sequence_length[%s]" % c.fresh_name("sq"), self.shape[0] == n, kind="domain")
            vals = list(value)

            def fn(sidx):
                i = inv(sidx)[1][0]
                iv = concrete_value(i) if is_sym(i) else i
                if iv is None:
                    raise Unsupported("symbolic index into a concrete object list")
                return vals[int(iv)]

            st.fn = fn
            return
        raise Unsupported("object array assignment from %r" % type(value))

    def _set_masked(self, mask, value):
        mfn = mask.snapshot()
        mkey = mask_key(mask)
        c = ctx()
        for a, b in zip(mask.shape, self.shape):
            if not _same_dim(a, b):
                c.oblige("mask.shape[%s]" % c.fresh_name("mk"), a == b, kind="domain")
        if isinstance(value, SymArr):
            if value.mask is None:
                raise Unsupported("masked assignment from an uncompressed array")
            if value.mask[0] != mkey:
                # two mask OBJECTS (e.g. `~small` written twice): fine exactly when they select the same elements
                _same_selection(c, value.mask[1], mfn, self.shape, "masked get and set select the same elements")
            vfn = value.snapshot()
            value_at = lambda vidx: vfn(*vidx)
        else:
            v = _as_scalar(value)
            value_at = lambda vidx: v
        self._assign(lambda vidx: mfn(*vidx), value_at)

    def _inplace(self, other, op, name):
        self._log_write(name)
        if self.mask is not None:
            raise Unsupported("in-place op on a masked view")
        cur = self.snapshot()
        oat = broadcast_getter(other, self.shape, name)
        okind = other.kind if isinstance(other, SymArr) else {"real": "f", "int": "i", "bool": "b"}[kind_of(other)]
        if self.kind == "i" and (okind == "f" or name == "itruediv"):
            raise TypeError(
                "Cannot cast ufunc '%s' output from dtype('float64') to dtype('int64') with casting rule 'same_kind'" % name
            )
        self._assign(lambda vidx: True, lambda vidx: op(cur(*vidx), oat(vidx)))
        return self

    def __iadd__(self, o):
        return self._inplace(o, lambda a, b: _numeric(a) + _numeric(b), "add")

    def __isub__(self, o):
        return self._inplace(o, lambda a, b: _numeric(a) - _numeric(b), "subtract")

    def __imul__(self, o):
        return self._inplace(o, lambda a, b: _numeric(a) * _numeric(b), "multiply")

    def __itruediv__(self, o):
        return self._inplace(o, lambda a, b: div(a, b), "itruediv")

    def fill(self, v):
        self[...] = v

    # ---------------------------------------------------------------- elementwise
    def _ew(self, other, op, kind=None, swap=False):
        if isinstance(other, (list, tuple)):
            from .prelude_np import NP

            other = NP.array(other)
        if other is None:
            return NotImplemented
        if not isinstance(other, SymArr) and not isinstance(other, (int, float, SymNum, SymBool, bool)):
            import numpy as _np

            if isinstance(other, _np.generic):
                other = other.item()
            elif isinstance(other, _np.ndarray):
                other = from_numpy(other)
            else:
                return NotImplemented
        return elementwise(op, (other, self) if swap else (self, other), kind)

    def __add__(self, o):
        return self._ew(o, lambda a, b: _numeric(a) + _numeric(b))

    def __radd__(self, o):
        return self._ew(o, lambda a, b: _numeric(a) + _numeric(b), swap=True)

    def __sub__(self, o):
        return self._ew(o, lambda a, b: _numeric(a) - _numeric(b))

    def __rsub__(self, o):
        return self._ew(o, lambda a, b: _numeric(a) - _numeric(b), swap=True)

    def __mul__(self, o):
        return self._ew(o, lambda a, b: _numeric(a) * _numeric(b))

    def __rmul__(self, o):
        return self._ew(o, lambda a, b: _numeric(a) * _numeric(b), swap=True)

    def __truediv__(self, o):
        _divisor_nonzero(o, self)
        return self._ew(o, _div_quiet, kind="f")

    def __rtruediv__(self, o):
        _divisor_nonzero(self, self)
        return self._ew(o, _div_quiet, kind="f", swap=True)

    def __floordiv__(self, o):
        return self._ew(o, floordiv)

    def __mod__(self, o):
        return self._ew(o, mod)

    def __pow__(self, o):
        _power_in_range(self, o)
        return self._ew(o, power)

    def __rpow__(self, o):
        _power_in_range(o, self)
        return self._ew(o, power, swap=True)

    def __neg__(self):
        return elementwise(lambda a: -_numeric(a), (self,))

    def __abs__(self):
        return elementwise(lambda a: abs(_numeric(a)), (self,))

    def __invert__(self):
        if self.kind != "b":
            raise Unsupported("~ on a non-boolean array")
        return elementwise(not_, (self,), "b")

    def __and__(self, o):
        return self._ew(o, and_, "b")

    def __or__(self, o):
        return self._ew(o, or_, "b")

    def __lt__(self, o):
        return self._ew(o, lambda a, b: _numeric(a) < _numeric(b), "b")

    def __le__(self, o):
        return self._ew(o, lambda a, b: _numeric(a) <= _numeric(b), "b")

    def __gt__(self, o):
        return self._ew(o, lambda a, b: _numeric(a) > _numeric(b), "b")

    def __ge__(self, o):
        return self._ew(o, lambda a, b: _numeric(a) >= _numeric(b), "b")

    def __eq__(self, o):
        r = self._ew(o, lambda a, b: _numeric(a) == _numeric(b), "b")
        if r is NotImplemented:
            return False
        if self.ndim == 1 and self.kind == "i" and not isinstance(o, (SymArr, list, tuple)) and kind_of(o) == "int":
            r._count_of = (self, o)  # .sum() / count_nonzero of this mask is the number of entries equal to o (as for isin)
        return r

    def __ne__(self, o):
        r = self._ew(o, lambda a, b: _numeric(a) != _numeric(b), "b")
        return True if r is NotImplemented else r

    # ---------------------------------------------------------------- shape ops
    def ravel(self, order="C"):
        if order != "C":
            raise Unsupported("ravel order %r" % order)
        if self.mask is not None:
            raise Unsupported("ravel of masked view")
        if self.ndim == 1:
            return SymArr(self.storage, self.shape, self._fwd, self._inv)
        return self.reshape((self.size,))

    def flatten(self):
        return self.ravel().copy()

    def reshape(self, *shape, order="C"):
        if len(shape) == 1 and isinstance(shape[0], (tuple, list)):
            shape = tuple(shape[0])
        shape = tuple(lift(s) for s in shape)
        if self.mask is not None:
            raise Unsupported("reshape of masked view")
        # -1 inference
        if any((not is_sym(s)) and s == -1 for s in shape):
            known = _prod([s for s in shape if is_sym(s) or s != -1])
            miss = floordiv(self.size, known) if is_sym(self.size) or is_sym(known) else self.size // known
            shape = tuple(lift(miss) if (not is_sym(s) and s == -1) else s for s in shape)
        c = ctx()
        # size agreement
        if not _same_dim(_prod(shape), self.size):
            if len(shape) == self.ndim and all(_same_dim(a, b) for a, b in zip(shape, self.shape)):
                pass
            else:
                ok = _prod(shape) == self.size
                if ok is False:
                    raise ValueError("cannot reshape array of size %s into shape %s" % (self.size, shape))
                if ok is not True and not c.in_spec:
                    c.oblige("reshape.size[%s]" % c.fresh_name("rs"), ok, kind="domain")
        if len(shape) == self.ndim and all(_same_dim(a, b) for a, b in zip(shape, self.shape)):
            return SymArr(self.storage, self.shape, self._fwd, self._inv)
        old_shape = self.shape
        sfwd, sinv = self.fwd, self.inv
        new_shape = shape

        def fwd(vidx):
            return sfwd(reindex(vidx, new_shape, old_shape))

        def inv(sidx):
            cond, oidx = sinv(sidx)
            return cond, reindex(oidx, old_shape, new_shape)

        return SymArr(self.storage, new_shape, fwd, inv)

    def transpose(self, *axes):
        if self.ndim < 2:
            return SymArr(self.storage, self.shape, self._fwd, self._inv)
        if self.ndim != 2 or axes not in ((), (1, 0), ((1, 0),)):
            raise Unsupported("transpose of rank %d" % self.ndim)
        sfwd, sinv = self.fwd, self.inv

        def fwd(v):
            return sfwd((v[1], v[0]))

        def inv(s):
            cond, o = sinv(s)
            return cond, (o[1], o[0])

        return SymArr(self.storage, (self.shape[1], self.shape[0]), fwd, inv)

    def copy(self, order="C"):
        snap = self.snapshot()
        a = new_array(self.shape, lambda idx: snap(*idx), self.kind)
        if self.storage.nan is not None:
            nfn, fwd = self.storage.nan, self.fwd
            a.storage.nan = lambda idx: nfn(fwd(idx))
        a.mask = self.mask
        return a

    def astype(self, dtype, copy=True):
        k = parse_dtype(dtype).kind
        snap = self.snapshot()
        return new_array(self.shape, lambda idx: cast_value(snap(*idx), k), k)

    def squeeze(self):
        keep = [i for i, n in enumerate(self.shape) if is_sym(n) or n != 1]
        key = tuple(slice(None) if i in keep else 0 for i in range(self.ndim))
        return self[key]

    # ---------------------------------------------------------------- reductions (delegate to prelude)
    def min(self, axis=None):
        from .prelude_np import NP

        return NP.min(self, axis=axis)

    def max(self, axis=None):
        from .prelude_np import NP

        return NP.max(self, axis=axis)

    def sum(self, axis=None):
        from .prelude_np import NP

        return NP.sum(self, axis=axis)

    def mean(self, axis=None):
        from .prelude_np import NP

        if axis is None and (ctx().concrete or ctx().crossexec):
            vals = [self.at(*ix) for ix in itertools.product(*[range(int(n)) for n in self.shape])]
            return sum(vals) / len(vals)
        if axis is None and self.ndim == 1 and is_sym(self.shape[0]):
            from .core import opaque_of_arrays

            ctx().used_prelude.add("ndarray.mean of a whole array of symbolic length (opaque function of its contents)")
            return opaque_of_arrays("MEAN", self)
        return NP.mean(self, axis=axis)

    def std(self, axis=None):
        if axis is None and (ctx().concrete or ctx().crossexec):
            vals = [float(self.at(*ix)) for ix in itertools.product(*[range(int(n)) for n in self.shape])]
            m = sum(vals) / len(vals)
            return (sum((v - m) ** 2 for v in vals) / len(vals)) ** 0.5
        if axis is None:
            from .core import opaque_of_arrays

            c = ctx()
            c.used_prelude.add("ndarray.std of a whole array (opaque function of its contents, >= 0)")
            v = opaque_of_arrays("STD", self)
            c.assume(v >= 0)
            return v
        raise Unsupported("std with axis")

    def cumsum(self):
        from .prelude_np import NP

        return NP.cumsum(self)

    def searchsorted(self, v, side="left", sorter=None):
        from .prelude_np import NP

        return NP.searchsorted(self, v, side=side, sorter=sorter)

    def take(self, indices, axis=None):
        from .prelude_np import NP

        return NP.take(self, indices, axis=axis)

    def repeat(self, repeats, axis=None):
        from .prelude_np import NP

        return NP.repeat(self, repeats, axis=axis)

    def any(self):
        from .prelude_np import NP

        return NP.any(self)

    def all(self):
        from .prelude_np import NP

        return NP.all(self)

    def tolist(self):
        return list(self)


def _div_quiet(a, b):
    """element division; the non-zero obligation is emitted eagerly for the whole array"""
    c = ctx()
    c.in_spec += 1
    try:
        return div(a, b)
    finally:
        c.in_spec -= 1


def _divisor_nonzero(d, ref):
    """Eager obligation: every element of the divisor is non-zero (numpy would give inf/nan)."""
    from . import spec as S

    c = ctx()
    if c.in_spec or c.concrete:
        return
    nm = "divide.nonzero[%s]" % c.fresh_name("dv")
    if isinstance(d, SymArr):
        snap = d.snapshot()
        if d.mask is not None:
            mfn = d.mask[1]
            S.prove(nm, S.Forall(d.shape, lambda *i: implies(mfn(*i), _numeric(snap(*i)) != 0)), kind="domain")
        else:
            S.prove(nm, S.Forall(d.shape, lambda *i: _numeric(snap(*i)) != 0), kind="domain")
    elif is_sym(d):
        c.oblige(nm, _numeric(d) != 0, kind="domain")
    elif d == 0:
        raise ZeroDivisionError("division by zero")


def _power_in_range(base, exp):
    """Eager obligation: every element of base**exp stays in the float64 range (see core.pow_in_range)."""
    from . import spec as S
    from .core import pow_in_range

    c = ctx()
    if c.in_spec or c.concrete or c.stub_mode:
        return
    if not isinstance(exp, (SymArr, SymNum)) and isinstance(exp, int) and -4 <= exp <= 8:
        return
    ops = tuple(o for o in (base, exp))
    if not any(isinstance(o, SymArr) for o in ops):
        return
    try:
        chk = elementwise(pow_in_range, ops, kind="b")
    except Exception:
        return
    snap = chk.snapshot()
    nm = "pow.result_stays_in_the_float64_range[%s]" % c.fresh_name("pw")
    if chk.mask is not None:
        mfn = chk.mask[1]
        S.prove(nm, S.Forall(chk.shape, lambda *i: implies(mfn(*i), snap(*i))), kind="domain")
    else:
        S.prove(nm, S.Forall(chk.shape, lambda *i: snap(*i)), kind="domain")


def _same_selection(c, m1, m2, shape, what):
    """Domain obligation: two boolean masks over one shape select the same elements."""
    from . import spec as S
    from .core import iff

    if c.in_spec:
        return
    S.prove("mask.alignment[%s]" % c.fresh_name("mk"), S.Forall(tuple(shape), lambda *i: iff(m1(*i), m2(*i)), name=what), kind="domain")


def mask_key(mask):
    """Identity of a boolean mask's *contents* (storage id + version)."""
    return (mask.storage.id, mask.storage.nwrites, id(mask._fwd))


def reindex(idx, from_shape, to_shape):
    """Map a C-order index in from_shape to the index in to_shape with the same flat position."""
    from_shape = tuple(from_shape)
    to_shape = tuple(to_shape)
    # common cheap cases
    if len(from_shape) == len(to_shape) and all(_same_dim(a, b) for a, b in zip(from_shape, to_shape)):
        return tuple(idx)
    # strip leading/trailing unit dims symmetric cases: (n,) <-> (n,1) / (1,n)
    if len(from_shape) == 1 and len(to_shape) == 2:
        if not is_sym(to_shape[1]) and to_shape[1] == 1:
            return (idx[0], 0)
        if not is_sym(to_shape[0]) and to_shape[0] == 1:
            return (0, idx[0])
    if len(from_shape) == 2 and len(to_shape) == 1:
        if not is_sym(from_shape[1]) and from_shape[1] == 1:
            return (idx[0],)
        if not is_sym(from_shape[0]) and from_shape[0] == 1:
            return (idx[1],)
    flat = flat_index(idx, from_shape)
    return unflatten(flat, to_shape, hint=(idx, from_shape))


def flat_index(idx, shape):
    """C-order flat position (Horner form) of a multi-index; for symbolic operands the bound
    0 <= flat < prod(shape) is stated as a fact (true arithmetic, saves a non-linear step)."""
    flat = 0
    for i, n in zip(idx, shape):
        flat = flat * n + i
    flat = lift(flat)
    if is_sym(flat) and len(shape) >= 2:
        c = ctx()
        inb = and_(*[and_(0 <= i, i < n) for i, n in zip(idx, shape)])
        c.assume(implies(inb, and_(flat >= 0, flat < _prod(shape))))
        c.used_axioms.add("C-order flat index of an in-bounds multi-index lies in [0, size)")
    return flat


def unflatten(flat, shape, hint=None):
    """C-order unravel of a flat V int into an index tuple for `shape`."""
    shape = tuple(shape)
    if len(shape) == 1:
        return (flat,)
    if len(shape) == 2:
        nc = shape[1]
        # structural shortcut: flat == r*nc + c with 0<=c<nc in hint
        if hint is not None:
            idx, fshape = hint
            if len(fshape) == 2 and _same_dim(fshape[1], nc):
                return (idx[0], idx[1])
        if not is_sym(flat) and not is_sym(nc):
            return (flat // nc, flat % nc)
        q, r = lift(floordiv_nn(flat, nc)), lift(mod_nn(flat, nc))
        if is_sym(q):
            # row index bound: flat < nrows*nc  =>  q < nrows  (saves the solver a non-linear step)
            c = ctx()
            c.assume(implies(and_(flat >= 0, flat < shape[0] * nc, nc > 0), q < shape[0]))
        return (q, r)
    out = []
    rem = flat
    for k in range(len(shape) - 1, 0, -1):
        n = shape[k]
        out.append(lift(mod_nn(rem, n)))
        rem = lift(floordiv_nn(rem, n))
    out.append(rem)
    return tuple(reversed(out))


def floordiv_nn(a, b):
    """a // b for a >= 0, b > 0 (int), without emitting nonzero obligations.

    For a symbolic divisor z3's div/mod are nonlinear; we introduce the quotient and remainder
    as fresh integers with their defining facts (Euclidean division), which z3's linear
    arithmetic plus a little nonlinear reasoning handles much better."""
    if not is_sym(a) and not is_sym(b):
        return a // b
    q, _ = _divmod_nn(a, b)
    return q


def mod_nn(a, b):
    if not is_sym(a) and not is_sym(b):
        return a % b
    _, r = _divmod_nn(a, b)
    return r




def _divmod_nn(a, b):
    c = ctx()
    if getattr(c, "native_divmod", 0):
        # under a binder (z3 Lambda) quotient and remainder must be FUNCTIONS of the bound variable:
        # use z3's own integer div / mod (floor semantics for a positive divisor)
        A, Bz = to_z3(a), to_z3(b)
        return SymNum(A / Bz, "int"), SymNum(A % Bz, "int")
    _DIVMOD_CACHE = c.divmod_cache
    key = (to_z3(a).get_id(), to_z3(b).get_id())
    if key in _DIVMOD_CACHE:
        return _DIVMOD_CACHE[key][:2]
    if not is_sym(b):
        A = to_z3(a)
        q, r = SymNum(A / b, "int"), SymNum(A % b, "int")
        _DIVMOD_CACHE[key] = (q, r, c)
        return q, r
    dec = _decompose_affine(to_z3(a), to_z3(b))
    q = c.fresh("q", "int")
    r = c.fresh("r", "int")
    if dec is not None:
        # flat index syntactically of the form hi*b + lo: then (hi, lo) IS the (quotient, remainder)
        # whenever 0 <= lo < b (uniqueness of Euclidean division); stated as a fact for the solver.
        hi, lo = dec
        c.assume(z3.Implies(z3.And(lo >= 0, lo < to_z3(b), hi >= 0), z3.And(q.t == hi, r.t == lo)))
    c.assume(z3.Implies(z3.And(to_z3(a) >= 0, to_z3(b) > 0), z3.And(to_z3(a) == q.t * to_z3(b) + r.t, r.t >= 0, r.t < to_z3(b), q.t >= 0)))
    # small-dividend case stated explicitly (saves the solver a non-linear step)
    c.assume(z3.Implies(z3.And(to_z3(a) >= 0, to_z3(a) < to_z3(b)), z3.And(q.t == 0, r.t == to_z3(a))))
    c.used_axioms.add("Euclidean division: a = q*b + r, 0 <= r < b (C-order flattening)")
    _DIVMOD_CACHE[key] = (q, r, c)
    return q, r


def _decompose_affine(a, b):
    """If z3 int term a is syntactically hi*b + lo, return (hi, lo) else None."""
    a = z3.simplify(a)
    if not z3.is_add(a):
        if z3.is_mul(a):
            hi = _mul_other(a, b)
            if hi is not None:
                return hi, z3.IntVal(0)
        return None
    kids = a.children()
    for k, t in enumerate(kids):
        if z3.is_mul(t):
            hi = _mul_other(t, b)
            if hi is not None:
                rest = [x for j, x in enumerate(kids) if j != k]
                lo = rest[0] if len(rest) == 1 else z3.Sum(rest)
                return hi, lo
    return None


def _mul_other(t, b):
    ks = t.children()
    for k, x in enumerate(ks):
        if x.eq(b):
            rest = [y for j, y in enumerate(ks) if j != k]
            if not rest:
                return None
            return rest[0] if len(rest) == 1 else z3.Product(rest)
    return None


def _as_scalar(v):
    if isinstance(v, SymArr):
        if v.ndim == 0 or all((not is_sym(n)) and n == 1 for n in v.shape):
            return v.at(*([0] * v.ndim))
        raise Unsupported("array where scalar expected")
    import numpy as _np

    if isinstance(v, _np.generic):
        return v.item()
    return v


def new_array(shape, fn, kind, owner="fresh", name=None):
    shape = tuple(lift(s) for s in shape)
    st = Storage(shape, fn, kind, owner, name)
    return SymArr(st)


def scalar_to_arr(v):
    k = {"real": "f", "int": "i", "bool": "b"}[kind_of(v)]
    return new_array((), lambda idx: v, k)


def from_list(items, kind=None):
    """1-D (or nested) array from a python list of V / arrays / lists."""
    items = list(items)
    if items and all(isinstance(x, (list, tuple)) for x in items):
        items = [from_list(x, kind) for x in items]
    if items and all(isinstance(x, SymArr) for x in items):
        inner = items[0].shape
        snaps = [x.snapshot() for x in items]
        k = kind or _join_kinds([x.kind for x in items])
        n = len(items)

        def fn(idx):
            i = idx[0]
            if not is_sym(i):
                return snaps[i](*idx[1:])
            r = snaps[-1](*idx[1:])
            for j in range(n - 2, -1, -1):
                r = ite(i == j, snaps[j](*idx[1:]), r)
            return r

        return new_array((n,) + tuple(inner), fn, k)
    vals = [_as_scalar(x) for x in items]
    kinds = [{"real": "f", "int": "i", "bool": "b"}[kind_of(v)] for v in vals]
    k = kind or (_join_kinds(kinds) if kinds else "f")
    vals = [cast_value(v, k) for v in vals]
    n = len(vals)

    def fn(idx):
        i = idx[0]
        if not is_sym(i):
            return vals[i]
        r = vals[-1]
        for j in range(n - 2, -1, -1):
            r = ite(i == j, vals[j], r)
        return r

    return new_array((n,), fn, k)


def _join_kinds(ks):
    if "O" in ks:
        return "O"
    if "f" in ks:
        return "f"
    if "i" in ks:
        return "i"
    return "b"


def from_numpy(a):
    import numpy as _np

    a = _np.asarray(a)
    k = {"f": "f", "i": "i", "u": "i", "b": "b", "O": "O"}.get(a.dtype.kind)
    if k is None:
        raise Unsupported("numpy dtype %s" % a.dtype)
    if a.ndim == 0:
        return scalar_to_arr(a.item())
    return from_list(a.tolist(), k)


def as_array(x):
    if isinstance(x, SymArr):
        return x
    if isinstance(x, (list, tuple)):
        return from_list(x)
    import numpy as _np

    if isinstance(x, _np.ndarray):
        return from_numpy(x)
    if isinstance(x, _np.generic):
        x = x.item()
    if isinstance(x, (int, float, bool, SymNum, SymBool)):
        return scalar_to_arr(x)
    from .prelude_pd import SymSeries

    if isinstance(x, SymSeries):
        return x.values
    from .prelude_xr import SymCoord, SymDataArray

    if isinstance(x, (SymCoord, SymDataArray)):
        return x.values
    raise Unsupported("cannot convert %r to an array" % type(x))


def broadcast_shapes(shapes, what="broadcast"):
    """Numpy broadcasting of shapes with symbolic dims. Emits shape obligations."""
    c = ctx()
    rank = max(len(s) for s in shapes)
    out = []
    for k in range(rank):
        dims = []
        for s in shapes:
            j = k - (rank - len(s))
            if j >= 0:
                dims.append(s[j])
        d = None
        for x in dims:
            if not is_sym(x) and x == 1:
                continue
            if d is None:
                d = x
            elif _same_dim(d, x):
                continue
            else:
                ok = dims_equal(d, x)
                if ok is False:
                    raise ValueError("operands could not be broadcast together with shapes %s" % (shapes,))
                # symbolic: numpy raises unless equal (or one of them is 1: treat as requiring equality)
                if not c.in_spec:
                    c.oblige("%s.shapes[%s]" % (what, c.fresh_name("bc")), ok, kind="domain")
        out.append(1 if d is None else d)
    return tuple(out)


def broadcast_getter(x, shape, what="broadcast"):
    """Return f(idx)->V reading x broadcast to `shape`."""
    if isinstance(x, (list, tuple)):
        x = from_list(x)
    import numpy as _np

    if isinstance(x, _np.ndarray):
        x = from_numpy(x)
    if not isinstance(x, SymArr):
        v = _as_scalar(x)
        return lambda idx: v
    full = broadcast_shapes([tuple(shape), x.shape], what)
    if len(full) != len(shape):
        raise ValueError("could not broadcast input array from shape %s into shape %s" % (x.shape, shape))
    snap = x.snapshot()
    xs = x.shape
    off = len(shape) - len(xs)

    def get(idx):
        sub = []
        for j, n in enumerate(xs):
            sub.append(0 if (not is_sym(n) and n == 1) else idx[off + j])
        return snap(*sub)

    return get


def elementwise(op, operands, kind=None):
    arrs = [o for o in operands if isinstance(o, SymArr)]
    masks = [a.mask for a in arrs if a.mask is not None]
    mask = None
    if masks:
        if any(a.mask is None for a in arrs):
            c = ctx()
            c.fail("mask.alignment[%s]" % c.fresh_name("mk"), "a compressed (boolean-masked) operand combined with an uncompressed one", kind="domain")
        for a in arrs[1:]:
            if a.mask is not None and a.mask[0] != masks[0][0]:
                _same_selection(ctx(), a.mask[1], masks[0][1], arrs[0].shape if arrs[0].mask is not None else a.shape, "operands compressed by masks selecting the same elements")
        mask = masks[0]
    shape = broadcast_shapes([a.shape for a in arrs], "ufunc")
    getters = [broadcast_getter(o, shape, "ufunc") for o in operands]
    if kind is None:
        ks = []
        for o in operands:
            ks.append(o.kind if isinstance(o, SymArr) else {"real": "f", "int": "i", "bool": "b"}[kind_of(o)])
        kind = _join_kinds(ks)
        if kind == "b":
            kind = "i"

    def fn(idx):
        return op(*[g(idx) for g in getters])

    out = new_array(shape, fn, kind)
    out.mask = mask
    if any(a.storage.nan is not None for a in arrs):
        nget = []
        for o in operands:
            if isinstance(o, SymArr) and o.storage.nan is not None:
                nfn, fwd, xs, off = o.storage.nan, o.fwd, o.shape, len(shape) - len(o.shape)
                nget.append(lambda idx, nfn=nfn, fwd=fwd, xs=xs, off=off: nfn(fwd(tuple(0 if (not is_sym(n) and n == 1) else idx[off + j] for j, n in enumerate(xs)))))
        if kind != "b":
            out.storage.nan = lambda idx: or_(*[g(idx) for g in nget])
        else:
            out.storage.nan = None
            base = out.storage.fn
            # comparisons with NaN are False
            out.storage.fn = lambda idx: and_(not_(or_(*[g(idx) for g in nget])), base(idx))
    return out


def sym_input(name, shape, kind="f", nan=False):
    """A fresh *input* array: elements are an uninterpreted function of the index."""
    rank = len(shape)
    rng = {"f": z3.RealSort(), "i": z3.IntSort(), "b": z3.BoolSort()}[kind]
    f = z3.Function(name, *([z3.IntSort()] * rank + [rng]))

    leaf_id = next(_storage_ids)

    def fn(idx):
        ctx().leaf_touch(leaf_id, tuple(idx))
        t = f(*[to_z3(i) for i in idx])
        if kind == "b":
            return SymBool(t)
        return SymNum(t, "real" if kind == "f" else "int")

    a = new_array(shape, fn, kind, owner="input:" + name, name=name)
    if nan:
        g = z3.Function(name + "!nan", *([z3.IntSort()] * rank + [z3.BoolSort()]))
        a.storage.nan = lambda idx: SymBool(g(*[to_z3(i) for i in idx]))
    a.storage.uf = f
    return a


def havoc_array(base, shape, kind="f", owner="fresh"):
    c = ctx()
    name = c.fresh_name(base)
    a = sym_input(name, shape, kind)
    a.storage.owner = owner
    return a
