"""Witnesses (native reproductions) for entries of /verif/known_findings.json."""
import numpy as np

PREDICATES = {}
WITNESSES = {}


def _c17_seam_point():
    import verde

    for lon, region in ((360.0, [135.0, 360.0, 0.0, 1.0]), (180.0, [-45.0, 180.0, 0.0, 1.0])):
        coords, reg = verde.longitude_continuity((np.array([lon]), np.array([0.5])), region)
        ins = bool(verde.inside((coords[0], coords[1]), reg)[0])
        angular = ((lon - region[0]) % 360) <= ((region[1] - region[0]) % 360)
        if ins == angular:
            return False, "lon=%s region=%s is now handled consistently" % (lon, region)
    return True, "reproduced"


WITNESSES["c17_seam_point"] = _c17_seam_point
