"""Predicates and witnesses for entries of /verif/known_findings.json (filled in per finding)."""
PREDICATES = {}
WITNESSES = {}
