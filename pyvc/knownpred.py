"""Witnesses (native reproductions) for entries of /verif/known_findings.json."""
import numpy as np

PREDICATES = {}
WITNESSES = {}


def _c17_seam_point():
    import verde

    for lon, region in ((360.0, [135.0, 360.0, 0.0, 1.0]), (180.0, [-45.0, 180.0, 0.0, 1.0])):
        coords, reg = verde.longitude_continuity((np.array([lon]), np.array([0.5])), region)
        ins = bool(verde.inside((coords[0], coords[1]), reg)[0])
        angular = ((lon - region[0]) % 360) <= ((region[1] - region[0]) % 360)
        if ins == angular:
            return False, "lon=%s region=%s is now handled consistently" % (lon, region)
    return True, "reproduced"


WITNESSES["c17_seam_point"] = _c17_seam_point


def _c01_truncated_lstsq():
    import warnings

    import verde

    rng = np.random.RandomState(0)
    for n in (30, 60, 100):
        rng.uniform(0, 1, n), rng.uniform(0, 1, n), rng.uniform(-100, 100, n)
    n = 200
    e, nn, d = rng.uniform(0, 1, n), rng.uniform(0, 1, n), rng.uniform(-100, 100, n)
    with warnings.catch_warnings():
        warnings.simplefilter("ignore")
        s = verde.Spline().fit((e, nn), d)
        misfit = float(np.abs(s.predict((e, nn)) - d).max())
    J = s.jacobian((e, nn), s.force_coords_)
    cond = float(np.linalg.cond(J / J.std(axis=0)))
    if misfit > 1e4 * cond * 2.0**-52 * 100:
        return True, "misfit %.3g at cond %.3g" % (misfit, cond)
    return False, "misfit %.3g at cond %.3g is within the conditioning tolerance" % (misfit, cond)


WITNESSES["c01_truncated_lstsq"] = _c01_truncated_lstsq


def _c20_weights_shape():
    from verde.base.utils import check_fit_input

    c = (np.zeros((2, 3)), np.zeros((2, 3)))
    try:
        check_fit_input(c, np.arange(6.0).reshape(2, 3), np.arange(6.0).reshape(3, 2))
    except ValueError:
        return False, "now rejected"
    return True, "accepted"


WITNESSES["c20_weights_shape"] = _c20_weights_shape


def _c16_antialias_shrinks_hull():
    import warnings

    import verde
    import xarray as xr

    east, north = np.linspace(-3.0, 5.0, 8), np.linspace(10.0, 16.0, 6)
    E, N = np.meshgrid(east, north)
    grid = xr.DataArray(2 * E - 0.5 * N, coords={"northing": north, "easting": east}, dims=("northing", "easting"), name="topo")
    proj = lambda e, n: (2.0 * np.asarray(e) + 10.0, 3.0 * np.asarray(n) - 1.0)  # noqa: E731
    pe, pn = proj(E, N)
    reg = (pe.min() - 3, pe.max() + 3, pn.min() - 3, pn.max() + 3)
    with warnings.catch_warnings():
        warnings.simplefilter("ignore")
        out = verde.project_grid(grid, proj, method="linear", antialias=True, region=reg)
    oe, on = np.meshgrid(out.easting.values, out.northing.values)
    inside = (oe > pe.min() + 1e-6) & (oe < pe.max() - 1e-6) & (on > pn.min() + 1e-6) & (on < pn.max() - 1e-6)
    nbad = int(np.isnan(out.values[inside]).sum())
    if nbad:
        return True, "%d of %d nodes strictly inside the hull of the projected data are NaN" % (nbad, int(inside.sum()))
    return False, "all nodes inside the hull are finite now"


WITNESSES["c16_antialias_shrinks_hull"] = _c16_antialias_shrinks_hull


def _c13_maxabs_signed_minimum():
    import verde

    got = verde.maxabs(np.array([-128, 5], dtype=np.int8))
    if float(got) == 128.0:
        return False, "maxabs([-128, 5] int8) is 128 now"
    return True, "maxabs(int8 [-128, 5]) = %r, not 128" % (got,)


WITNESSES["c13_maxabs_signed_minimum"] = _c13_maxabs_signed_minimum
