"""Witnesses (native reproductions) for entries of /verif/known_findings.json."""
import numpy as np

PREDICATES = {}
WITNESSES = {}


def _c17_seam_point():
    import verde

    for lon, region in ((360.0, [135.0, 360.0, 0.0, 1.0]), (180.0, [-45.0, 180.0, 0.0, 1.0])):
        coords, reg = verde.longitude_continuity((np.array([lon]), np.array([0.5])), region)
        ins = bool(verde.inside((coords[0], coords[1]), reg)[0])
        angular = ((lon - region[0]) % 360) <= ((region[1] - region[0]) % 360)
        if ins == angular:
            return False, "lon=%s region=%s is now handled consistently" % (lon, region)
    return True, "reproduced"


WITNESSES["c17_seam_point"] = _c17_seam_point


def _c01_truncated_lstsq():
    import warnings

    import verde

    rng = np.random.RandomState(0)
    for n in (30, 60, 100):
        rng.uniform(0, 1, n), rng.uniform(0, 1, n), rng.uniform(-100, 100, n)
    n = 200
    e, nn, d = rng.uniform(0, 1, n), rng.uniform(0, 1, n), rng.uniform(-100, 100, n)
    with warnings.catch_warnings():
        warnings.simplefilter("ignore")
        s = verde.Spline().fit((e, nn), d)
        misfit = float(np.abs(s.predict((e, nn)) - d).max())
    J = s.jacobian((e, nn), s.force_coords_)
    cond = float(np.linalg.cond(J / J.std(axis=0)))
    if misfit > 1e4 * cond * 2.0**-52 * 100:
        return True, "misfit %.3g at cond %.3g" % (misfit, cond)
    return False, "misfit %.3g at cond %.3g is within the conditioning tolerance" % (misfit, cond)


WITNESSES["c01_truncated_lstsq"] = _c01_truncated_lstsq


def _c20_weights_shape():
    from verde.base.utils import check_fit_input

    c = (np.zeros((2, 3)), np.zeros((2, 3)))
    try:
        check_fit_input(c, np.arange(6.0).reshape(2, 3), np.arange(6.0).reshape(3, 2))
    except ValueError:
        return False, "now rejected"
    return True, "accepted"


WITNESSES["c20_weights_shape"] = _c20_weights_shape
