"""Abstract index sets: results of ball queries and what numpy does with them.

A ball query returns, per query point, a list of point indices. verde only ever converts such a
list to an int array and unravels it to index arrays of the input's shape. The contract-level
abstraction (the `view()` of these objects) is the SET of flat point indices they enumerate:
  SymIndexSet(n, member)      - set of flat indices in [0, n)
  SymIndexArr(set)            - np.array(list_of_indices, dtype=int): enumerates the set once each
  SymIndexTuple(set, shape)   - np.unravel_index(arr, shape): tuple of len(shape) index arrays that
                                selects exactly the elements whose C-order flat index is in the set
"""
from .arr import SymArr, as_array, _prod
from .core import Proxy  # noqa
from .core import SymNum, Unsupported, and_, ctx, is_sym, lift


class SymIndexSet(Proxy):
    def __init__(self, n, member, what=""):
        self.n = n
        self.member = member  # flat index (V int) -> V bool
        self.what = what


class SymIndexArr(Proxy):
    def __init__(self, iset):
        self.iset = iset
        self.ndim = 1
        self.kind = "i"

    @property
    def size(self):
        """Number of enumerated indices. Modelled for sets of the form {p : labels[p] in V} over a label array with a
        CONCRETE number of distinct labels: the sum, over the distinct labels that belong to V, of their populations
        (every row belongs to exactly one group; cardinality of a disjoint union - an assumed fact about counting)."""
        from .core import concrete_value, ite
        from .prelude_groupby import structure_of
        from .sums import count_equal

        info = getattr(self.iset, "isin_of", None)
        if info is None:
            raise Unsupported("size of an index array that is not a label-membership selection")
        labels, member_of = info
        gs = structure_of(labels)
        G = concrete_value(gs.G)
        if G is None:
            raise Unsupported("size of a label-membership selection with a symbolic number of labels")
        ctx().used_axioms.add("cardinality: |{p : label[p] in V}| = sum over the distinct labels in V of their populations")
        tot = 0
        for g in range(int(G)):
            tot = tot + ite(member_of(gs.key(g)), count_equal(labels, gs.key(g)), 0)
        return lift(tot)


class SymIndexTuple(Proxy):
    """Tuple of index arrays (one per dimension of `shape`) selecting exactly `iset`."""

    def __init__(self, iset, shape):
        self.iset = iset
        self.shape = tuple(shape)

    def __len__(self):
        return len(self.shape)


class GenericElem(Proxy):
    """One representative of a symbolic-length sequence: elem(k) for an arbitrary index k."""

    def __init__(self, count, at):
        self.count = count
        self.at = at  # V int -> element

    def map(self, f):
        at = self.at
        return GenericElem(self.count, lambda k: f(at(k)))


class BallResult(Proxy):
    """cKDTree.query_ball_point(x, r, p=inf): per query row k the set {j : max_d |P[j,d]-x[k,d]| <= r}."""

    def __init__(self, tree, nq, xq, r, single, p=float("inf")):
        self.tree, self.nq, self.xq, self.r, self.single, self.p = tree, nq, xq, r, single, p

    def ball(self, k):
        tree, xq, r, pnorm = self.tree, self.xq, self.r, self.p

        def member(j):
            x = xq(k)
            pt = tree.point(j)
            if pnorm == float("inf"):
                return and_(*[and_(pt[d] - x[d] <= r, x[d] - pt[d] <= r) for d in range(tree.m)])
            if pnorm in (2, 2.0):
                return and_(r >= 0, tree.d2(x, j) <= r * r)
            tot = 0
            for d in range(tree.m):
                tot = tot + abs(pt[d] - x[d])
            return tot <= r

        return SymIndexSet(tree.n, member, "ball")

    def __getitem__(self, k):
        if isinstance(k, (slice, tuple)):
            raise Unsupported("slicing a ball-query result")
        return self.ball(k)

    def __len__(self):
        n = lift(self.nq)
        if is_sym(n):
            raise Unsupported("len() of a ball-query result with a symbolic number of queries")
        return int(n)

    def __iter__(self):
        n = lift(self.nq)
        if not is_sym(n):
            for k in range(int(n)):
                yield self.ball(k)
            return
        # symbolic number of query points: one generic representative
        yield GenericElem(self.nq, self.ball)


def np_array_of_indices(x):
    if isinstance(x, GenericElem):
        return x.map(lambda s: SymIndexArr(s))
    return SymIndexArr(x)


def np_unravel(x, shape):
    shape = tuple(shape)

    def one(arr):
        c = ctx()
        n = arr.iset.n
        size = _prod(shape)
        # every enumerated index must be < prod(shape) (numpy raises ValueError otherwise)
        same = (not is_sym(n) and not is_sym(size) and n == size) or (is_sym(n) and is_sym(size) and n.t.eq(size.t))
        if not same and not c.in_spec:
            c.oblige("unravel_index.in_range[%s]" % c.fresh_name("ur"), n <= size, kind="domain")
        return SymIndexTuple(arr.iset, shape)

    if isinstance(x, GenericElem):
        return x.map(one)
    return one(x)
