"""Assumed contracts for xarray (Dataset / DataArray as far as verde uses them)."""
from collections import OrderedDict

from .arr import SymArr, as_array, new_array, broadcast_getter
from .core import Proxy  # noqa
from .core import Unsupported, and_, ctx, is_sym, ite, not_, or_


def _use(name):
    ctx().used_prelude.add("xarray." + name)


class SymCoord(Proxy):
    """A coordinate variable: .values is an array, .dims the dimension names it spans."""

    def __init__(self, values, dims, name=None):
        self.values = values
        self.dims = tuple(dims)
        self.name = name

    @property
    def shape(self):
        return self.values.shape

    @property
    def ndim(self):
        return self.values.ndim

    @property
    def size(self):
        return self.values.size

    def ravel(self):
        return self.values.ravel()


def _as_values(x):
    if isinstance(x, (SymCoord, SymDataArray)):
        return x.values
    return as_array(x)


class SymDataArray:
    def __init__(self, data=None, coords=None, dims=None, name=None, attrs=None):
        _use("DataArray")
        self.values = _as_values(data)
        if dims is None:
            raise Unsupported("DataArray without dims")
        self.dims = tuple(dims)
        if len(self.dims) != self.values.ndim:
            raise ValueError("different number of dimensions on data and dims: %d vs %d" % (self.values.ndim, len(self.dims)))
        self.name = name
        self.attrs = dict(attrs or {})
        self.coords = OrderedDict()
        c = ctx()
        for cname, cv in (coords or {}).items():
            if isinstance(cv, tuple) and len(cv) == 2 and isinstance(cv[0], (tuple, list, str)):
                cd, arr = cv
                cd = (cd,) if isinstance(cd, str) else tuple(cd)
                co = SymCoord(_as_values(arr), cd, cname)
            elif isinstance(cv, SymCoord):
                co = SymCoord(cv.values, cv.dims, cname)
            else:
                arr = _as_values(cv)
                if arr.ndim != 1:
                    raise Unsupported("coordinate %r without dims that is not 1-D" % cname)
                co = SymCoord(arr, (cname,), cname)
            # conformity: every coordinate dimension must have the size of that dimension of the data
            for dname, n in zip(co.dims, co.values.shape):
                if dname in self.dims:
                    want = self.values.shape[self.dims.index(dname)]
                    ok = (n == want) if (is_sym(n) or is_sym(want)) else (n == want)
                    if ok is False:
                        raise ValueError("conflicting sizes for dimension %r: length %s on the data but length %s on coordinate %r" % (dname, want, n, cname))
                    if ok is not True and not c.in_spec:
                        c.oblige("xarray.coord_size[%s]" % c.fresh_name("xr"), ok, kind="domain")
            self.coords[cname] = co

    @property
    def shape(self):
        return self.values.shape

    @property
    def ndim(self):
        return self.values.ndim

    def where(self, cond):
        _use("DataArray.where")
        cond = _as_values(cond)
        v = self.values
        vs = v.snapshot()
        cg = broadcast_getter(cond, v.shape, "where")
        out = new_array(v.shape, lambda idx: vs(*idx), "f")
        old_nan = (lambda idx: v.nan_at(*idx)) if v.storage.nan is not None else (lambda idx: False)
        out.storage.nan = lambda idx: or_(old_nan(idx), not_(cg(idx)))
        r = SymDataArray.__new__(SymDataArray)
        r.values, r.dims, r.name, r.attrs, r.coords = out, self.dims, self.name, dict(self.attrs), self.coords
        return r

    def __getitem__(self, key):
        if isinstance(key, str):
            return self.coords[key]
        raise Unsupported("DataArray indexing")

    def __getattr__(self, name):
        raise AttributeError("DataArray.%s is not modelled" % name)


class _DataVars(OrderedDict):
    pass


class SymDataset:
    def __init__(self, data_vars=None, coords=None, attrs=None):
        _use("Dataset")
        self.attrs = dict(attrs or {})
        self.coords = OrderedDict()
        self.data_vars = _DataVars()
        self.sizes = OrderedDict()
        c = ctx()
        for cname, cv in (coords or {}).items():
            if isinstance(cv, tuple) and len(cv) == 2 and isinstance(cv[0], (tuple, list, str)):
                cd, arr = cv
                cd = (cd,) if isinstance(cd, str) else tuple(cd)
                co = SymCoord(_as_values(arr), cd, cname)
            else:
                arr = _as_values(cv)
                if arr.ndim != 1:
                    raise ValueError("cannot set variable %r with %d-dimensional data without explicit dimension names" % (cname, arr.ndim))
                co = SymCoord(arr, (cname,), cname)
            if len(co.dims) != co.values.ndim:
                raise ValueError("dimensions %s must have the same length as the number of data dimensions, ndim=%d" % (co.dims, co.values.ndim))
            self._register_sizes(co.dims, co.values.shape, cname)
            self.coords[cname] = co
        for vname, vv in (data_vars or {}).items():
            if isinstance(vv, SymDataArray):
                vd, arr = vv.dims, vv.values
            else:
                vd, arr = vv
                vd = (vd,) if isinstance(vd, str) else tuple(vd)
                arr = _as_values(arr)
            if len(vd) != arr.ndim:
                raise ValueError("dimensions %s must have the same length as the number of data dimensions, ndim=%d" % (vd, arr.ndim))
            self._register_sizes(vd, arr.shape, vname)
            da = SymDataArray.__new__(SymDataArray)
            da.values, da.dims, da.name, da.attrs = arr, vd, vname, {}
            da.coords = self.coords
            self.data_vars[vname] = da

    def _register_sizes(self, dims, shape, who):
        c = ctx()
        for dname, n in zip(dims, shape):
            if dname in self.sizes:
                want = self.sizes[dname]
                ok = (n == want)
                if ok is False:
                    raise ValueError("conflicting sizes for dimension %r: length %s on %r and length %s on another variable" % (dname, n, who, want))
                if ok is not True and not c.in_spec:
                    c.oblige("xarray.dim_size[%s]" % c.fresh_name("xr"), ok, kind="domain")
            else:
                self.sizes[dname] = n

    def __getitem__(self, name):
        if name in self.data_vars:
            return self.data_vars[name]
        if name in self.coords:
            return self.coords[name]
        raise KeyError(name)

    def __iter__(self):
        return iter(list(self.data_vars.keys()))

    @property
    def dims(self):
        """Dataset.dims: a mapping name -> size. Its ITERATION ORDER depends on how the Dataset was assembled (which
        variable or coordinate introduced a dimension first), not on any variable's axis order: the model leaves it
        unspecified - for two dimensions both orders are explored (one path each)."""
        _use("Dataset.dims (iteration order unspecified)")
        names = list(self.sizes.keys())
        order = self.__dict__.get("_dims_order")
        if order is None:
            if len(names) == 2:
                c = ctx()
                flip = c.fresh("xr_dataset_dims_flipped", "bool")
                order = names[::-1] if flip else names
            else:
                order = names
            self.__dict__["_dims_order"] = order
        return OrderedDict((k, self.sizes[k]) for k in order)

    def __getattr__(self, name):
        raise AttributeError("Dataset.%s is not modelled" % name)

    def keys(self):
        return self.data_vars.keys()

    def where(self, cond):
        _use("Dataset.where")
        r = SymDataset.__new__(SymDataset)
        r.attrs, r.coords, r.sizes = dict(self.attrs), self.coords, self.sizes
        r.data_vars = _DataVars()
        for k, da in self.data_vars.items():
            r.data_vars[k] = da.where(cond)
        return r


class _XR:
    Dataset = SymDataset
    DataArray = SymDataArray

    def __getattr__(self, name):
        raise Unsupported("xarray.%s has no assumed contract in the prelude" % name)


XR = _XR()
