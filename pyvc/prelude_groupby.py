"""pandas groupby / aggregate and numpy.unique at the SET level.

For an integer label array L (one label per row) the *group structure* is:
  G          number of distinct labels (>= 1 when there are rows)
  key(g)     the g-th distinct label, strictly increasing in g          (pandas: groups sorted by key;
  grp(p)     the group of row p:  key(grp(p)) = L[p], 0 <= grp(p) < G    numpy.unique: sorted unique values)
  rep(g)     some row of group g: L[rep(g)] = key(g)                    (every group is non-empty)
An aggregation of a column over a group is the uninterpreted function
  AGG_<reduction>(member set of the group, column values [, weights])   over z3 lambda arrays,
so that the code and the contract agree exactly when the SAME reduction is applied to the SAME
values with the SAME weights over the SAME block - which is the wiring the properties are about.
All of this is an ASSUMED contract on pandas / numpy."""
import z3

from . import spec as S
from .arr import SymArr, as_array, havoc_array, new_array
from .core import Proxy  # noqa
from .core import SymBool, SymNum, Unsupported, and_, ctx, div, implies, is_sym, ite, not_, or_, to_z3, _numeric


def _use(name):
    ctx().used_prelude.add(name)


class GroupStructure(Proxy):
    def __init__(self, labels):
        c = ctx()
        self.labels = labels
        self.lab = labels.snapshot()
        self.n = labels.shape[0]
        tag = c.fresh_name("grp")
        hint = c.ghost.get("group_count_hint")
        if hint is not None:
            # structural bound chosen by the contract configuration: the number of distinct labels is this CONCRETE
            # number (an assumption on the inputs, recorded with the obligations it was used for)
            self.G = int(hint)
            c.assume(self.n >= int(hint))
            c.used_prelude.add("structural bound: exactly %d distinct labels (occupied blocks)" % int(hint))
        else:
            self.G = c.fresh("ngroups", "int")
        self._key = z3.Function("key_" + tag, z3.IntSort(), z3.IntSort())
        self._grp = z3.Function("grpof_" + tag, z3.IntSort(), z3.IntSort())
        self._rep = z3.Function("rep_" + tag, z3.IntSort(), z3.IntSort())
        from .arr import _storage_ids

        self._leaf = {k: next(_storage_ids) for k in ("key", "grp", "rep")}
        G, n = self.G, self.n
        c.assume(and_(G >= 0, implies(n >= 1, G >= 1), G <= n))
        S.assume(S.Forall((n,), lambda p: and_(self.grp(p) >= 0, self.grp(p) < G, self.key(self.grp(p)) == self.lab(p)), name="groups.every_row_has_its_group"))
        S.assume(S.Forall((G,), lambda g: and_(self.rep(g) >= 0, self.rep(g) < n, self.lab(self.rep(g)) == self.key(g), self.grp(self.rep(g)) == g), name="groups.non_empty"))
        S.assume(S.Forall((G, G), lambda g, h: implies(g < h, self.key(g) < self.key(h)), name="groups.keys_strictly_increasing"))
        c.used_axioms.add("group structure of a label array: distinct labels sorted ascending, every row in exactly the group of its label, no empty group")

    def _app(self, which, f, x):
        ctx().leaf_touch(self._leaf[which], (x,))
        return SymNum(f(to_z3(x)), "int")

    def key(self, g):
        return self._app("key", self._key, g)

    def grp(self, p):
        return self._app("grp", self._grp, p)

    def rep(self, g):
        return self._app("rep", self._rep, g)

    def member_lambda(self, g):
        p = z3.Int("row!")
        lab = self.lab(SymNum(p, "int"))
        return z3.Lambda([p], z3.And(p >= 0, p < to_z3(self.n), to_z3(lab) == to_z3(self.key(g))))


def structure_of(labels):
    """One group structure per label array *content* (cached on the path)."""
    c = ctx()
    labels = as_array(labels)
    key = (labels.storage.id, labels.storage.nwrites, id(labels._fwd))
    cache = c.ghost.setdefault("group_structures", {})
    if key not in cache:
        if labels.ndim != 1:
            raise Unsupported("group structure of a non 1-D label array")
        cache[key] = GroupStructure(labels)
    return cache[key]


def _body(fn, g):
    """Canonical text of a column expression over the bound row variable, with the group index abstracted."""
    c = ctx()
    p = z3.Int("row!")
    c.native_divmod = getattr(c, "native_divmod", 0) + 1
    try:
        v = fn(SymNum(p, "int"))
    finally:
        c.native_divmod -= 1
    t = to_z3(_numeric(v), "real")
    if isinstance(g, SymNum):
        t = z3.substitute(t, (g.t, z3.Int("grp!")))
    return z3.simplify(t).sexpr()


def _holds_for_all_rows(gs, pred):
    """Try to prove pred(p) for an arbitrary row p (used to justify sign facts about aggregates)."""
    from .core import to_z3_bool

    c = ctx()
    p = c.fresh("anyrow", "int")
    r, _ = c.check([to_z3_bool(and_(p >= 0, p < gs.n)), z3.Not(to_z3_bool(pred(p)))], timeout_ms=5000)
    return r == "unsat"


_AGG_FUNCS = {}


def agg_term(kind, gs, g, val_fn, wt_fn=None):
    """The aggregate  kind{ (val(p), wt(p)) : p in group g }  as an uninterpreted function of the group index.

    One function symbol per (reduction, grouping, value expression, weight expression) - identified by the
    canonical text of the expressions over the row variable - so two aggregates are the same term exactly when
    the SAME reduction is applied to the SAME values with the SAME weights over the SAME group."""
    import hashlib

    c = ctx()
    vb = _body(val_fn, g)
    wb = None if wt_fn is None else _body(wt_fn, g)
    sig = "%s|%s|%s|%s" % (kind, id(gs), vb, wb)
    name = "AGG_%s_%s" % (kind, hashlib.sha1(sig.encode()).hexdigest()[:10])
    if name not in _AGG_FUNCS:
        _AGG_FUNCS[name] = z3.Function(name, z3.IntSort(), z3.RealSort())
    r = SymNum(_AGG_FUNCS[name](to_z3(g)), "real")
    cache = c.ghost.setdefault("agg_sign_cache", {})
    if name not in cache and not c.in_spec_probe():
        cache[name] = []
        facts = []
        if kind.startswith("var") or kind.startswith("std"):
            facts.append("nonneg")
        elif kind in ("sum", "mean", "median", "min", "max", "average"):
            wt_ok = wt_fn is None or _holds_for_all_rows(gs, lambda p: _numeric(wt_fn(p)) > 0)
            if wt_ok and _holds_for_all_rows(gs, lambda p: _numeric(val_fn(p)) > 0):
                facts.append("pos")
            elif wt_ok and _holds_for_all_rows(gs, lambda p: _numeric(val_fn(p)) >= 0):
                facts.append("nonneg")
        cache[name] = facts
    for fct in cache.get(name) or []:
        c.assume(r > 0 if fct == "pos" else r >= 0)
        c.used_axioms.add("aggregates over a non-empty group: variance >= 0; sum/mean/median/min/max/weighted average of positive (non-negative) values with positive weights is positive (non-negative)")
    return r


class GroupIndex(Proxy):
    def __init__(self, gs, g):
        self.gs, self.g = gs, g


class GroupSeries(Proxy):
    """The values of one (possibly derived) column restricted to the rows of group g."""

    __array_priority__ = 3000

    def __init__(self, gs, g, val_fn):
        self.gs, self.g, self.val = gs, g, val_fn

    @property
    def index(self):
        return GroupIndex(self.gs, self.g)

    @property
    def values(self):
        return self

    def _bin(self, o, op, swap=False):
        if isinstance(o, GroupSeries):
            if o.gs is not self.gs:
                raise Unsupported("arithmetic between series of different groupings")
            of = o.val
        elif isinstance(o, (int, float, SymNum)):
            of = lambda p: o
        else:
            return NotImplemented
        sf = self.val
        if swap:
            return GroupSeries(self.gs, self.g, lambda p: op(of(p), sf(p)))
        return GroupSeries(self.gs, self.g, lambda p: op(sf(p), of(p)))

    def __add__(self, o):
        return self._bin(o, lambda a, b: a + b)

    __radd__ = __add__

    def __sub__(self, o):
        return self._bin(o, lambda a, b: a - b)

    def __rsub__(self, o):
        return self._bin(o, lambda a, b: a - b, True)

    def __mul__(self, o):
        return self._bin(o, lambda a, b: a * b)

    __rmul__ = __mul__

    def __pow__(self, k):
        from .core import power

        return GroupSeries(self.gs, self.g, lambda p: power(self.val(p), k))

    # reductions
    def _agg(self, kind, weights=None):
        _use("pandas/numpy reduction over a group: %s" % kind)
        if weights is not None:
            if not isinstance(weights, GroupSeries) or weights.gs is not self.gs:
                raise Unsupported("weights that are not a series of the same group")
            c = ctx()
            # alignment: the weights must be restricted to the SAME group (numpy would mis-pair otherwise)
            same = (weights.g is self.g) or (isinstance(weights.g, SymNum) and isinstance(self.g, SymNum) and weights.g.t.eq(self.g.t)) or (not is_sym(weights.g) and not is_sym(self.g) and weights.g == self.g)
            if not same and not c.in_spec:
                c.oblige("groupby.weights_of_the_same_group[%s]" % c.fresh_name("gw"), weights.g == self.g, kind="domain")
            return agg_term(kind, self.gs, self.g, self.val, weights.val)
        return agg_term(kind, self.gs, self.g, self.val)

    def sum(self):
        return self._agg("sum")

    def mean(self):
        return self._agg("mean")

    def min(self):
        return self._agg("min")

    def max(self):
        return self._agg("max")

    def median(self):
        return self._agg("median")

    def var(self, ddof=1):
        return self._agg("var_ddof%d" % ddof)

    def __array_function__(self, func, types, args, kwargs):
        name = getattr(func, "__name__", "")
        return group_reduce(name, *args, **kwargs)


NUMPY_REDUCTIONS = {"mean": "mean", "median": "median", "sum": "sum", "amin": "min", "amax": "max", "min": "min", "max": "max", "var": "var_ddof0", "std": "std_ddof0", "average": "mean"}


def group_reduce(name, values, weights=None, **kw):
    if not isinstance(values, GroupSeries):
        raise Unsupported("numpy.%s on %r" % (name, type(values)))
    if kw:
        raise Unsupported("numpy.%s with %s on a group" % (name, sorted(kw)))
    if name == "average" and weights is not None:
        return values._agg("average", weights)
    if name not in NUMPY_REDUCTIONS:
        raise Unsupported("numpy.%s over a group has no assumed contract" % name)
    if weights is not None:
        raise Unsupported("numpy.%s with weights" % name)
    return values._agg(NUMPY_REDUCTIONS[name])


class GroupFrame(Proxy):
    """The sub-frame of one group (groupby.apply)."""

    def __init__(self, gb, g):
        self.gb, self.g = gb, g

    def __getitem__(self, name):
        col = self.gb.frame.cols[name]
        snap = col.snapshot()
        return GroupSeries(self.gb.gs, self.g, lambda p: snap(p))


class SymAggregated(Proxy):
    """Result of groupby(...).aggregate / apply: one row per group, ascending key."""

    def __init__(self, gs, columns):
        self.gs = gs
        self.cols = columns  # name or (name, sub) -> fn(g) -> V
        self.assigned = {}

    def __getitem__(self, key):
        from .prelude_pd import SymSeries

        if isinstance(key, list):
            raise Unsupported("multi-column selection on an aggregated frame")
        if key in self.assigned:
            return SymSeries(self.assigned[key], name=key)
        if key not in self.cols:
            raise KeyError(key)
        fn = self.cols[key]
        return SymSeries(new_array((self.gs.G,), lambda idx: fn(idx[0]), "f"), name=key)

    def __setitem__(self, key, value):
        arr = as_array(value)
        c = ctx()
        if arr.ndim != 1:
            raise ValueError("Length of values does not match length of index")
        c.oblige("aggregated.setitem_length[%s]" % c.fresh_name("ag"), arr.shape[0] == self.gs.G, kind="domain")
        self.assigned[key] = arr.copy()

    def assign(self, **kwargs):
        """DataFrame.assign: a shallow copy with the given columns set (the original is left as it was)."""
        _use("pandas.DataFrame.assign")
        new = SymAggregated(self.gs, dict(self.cols))
        new.assigned = dict(self.assigned)
        for key, value in kwargs.items():
            if callable(value):
                raise Unsupported("DataFrame.assign with a callable")
            new[key] = value
        return new


class SymGroupBy(Proxy):
    def __init__(self, frame, key):
        _use("pandas.DataFrame.groupby")
        if not isinstance(key, str) or key not in frame.cols:
            raise Unsupported("groupby on %r" % (key,))
        self.frame, self.keyname = frame, key
        lab = frame.cols[key]
        if lab.kind != "i":
            raise Unsupported("groupby on a non-integer key column")
        self.gs = structure_of(lab)

    def _apply_callable(self, fn, colname, g):
        col = self.frame.cols[colname]
        snap = col.snapshot()
        out = fn(GroupSeries(self.gs, g, lambda p: snap(p)))
        if isinstance(out, GroupSeries):
            raise Unsupported("aggregation function did not reduce the group to a scalar")
        return out

    def aggregate(self, how):
        _use("pandas.GroupBy.aggregate")
        others = [k for k in self.frame.cols if k != self.keyname]
        for k in (how if isinstance(how, dict) else others):
            if k in self.frame.cols and self.frame.cols[k].kind != "f":
                # pandas keeps an integer dtype under sum/min/max/first/... and promotes it under mean/median; the model
                # types every aggregated column float64, which is only right for float input
                raise Unsupported("aggregate over the non-float column %r: the dtype of the result depends on the reduction" % (k,))
        cols = {}
        if callable(how):
            for k in others:
                cols[k] = (lambda g, k=k: self._apply_callable(how, k, g))
        elif isinstance(how, dict):
            for k, spec_ in how.items():
                if k not in self.frame.cols:
                    raise KeyError("Column(s) ['%s'] do not exist" % k)
                if callable(spec_):
                    cols[k] = (lambda g, k=k, f=spec_: self._apply_callable(f, k, g))
                elif isinstance(spec_, (tuple, list)):
                    for sub, f in spec_:
                        cols[(k, sub)] = (lambda g, k=k, f=f: self._apply_callable(f, k, g))
                else:
                    raise Unsupported("aggregate spec %r" % (spec_,))
        else:
            raise Unsupported("aggregate(%r)" % (how,))
        # evaluate once at a generic group to surface Unsupported / domain obligations eagerly
        c = ctx()
        g0 = c.fresh("g", "int")
        c.assume(and_(g0 >= 0, g0 < self.gs.G))
        for f in cols.values():
            f(g0)
        return SymAggregated(self.gs, cols)

    agg = aggregate

    def apply(self, fn):
        """apply(fn) with fn(group_frame) -> one-row DataFrame: columns of the result per group."""
        _use("pandas.GroupBy.apply")
        c = ctx()
        g0 = c.fresh("g", "int")
        c.assume(and_(g0 >= 0, g0 < self.gs.G))
        probe = fn(GroupFrame(self, g0))
        from .prelude_pd import SymRowFrame

        if not isinstance(probe, SymRowFrame):
            raise Unsupported("groupby.apply with a function that does not return a one-row DataFrame")
        names = list(probe.names)
        cols = {}
        memo = {}

        def row_for(g):
            key = g.t.get_id() if isinstance(g, SymNum) else ("c", g)
            if key not in memo:
                c2 = ctx()
                c2.in_spec += 1  # re-evaluation for another group index: obligations were emitted for the generic probe
                try:
                    memo[key] = fn(GroupFrame(self, g))
                finally:
                    c2.in_spec -= 1
            return memo[key]

        memo[g0.t.get_id()] = probe
        for k, name in enumerate(names):
            cols[name] = (lambda g, k=k: row_for(g).value(k))
        return SymAggregated(self.gs, cols)


def np_unique(labels):
    """numpy.unique of a 1-D integer array: its distinct values in ascending order."""
    _use("numpy.unique")
    gs = structure_of(labels)
    return new_array((gs.G,), lambda idx: gs.key(idx[0]), "i")
