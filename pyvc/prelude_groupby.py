"""pandas groupby-aggregate at the set level (filled in with the block-reduction properties)."""
from .core import Unsupported


class SymGroupBy:
    def __init__(self, frame, key):
        raise Unsupported("DataFrame.groupby")
