"""Sidecar contracts for property C19: load_surfer."""
import io
import os
import tempfile

import numpy as np

from pyvc.arr import SymArr, as_array, havoc_array, new_array
from pyvc.concrete import unwrap, wrap
from pyvc.contract import Contract, RaiseCond, register
from pyvc.core import and_, ctx, iff, implies, is_sym, not_, or_
from pyvc.prelude_io import OpenStub, SymFile, SymLine, SymToken
from pyvc.prelude_np import _minmax
from pyvc.prelude_xr import SymDataArray
from pyvc.spec import All, Exists, Forall, Imp, close

from .coordinates_c07 import _LineArgs, _line_nodes_formula

IO = "verde.io"
SENTINEL = 1.70141e38


def np_close(x, y):
    return abs(x - y) <= 1e-08 + 1e-05 * abs(y)


class SurferModel:
    """Symbolic Surfer file: header numbers + body array."""

    def __init__(self, B, ints_ok=True):
        self.grid_id = "GRID-ID-TEXT"
        self.n0, self.n1 = B.int("hdr_n_northing"), B.int("hdr_n_easting")
        self.south, self.north = B.real("hdr_south"), B.real("hdr_north")
        self.west, self.east = B.real("hdr_west"), B.real("hdr_east")
        self.zmin, self.zmax = B.real("hdr_zmin"), B.real("hdr_zmax")
        self.rows, self.cols = B.dim("body_rows", 1), B.dim("body_cols", 1)
        self.body = B.array("body", (self.rows, self.cols))
        self.unparsable = B.bool("body_unparsable")  # np.loadtxt may refuse the body (ragged rows, bad tokens)

    def file(self, name=None):
        lines = [
            SymLine(text=self.grid_id),
            SymLine(tokens=[SymToken(self.n0, True), SymToken(self.n1, True)]),
            SymLine(tokens=[SymToken(self.south, False), SymToken(self.north, False)]),
            SymLine(tokens=[SymToken(self.west, False), SymToken(self.east, False)]),
            SymLine(tokens=[SymToken(self.zmin, False), SymToken(self.zmax, False)]),
        ]
        f = SymFile(lines, self.body, name)
        f.unparsable = self.unparsable
        return f


def write_surfer(values, region, shape_hdr=None, zrange=None, fmt="%.8g", wrap_cols=None, grid_id="DSAA"):
    """Write a Surfer ASCII grid (one grid row per line unless wrap_cols) and return the text."""
    vals = np.asarray(values, dtype=float)
    shape_hdr = shape_hdr or vals.shape
    good = vals[vals < SENTINEL]
    zrange = zrange or (float(good.min()), float(good.max()))
    w, e, s, n = region
    out = [grid_id, "%d %d" % (shape_hdr[0], shape_hdr[1]), "%.12g %.12g" % (s, n), "%.12g %.12g" % (w, e), "%.12g %.12g" % zrange]
    for row in vals:
        toks = [fmt % v for v in row]
        if wrap_cols:
            for k in range(0, len(toks), wrap_cols):
                out.append("  ".join(toks[k : k + wrap_cols]))
        else:
            out.append(" ".join(toks))
    return "\n".join(out) + "\n"


class ConcreteSurfer:
    """A concrete file + what was written into it (for the run-time contract)."""

    def __init__(self, text, values, region, hdr_shape, zrange, as_path):
        self.text, self.values, self.region, self.hdr_shape, self.zrange, self.as_path = text, np.asarray(values, dtype=float), region, hdr_shape, zrange, as_path
        self.path = None

    def open(self):
        if self.as_path:
            fd, self.path = tempfile.mkstemp(suffix=".grd", dir=os.environ.get("VERIF_SCRATCH", None))
            with os.fdopen(fd, "w") as fh:
                fh.write(self.text)
            return self.path
        return io.StringIO(self.text)


def load_surfer_case(case, dtype="float64"):
    """Client of the real load_surfer on a generated file; also reports whether a handle stayed open."""
    import verde
    import builtins

    opened = []
    real_open = builtins.open

    def spy(*a, **k):
        f = real_open(*a, **k)
        opened.append(f)
        return f

    src = case.open()
    import verde.io as vio

    vio.open = spy
    try:
        try:
            grid = verde.load_surfer(src, dtype=dtype)
            err = None
        except Exception as e:  # noqa
            grid, err = None, e
    finally:
        del vio.open
        if case.path:
            os.unlink(case.path)
    leaked = [f for f in opened if not f.closed]
    for f in leaked:
        f.close()
    return grid, err, len(opened), len(leaked)


@register
class LoadSurfer(Contract):
    target = IO + ":load_surfer"
    inline = ("_read_surfer_header", "_check_surfer_integrity")
    cover_raise = True

    def configs(self, tier):
        return [{"src": "path"}, {"src": "fileobj"}]

    def patch_modules(self, P):
        import verde.io as vio

        self._open = OpenStub()
        P.set(vio, "open", self._open)

    def setup(self, B, cfg):
        m = SurferModel(B)
        self._model = m
        if cfg["src"] == "path":
            f = m.file("data/grid.grd")
            self._open.register("data/grid.grd", f)
            self._file = f
            return ("data/grid.grd",), {}
        f = m.file()
        self._file = f
        return (f,), {}

    def requires(self, a):
        m = self._model
        # at least one cell is not blanked (otherwise the range check has nothing to compare)
        return Exists(m.body.shape, lambda i, j: m.body.at(i, j) < SENTINEL)

    def _spec_minmax(self):
        """min / max over the non-blank cells as spec values (bound + attained)."""
        m = self._model
        if not hasattr(self, "_mm") or self._mm[0] is not ctx():
            from pyvc.prelude_io import MA

            masked = MA.masked_where(m.body >= SENTINEL, m.body)
            self._mm = (ctx(), masked.min(), masked.max())
        return self._mm[1], self._mm[2]

    def raises(self, a):
        m = self._model
        mn, mx = self._spec_minmax()
        shape_bad = or_(m.rows != m.n0, m.cols != m.n1)
        range_bad = not_(and_(np_close(mn, m.zmin), np_close(mx, m.zmax)))
        # a body numpy.loadtxt cannot parse is refused with its ValueError (before any integrity check)
        return [(ValueError, m.unparsable), (IOError, and_(not_(m.unparsable), or_(shape_bad, range_bad)))]

    def ensures(self, a, r):
        m = self._model
        out = {"is_a_dataarray": isinstance(r, SymDataArray)}
        if not out["is_a_dataarray"]:
            return out
        out["dims_are_northing_easting"] = tuple(r.dims) == ("northing", "easting")
        vals = r.values
        out["shape_is_the_headers_and_the_bodys"] = and_(vals.shape[0] == m.n0, vals.shape[1] == m.n1, vals.shape[0] == m.rows, vals.shape[1] == m.cols)
        out["values_row_by_row_in_file_order_with_blank_sentinels_as_nan"] = Forall(
            m.body.shape, lambda i, j: and_(iff(vals.nan_at(i, j), m.body.at(i, j) >= SENTINEL), implies(m.body.at(i, j) < SENTINEL, vals.at(i, j) == m.body.at(i, j)))
        )
        okc = "northing" in r.coords and "easting" in r.coords
        out["has_northing_and_easting_coordinates"] = okc
        if okc:
            cn, ce = r.coords["northing"].values, r.coords["easting"].values
            for k, f in _line_nodes_formula(_LineArgs(m.south, m.north, m.n0, None, "spacing", False), cn).items():
                out["northing_evenly_spans_the_header_range." + k] = f
            for k, f in _line_nodes_formula(_LineArgs(m.west, m.east, m.n1, None, "spacing", False), ce).items():
                out["easting_evenly_spans_the_header_range." + k] = f
        is_path = isinstance(a.fname, str)
        out["grid_id_in_attributes"] = r.attrs.get("gridID") == m.grid_id
        out["file_attribute_iff_given_a_path"] = (r.attrs.get("file") == a.fname) if is_path else ("file" not in r.attrs)
        out["file_opened_here_is_closed"] = self._file.closed if is_path else True
        out["caller_file_object_left_open"] = (not self._file.closed) if not is_path else True
        return out

    native_replay = False  # the symbolic file has no native twin; generated files are checked by load_surfer_case

    def ensures_on_raise(self, a, exc):
        is_path = isinstance(a.fname, str)
        return {
            "file_opened_here_is_closed_on_the_error_path": self._file.closed if is_path else True,
            "caller_file_object_left_open_on_the_error_path": (not self._file.closed) if not is_path else True,
        }


@register
class LoadSurferCase(Contract):
    """Run-time contract (BOUNDED) on generated Surfer files: faithful or refused, handles closed."""

    target = "contracts.io_c19:load_surfer_case"
    cover_return = False

    def configs(self, tier):
        return []

    def samples(self, rng, nrng, tier):
        n = 60 if tier == "thorough" else 24
        for k in range(n):
            nn, ne = rng.randint(2, 5), rng.randint(2, 6)
            vals = nrng.uniform(-1e3, 1e3, (nn, ne)) * rng.choice([1.0, 1e-6, 1e6])
            if rng.random() < 0.3:
                vals[rng.randrange(nn), rng.randrange(ne)] = vals[0, 0]  # repeated values
            if rng.random() < 0.4:
                for _ in range(rng.randint(1, 3)):
                    # any value >= 1.70141e38 is a blank sentinel (the statement), not only the canonical one
                    vals[rng.randrange(nn), rng.randrange(ne)] = rng.choice([1.70141e38, 1.70141e38, 1.71e38, 3.4028235e38, 1e39])
            if (vals < SENTINEL).sum() == 0:
                vals[0, 0] = 1.0
            region = (rng.uniform(-100, 0), rng.uniform(1, 100), rng.uniform(-50, 0), rng.uniform(1, 50))
            if k % 4 == 3:  # a projected (UTM-like) region: large offsets, sub-metre spacing
                region = (500000.25, 500000.25 + 0.25 * (ne - 1), 7000000.25, 7000000.25 + 0.25 * (nn - 1))
            fmt = rng.choice(["%.10g", "%14.7e", "%.6f", "%   .9g"])
            kinds = ["ok", "wrapped", "bad_count", "swapped_count", "bad_range", "shifted_range", "ragged", "bad_token", "extra_rows", "small_limit_off", "ok", "ok"]
            kind = kinds[k] if k < len(kinds) else rng.choice(kinds)  # every kind at least once
            if kind == "small_limit_off":
                # values over many orders of magnitude; only the SMALL-magnitude limit of the header will be wrong
                vals = np.abs(vals) / np.abs(vals).max() * 1e6 * rng.choice([1.0, -1.0])
                vals.flat[0] = 3.0 * np.sign(vals.flat[1])
            if kind == "extra_rows":
                # more rows in the body than the header announces, the surplus repeating rows that are already there
                # (so the value range of the announced rows is the range of the whole body)
                vals[-1] = vals[0]
            if (vals < SENTINEL).sum() == 0:  # (a row of blanks copied over the only value)
                vals[0, 0] = vals[-1, 0] = 1.0
            good = vals[vals < SENTINEL]
            zr = (float(good.min()), float(good.max()))
            hdr_shape, wrap_cols = (nn, ne), None
            if kind == "wrapped":
                wrap_cols = rng.randint(1, ne - 1) if ne > 1 else None
            elif kind == "bad_count":
                hdr_shape = (nn + rng.choice([-1, 1]), ne)
            elif kind == "extra_rows":
                hdr_shape = (nn - 1, ne)
            elif kind == "swapped_count" and nn != ne:
                hdr_shape = (ne, nn)
            elif kind == "bad_range":
                zr = (zr[1], zr[0]) if zr[0] != zr[1] else (zr[0] - 1, zr[1])
            elif kind == "small_limit_off":
                zr = (zr[0] + 7.0, zr[1]) if abs(zr[0]) < abs(zr[1]) else (zr[0], zr[1] - 7.0)
            elif kind == "shifted_range":
                span = (zr[1] - zr[0]) or 1.0
                zr = (zr[0] + 0.1 * span, zr[1] + 0.1 * span)
            text = write_surfer(vals, region, hdr_shape, zr, fmt, wrap_cols)
            if kind == "ragged":  # rows of unequal length: numpy.loadtxt itself raises (while the file is open)
                lines = text.rstrip("\n").split("\n")
                lines[-1] = lines[-1] + " 1.0"
                text = "\n".join(lines) + "\n"
            elif kind == "bad_token":
                lines = text.rstrip("\n").split("\n")
                lines[6 if len(lines) > 6 else 5] = lines[6 if len(lines) > 6 else 5].replace(lines[6 if len(lines) > 6 else 5].split()[0], "n/a", 1)
                text = "\n".join(lines) + "\n"
            yield (ConcreteSurfer(text, vals, region, hdr_shape, zr, as_path=rng.random() < 0.5),), dict(dtype=rng.choice(["float64", "float32"]))

    def ensures(self, a, r):
        grid, err, n_opened, n_leaked = r
        case = a.case
        out = {"files_opened_by_the_function_are_closed": n_leaked == 0, "opens_a_file_only_when_given_a_path": n_opened == (1 if case.as_path else 0)}
        if err is not None:
            out["refusal_is_an_ioerror_or_valueerror"] = isinstance(err, (IOError, ValueError))
            # a refusal is always acceptable for a malformed file; a WELL-FORMED one-row-per-line file must load
            well_formed = False
            try:
                body = np.array([[float(t) for t in ln.split()] for ln in case.text.splitlines()[5:]])
                good = body[body < SENTINEL]
                well_formed = body.shape == tuple(case.hdr_shape) and np.allclose([good.min(), good.max()], case.zrange)
            except Exception:
                well_formed = False
            out["well_formed_files_are_not_refused"] = not well_formed
            return out
        # returned a grid: it must be exactly what the file says (no input ever yields a grid that differs from the file)
        body = np.array([float(t) for ln in case.text.splitlines()[5:] for t in ln.split()])
        vals = np.asarray(grid.values, dtype=float)
        nn, ne = case.hdr_shape
        out["shape_is_the_headers"] = vals.shape == (nn, ne)
        ok = vals.size == body.size
        if ok:
            written = body.reshape(vals.shape)
            blank = written >= SENTINEL
            rel = 1e-6 if str(a.dtype) == "float32" else 1e-12
            ok = bool(np.array_equal(np.isnan(vals), blank) and np.allclose(vals[~blank], written[~blank], rtol=rel, atol=0))
        out["values_are_those_written_row_by_row_blank_cells_nan"] = ok
        out["values_have_the_requested_dtype"] = str(np.asarray(grid.values).dtype) == str(a.dtype)  # ("both dtypes", path or file object)
        # "a file whose body disagrees with its header in ... data range raises an error instead of returning data": a
        # returned grid comes from a file whose header limits are the body's, up to the digits a header is written with
        goodb = body[body < SENTINEL]
        if goodb.size:
            out["returned_only_if_the_header_data_range_is_the_bodys"] = all(
                abs(h - b) <= 1.1e-5 * max(abs(h), abs(b)) + 1e-6 for h, b in zip(case.zrange, (float(goodb.min()), float(goodb.max())))
            )
        w, e, s, n = case.region
        # the coordinates are the evenly spaced float64 nodes between the header bounds - whatever dtype the VALUES are
        # read as (compared exactly: single precision cannot even separate neighbouring nodes of a UTM-sized region)
        out["coordinates_evenly_span_the_header_ranges"] = bool(
            np.array_equal(np.asarray(grid.coords["northing"].values, dtype="float64"), np.linspace(float("%.12g" % s), float("%.12g" % n), nn))
            and np.array_equal(np.asarray(grid.coords["easting"].values, dtype="float64"), np.linspace(float("%.12g" % w), float("%.12g" % e), ne))
        )
        out["dims_are_northing_easting"] = tuple(grid.dims) == ("northing", "easting")
        out["grid_id_in_attributes"] = grid.attrs.get("gridID") == "DSAA"
        out["file_attribute_iff_given_a_path"] = ("file" in grid.attrs) == case.as_path
        return out
