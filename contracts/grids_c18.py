"""Sidecar contracts for property C18: grid <-> table conversions."""
import numpy as np

from pyvc.arr import SymArr, as_array, flat_index, havoc_array, new_array, unflatten
from pyvc.concrete import unwrap, wrap
from pyvc.contract import Contract, RaiseCond, register
from pyvc.core import and_, ctx, implies, is_sym, ite, not_, or_
from pyvc.prelude_pd import SymDataFrame
from pyvc.prelude_xr import SymCoord, SymDataArray, SymDataset
from pyvc.spec import All, Exists, Forall, Imp, close

from .blocks_c08 import BU, flat
from .coordinates_c13 import _coords, _rand_coords

UT = "verde.utils"
# names are deliberately NOT in alphabetical (or any sorted) order: a column/coordinate order that depends on
# sorting the names instead of on the order they were given must show
_XN = ["upward", "time", "extra", "zz_top"]
_VN = ["scalars", "alpha", "zeta", "beta", "gamma"]



# ---------------------------------------------------------------- uniform views of xarray / pandas objects


def _exact(values):
    """Integer (and bool) arrays keep their own values (exact comparison, also beyond 2**53); everything else as float64."""
    arr = np.asarray(values)
    return arr.astype("int64") if arr.dtype.kind in "iub" else np.asarray(arr, dtype=float)


def ds_view(obj):
    """{'coords': {name: (dims, arr)}, 'vars': {name: (dims, arr)}, 'attrs': {...}} for a Dataset (proxy or real)."""
    if isinstance(obj, SymDataset):
        return {
            "coords": {k: (v.dims, v.values) for k, v in obj.coords.items()},
            "vars": {k: (v.dims, v.values) for k, v in obj.data_vars.items()},
            "attrs": dict(obj.attrs),
            "var_attrs": {k: dict(v.attrs) for k, v in obj.data_vars.items()},
        }
    return {
        "coords": {k: (tuple(v.dims), wrap(_exact(v.values))) for k, v in obj.coords.items()},
        "vars": {k: (tuple(v.dims), wrap(_exact(v.values))) for k, v in obj.data_vars.items()},
        "attrs": dict(obj.attrs),
        "var_attrs": {k: dict(v.attrs) for k, v in obj.data_vars.items()},
    }


def df_view(obj):
    """Ordered [(column name, 1-D arr)] of a DataFrame (proxy or real)."""
    if isinstance(obj, SymDataFrame):
        return list(obj.cols.items())
    return [(k, wrap(_exact(obj[k].values))) for k in obj.columns]


def close_enough(x, y):
    """numpy.allclose's element test |x - y| <= 1e-8 + 1e-5 |y|"""
    return abs(x - y) <= 1e-08 + 1e-05 * abs(y)


def is_meshgrid_pair(E, N):
    return (
        Forall(E.shape, lambda i, j: and_(close_enough(E.at(0, j), E.at(i, j)), close_enough(N.at(i, 0), N.at(i, j)))),
        Exists(E.shape, lambda i, j: or_(not_(close_enough(E.at(0, j), E.at(i, j))), not_(close_enough(N.at(i, 0), N.at(i, j))))),
    )


@register
class GetNdimHorizontalCoords(Contract):
    target = UT + ":get_ndim_horizontal_coords"
    functional = True
    cover_raise = True

    def configs(self, tier):
        return [{"r": (1, 1)}, {"r": (2, 2)}, {"r": (1, 2)}, {"r": (2, 1)}]

    def setup(self, B, cfg):
        a0 = B.array("e", tuple(B.dim("a%d" % k, 0) for k in range(cfg["r"][0])))
        a1 = B.array("n", tuple(B.dim("b%d" % k, 0) for k in range(cfg["r"][1])))
        return (a0, a1), {}

    def raises(self, a):
        return [(ValueError, as_array(a.easting).ndim != as_array(a.northing).ndim)]

    def havoc(self, a):
        return as_array(a.easting).ndim

    def ensures(self, a, r):
        return {"number_of_dimensions_of_the_horizontal_coordinates": r == as_array(a.easting).ndim}


@register
class CheckMeshgrid(Contract):
    target = UT + ":check_meshgrid"
    cover_raise = True

    def configs(self, tier):
        return [{"extra": 0}, {"extra": 1}]

    def setup(self, B, cfg):
        return (_coords(B, 2, cfg["extra"], minsize=1),), {}

    def raises(self, a):
        pos, neg = is_meshgrid_pair(a.coordinates[0], a.coordinates[1])
        return [(ValueError, RaiseCond(neg, pos))]

    def havoc(self, a):
        return None

    def samples(self, rng, nrng, tier):
        e, n = np.meshgrid(np.linspace(0, 3, 4), np.linspace(-1, 1, 3))
        yield ((e, n),), {}
        yield ((e + 1e-3 * nrng.rand(*e.shape), n),), {}
        yield ((n, e),), {}

    def ensures(self, a, r):
        return {"returns_none": r is None}


@register
class MeshgridTo1d(Contract):
    functional = True
    target = UT + ":meshgrid_to_1d"
    stubs = {"check_coordinates": BU + ":check_coordinates", "check_meshgrid": UT + ":check_meshgrid"}
    cover_raise = True

    def configs(self, tier):
        return [{"extra": 0}, {"extra": 2}]

    def setup(self, B, cfg):
        return (_coords(B, 2, cfg["extra"], minsize=1),), {}

    def raises(self, a):
        pos, neg = is_meshgrid_pair(a.coordinates[0], a.coordinates[1])
        return [(ValueError, RaiseCond(neg, pos))]

    def havoc(self, a):
        E, N = a.coordinates[0], a.coordinates[1]
        return (E[0, :], N[:, 0]) + tuple(a.coordinates[2:])

    def ensures(self, a, r):
        E, N = a.coordinates[0], a.coordinates[1]
        ok = isinstance(r, tuple) and len(r) == len(a.coordinates) and r[0].ndim == 1 and r[1].ndim == 1
        out = {"tuple_of_1d_axes_plus_extras": ok}
        if not ok:
            return out
        out["easting_is_the_first_row"] = All(r[0].shape[0] == E.shape[1], Forall((E.shape[1],), lambda j: r[0].at(j) == E.at(0, j)))
        out["northing_is_the_first_column"] = All(r[1].shape[0] == N.shape[0], Forall((N.shape[0],), lambda i: r[1].at(i) == N.at(i, 0)))
        out["extra_coordinates_passed_through"] = all(x is y for x, y in zip(r[2:], a.coordinates[2:]))
        return out


@register
class MeshgridFrom1d(Contract):
    functional = True
    target = UT + ":meshgrid_from_1d"
    stubs = {"get_ndim_horizontal_coords": UT + ":get_ndim_horizontal_coords", "check_coordinates": BU + ":check_coordinates"}
    cover_raise = True

    def configs(self, tier):
        return [{"rank": 1, "extra": 0}, {"rank": 1, "extra": 1}, {"rank": 2, "extra": 0}]

    def setup(self, B, cfg):
        if cfg["rank"] == 1:
            ne, nn = B.dim("ne", 0), B.dim("nn", 0)
            coords = (B.array("e1", (ne,)), B.array("n1", (nn,))) + tuple(B.array("x%d" % k, (nn, ne)) for k in range(cfg["extra"]))
        else:
            coords = _coords(B, 2, 0, minsize=0)
        return (coords,), {}

    def raises(self, a):
        return [(ValueError, as_array(a.coordinates[0]).ndim != 1 or as_array(a.coordinates[1]).ndim != 1)]

    def havoc(self, a):
        e1, n1 = a.coordinates[0].copy(), a.coordinates[1].copy()
        shape = (n1.shape[0], e1.shape[0])
        return (new_array(shape, lambda idx: e1.at(idx[1]), "f"), new_array(shape, lambda idx: n1.at(idx[0]), "f")) + tuple(a.coordinates[2:])

    def ensures(self, a, r):
        e1, n1 = a.coordinates[0], a.coordinates[1]
        ok = isinstance(r, tuple) and len(r) == len(a.coordinates) and r[0].ndim == 2 and r[1].ndim == 2
        out = {"tuple_of_2d_meshgrids_plus_extras": ok}
        if not ok:
            return out
        shape = (n1.shape[0], e1.shape[0])
        out["shape_is_northing_by_easting"] = and_(r[0].shape[0] == shape[0], r[0].shape[1] == shape[1], r[1].shape[0] == shape[0], r[1].shape[1] == shape[1])
        out["easting_along_columns_northing_along_rows"] = Forall(shape, lambda i, j: and_(r[0].at(i, j) == e1.at(j), r[1].at(i, j) == n1.at(i)))
        return out


@register
class CheckDataNames(Contract):
    target = BU + ":check_data_names"
    functional = True
    cover_raise = True

    def configs(self, tier):
        return [{"n": 1, "names": "s"}, {"n": 1, "names": ("a",)}, {"n": 2, "names": ("a", "b")}, {"n": 2, "names": ("a",)}, {"n": 2, "names": "ab"}, {"n": 1, "names": None}, {"n": 3, "names": ["x", "y", "z"]}, {"n": 1, "names": ("a", "b")}, {"n": 2, "names": ["a", "b", "c"]}, {"n": 2, "names": ("a", "a")}]

    def setup(self, B, cfg):
        return (tuple(B.array("d%d" % k, (B.dim("n", 0),)) for k in range(cfg["n"])), cfg["names"]), {}

    def _norm(self, names):
        return (names,) if isinstance(names, str) else names

    def raises(self, a):
        nm = self._norm(a.data_names)
        return [(ValueError, nm is None or len(nm) != len(a.data))]

    def havoc(self, a):
        return self._norm(a.data_names)

    def ensures(self, a, r):
        return {"names_as_a_sequence_one_per_component": tuple(r) == tuple(self._norm(a.data_names)) and len(r) == len(a.data)}


@register
class CheckExtraCoordsNames(Contract):
    target = BU + ":check_extra_coords_names"
    functional = True
    cover_raise = True

    def configs(self, tier):
        out = [{"n": 1, "names": "s"}, {"n": 2, "names": ("a", "b")}, {"n": 2, "names": ("a",)}, {"n": 1, "names": None}, {"n": 0, "names": ()}]
        # MORE names than extra coordinates (also with none at all), lists, a repeated name
        out += [{"n": 1, "names": ("a", "b")}, {"n": 2, "names": ["a", "b", "c"]}, {"n": 0, "names": ("a",)}, {"n": 2, "names": ["a", "a"]}, {"n": 3, "names": ("a", "b", "a", "c")}]
        return out

    def setup(self, B, cfg):
        return (tuple(B.array("c%d" % k, (B.dim("n", 0),)) for k in range(2 + cfg["n"])), cfg["names"]), {}

    def _norm(self, names):
        return (names,) if isinstance(names, str) else names

    def raises(self, a):
        nm = self._norm(a.extra_coords_names)
        return [(ValueError, nm is None or len(nm) != len(a.coordinates[2:]))]

    def havoc(self, a):
        return self._norm(a.extra_coords_names)

    def ensures(self, a, r):
        return {"names_as_a_sequence_one_per_extra_coordinate": tuple(r) == tuple(self._norm(a.extra_coords_names))}


def _grid_inputs(B, form, nvars, nextra, names=None):
    nn, ne = B.dim("nn", 1), B.dim("ne", 1)
    if form == "1d":
        coords = [B.array("e1", (ne,)), B.array("n1", (nn,))]
    else:
        coords = [B.array("E2", (nn, ne)), B.array("N2", (nn, ne))]
    coords += [B.array("x%d" % k, (nn, ne)) for k in range(nextra)]
    data = tuple(B.array("v%d" % k, (nn, ne)) for k in range(nvars)) if nvars else None
    if nvars == 1:
        data = data[0]
    return tuple(coords), data


@register
class MakeXarrayGrid(Contract):
    functional = True
    target = UT + ":make_xarray_grid"
    stubs = {
        "get_ndim_horizontal_coords": UT + ":get_ndim_horizontal_coords",
        "meshgrid_to_1d": UT + ":meshgrid_to_1d",
        "check_extra_coords_names": BU + ":check_extra_coords_names",
        "check_data_names": BU + ":check_data_names",
    }
    inline = ("check_data",)
    cover_raise = True

    def configs(self, tier):
        out = []
        for form in ("1d", "2d"):
            out += [{"form": form, "nvars": 1, "nextra": 0}, {"form": form, "nvars": 2, "nextra": 1}, {"form": form, "nvars": 0, "nextra": 0}, {"form": form, "nvars": 1, "nextra": 2, "dims": ("lat", "lon")}]
        out += [{"form": "1d", "nvars": 2, "nextra": 0, "bad_names": True}, {"form": "1d", "nvars": 1, "nextra": 1, "bad_extra": True}, {"form": "mixed", "nvars": 1, "nextra": 0}]
        if tier == "thorough":
            out += [{"form": "1d", "nvars": 4, "nextra": 3}, {"form": "2d", "nvars": 3, "nextra": 0}]
        return out

    def setup(self, B, cfg):
        if cfg["form"] == "mixed":
            nn, ne = B.dim("nn", 1), B.dim("ne", 1)
            coords, data = (B.array("e1", (ne,)), B.array("N2", (nn, ne))), B.array("v0", (nn, ne))
        else:
            coords, data = _grid_inputs(B, cfg["form"], cfg["nvars"], cfg["nextra"])
        nv, nx = cfg["nvars"], cfg["nextra"]
        names = [_VN[k] for k in range(nv - (1 if cfg.get("bad_names") else 0))] if nv else None
        if nv == 1 and not cfg.get("bad_names"):
            names = _VN[0]
        kw = {}
        if "dims" in cfg:
            kw["dims"] = cfg["dims"]
        if nx:
            kw["extra_coords_names"] = [_XN[k] for k in range(nx)] if not cfg.get("bad_extra") else None
            if nx == 1 and not cfg.get("bad_extra"):
                kw["extra_coords_names"] = _XN[0]
        return (coords, data, names), kw

    def raises(self, a):
        c0, c1 = as_array(a.coordinates[0]), as_array(a.coordinates[1])
        conds = [(ValueError, c0.ndim != c1.ndim)]
        if c0.ndim == 2 and c1.ndim == 2:
            pos, neg = is_meshgrid_pair(c0, c1)
            conds.append((ValueError, RaiseCond(neg, pos)))
        nx = len(a.coordinates[2:])
        en = (a.extra_coords_names,) if isinstance(a.extra_coords_names, str) else a.extra_coords_names
        bad_extra = nx > 0 and (en is None or len(en) != nx)
        bad_names = False
        if a.data is not None:
            nd = len(a.data) if isinstance(a.data, tuple) else 1
            dn = (a.data_names,) if isinstance(a.data_names, str) else a.data_names
            bad_names = dn is None or len(dn) != nd
        conds.append((ValueError, bad_extra or bad_names))
        return conds

    def havoc(self, a):
        c0, c1 = as_array(a.coordinates[0]), as_array(a.coordinates[1])
        e1, n1 = (c0[0, :], c1[:, 0]) if c0.ndim == 2 else (c0, c1)
        coords = {a.dims[1]: e1.copy(), a.dims[0]: n1.copy()}
        en = (a.extra_coords_names,) if isinstance(a.extra_coords_names, str) else a.extra_coords_names
        for name, x in zip(en or (), a.coordinates[2:]):
            coords[name] = (a.dims, x.copy())
        dv = None
        if a.data is not None:
            dat = a.data if isinstance(a.data, tuple) else (a.data,)
            dn = (a.data_names,) if isinstance(a.data_names, str) else a.data_names
            dv = {n: (a.dims, d.copy()) for n, d in zip(dn, dat)}
        return SymDataset(dv, coords)

    def samples(self, rng, nrng, tier):
        for _ in range(20 if tier == "thorough" else 8):
            nn, ne = rng.randint(1, 4), rng.randint(1, 5)
            e1, n1 = np.sort(nrng.uniform(-5, 5, ne)), np.sort(nrng.uniform(-5, 5, nn))
            _o = rng.choice(["asc", "asc", "desc_n", "desc_both", "shuffled"])  # axes need not be ascending
            if _o in ("desc_n", "desc_both"):
                n1 = n1[::-1].copy()
            if _o == "desc_both":
                e1 = e1[::-1].copy()
            if _o == "shuffled":
                e1, n1 = nrng.permutation(e1), nrng.permutation(n1)
            nv, nx = rng.randint(0, 3), rng.randint(0, 2)
            coords = [e1, n1] if rng.random() < 0.5 else list(np.meshgrid(e1, n1))
            coords += [nrng.uniform(0, 1, (nn, ne)) for _ in range(nx)]
            data = tuple(nrng.uniform(0, 1, (nn, ne)) for _ in range(nv)) if nv else None
            kw = {"extra_coords_names": [_XN[k] for k in range(nx)]} if nx else {}
            if rng.random() < 0.3:
                kw["dims"] = ("lat", "lon")
            yield (tuple(coords), data, ["v%d" % k for k in range(nv)] if nv else None), kw
        e, n = np.meshgrid(np.arange(3.0), np.arange(2.0))
        yield ((e * n + e, n), np.zeros((2, 3)), "a"), {}
        yield ((np.arange(3.0), np.arange(2.0)), (np.zeros((2, 3)), np.zeros((2, 3))), ["only_one"]), {}

    def ensures(self, a, r):
        out = {"is_a_dataset": hasattr(r, "data_vars")}
        if not out["is_a_dataset"]:
            return out
        v = ds_view(r)
        dims = tuple(a.dims)
        c0, c1 = as_array(a.coordinates[0]), as_array(a.coordinates[1])
        e1, n1 = (c0[0, :], c1[:, 0]) if c0.ndim == 2 else (c0, c1)
        oke = dims[1] in v["coords"] and v["coords"][dims[1]][0] == (dims[1],)
        okn = dims[0] in v["coords"] and v["coords"][dims[0]][0] == (dims[0],)
        out["index_coordinates_named_after_dims"] = oke and okn
        if not (oke and okn):
            return out
        ce, cn = v["coords"][dims[1]][1], v["coords"][dims[0]][1]
        out["easting_axis_is_the_easting_vector"] = All(ce.shape[0] == e1.shape[0], Forall(e1.shape, lambda j: ce.at(j) == e1.at(j)))
        out["northing_axis_is_the_northing_vector"] = All(cn.shape[0] == n1.shape[0], Forall(n1.shape, lambda i: cn.at(i) == n1.at(i)))
        en = (a.extra_coords_names,) if isinstance(a.extra_coords_names, str) else (a.extra_coords_names or ())
        for name, x in zip(en, a.coordinates[2:]):
            ok = name in v["coords"] and tuple(v["coords"][name][0]) == dims
            out["extra_coordinate_%s_is_a_2d_coordinate_over_dims" % name] = ok
            if ok:
                arr = v["coords"][name][1]
                out["extra_coordinate_%s_values_at_their_own_cells" % name] = All(and_(arr.shape[0] == x.shape[0], arr.shape[1] == x.shape[1]), Forall(x.shape, lambda i, j, arr=arr, x=x: arr.at(i, j) == x.at(i, j)))
        out["no_other_coordinates"] = set(v["coords"]) == {dims[0], dims[1]} | set(en)
        if a.data is None:
            out["no_data_variables"] = len(v["vars"]) == 0
            return out
        dat = a.data if isinstance(a.data, tuple) else (a.data,)
        dn = (a.data_names,) if isinstance(a.data_names, str) else tuple(a.data_names)
        out["variables_named_as_requested_in_order"] = list(v["vars"].keys()) == list(dn)
        for name, d in zip(dn, dat):
            if name not in v["vars"]:
                continue
            vd, arr = v["vars"][name]
            out["variable_%s_has_dims_northing_easting" % name] = tuple(vd) == dims
            out["variable_%s_values_at_their_own_cells" % name] = All(and_(arr.shape[0] == d.shape[0], arr.shape[1] == d.shape[1]), Forall(d.shape, lambda i, j, arr=arr, d=d: arr.at(i, j) == d.at(i, j)))
        return out


def _sym_dataset(B, nvars, nextra, dims=("northing", "easting"), order="ne"):
    nn, ne = B.dim("nn", 1), B.dim("ne", 1)
    e1, n1 = B.array("e1", (ne,)), B.array("n1", (nn,))
    coords = {dims[1]: e1, dims[0]: n1} if order == "en" else {dims[0]: n1, dims[1]: e1}
    for k in range(nextra):
        coords[_XN[k]] = (dims, B.array("x%d" % k, (nn, ne)))
    dv = {_VN[k]: (dims, B.array("v%d" % k, (nn, ne))) for k in range(nvars)}
    return SymDataset(dv, coords)


@register
class GridToTable(Contract):
    functional = True
    target = UT + ":grid_to_table"

    def configs(self, tier):
        out = [{"kind": "ds", "nvars": 1, "nextra": 0}, {"kind": "ds", "nvars": 2, "nextra": 1, "order": "en"}, {"kind": "ds", "nvars": 1, "nextra": 0, "dims": ("lat", "lon")}, {"kind": "da", "name": "topo"}, {"kind": "da", "name": None}, {"kind": "da", "name": "topo", "nextra": 1}, {"kind": "ds", "nvars": 1, "nextra": 2}, {"kind": "da", "name": "topo", "nextra": 2}]
        if tier == "thorough":
            out += [{"kind": "ds", "nvars": 4, "nextra": 3}]
        return out

    def setup(self, B, cfg):
        dims = cfg.get("dims", ("northing", "easting"))
        if cfg["kind"] == "ds":
            return (_sym_dataset(B, cfg["nvars"], cfg["nextra"], dims, cfg.get("order", "ne")),), {}
        nn, ne = B.dim("nn", 1), B.dim("ne", 1)
        coords = {dims[0]: B.array("n1", (nn,)), dims[1]: B.array("e1", (ne,))}
        for k in range(cfg.get("nextra", 0)):
            coords[_XN[k]] = (dims, B.array("x%d" % k, (nn, ne)))
        return (SymDataArray(B.array("vals", (nn, ne)), coords=coords, dims=dims, name=cfg["name"]),), {}

    def samples(self, rng, nrng, tier):
        import xarray as xr

        for it in range(14 if tier == "thorough" else 8):
            # mostly genuinely 2-D grids (their layout variants are evaluated too); a few single-row/column ones
            nn, ne = (rng.randint(2, 4), rng.randint(2, 5)) if it >= 2 else (rng.randint(1, 2), rng.randint(1, 5))
            e1, n1 = np.sort(nrng.uniform(-5, 5, ne)), np.sort(nrng.uniform(-5, 5, nn))
            _o = rng.choice(["asc", "asc", "desc_n", "desc_both", "shuffled"])  # axes need not be ascending
            if _o in ("desc_n", "desc_both"):
                n1 = n1[::-1].copy()
            if _o == "desc_both":
                e1 = e1[::-1].copy()
            if _o == "shuffled":
                e1, n1 = nrng.permutation(e1), nrng.permutation(n1)
            dims = rng.choice([("northing", "easting"), ("lat", "lon")])
            coords = {dims[1]: e1, dims[0]: n1} if rng.random() < 0.5 else {dims[0]: n1, dims[1]: e1}
            for k in range(rng.randint(0, 2)):
                coords[_XN[k]] = (dims, nrng.uniform(0, 1, (nn, ne)))
            rr = rng.random()
            if rr < 0.2:
                # integer variables / extra coordinates next to float ones, with values a float64 cannot hold exactly
                big = lambda: nrng.randint(2**53, 2**62, (nn, ne)) * 2 + 1  # noqa: E731
                coords["ident"] = (dims, big())
                yield (xr.Dataset({"count": (dims, big()), "v": (dims, nrng.uniform(0, 1, (nn, ne)))}, coords=coords),), {}
            elif rr < 0.3:
                yield (xr.DataArray(nrng.randint(2**53, 2**62, (nn, ne)) * 2 + 1, coords=coords, dims=dims, name="count"),), {}
            elif rr < 0.65:
                yield (xr.Dataset({"v%d" % k: (dims, nrng.uniform(0, 1, (nn, ne))) for k in range(rng.randint(1, 4))}, coords=coords),), {}
            else:
                yield (xr.DataArray(nrng.uniform(0, 1, (nn, ne)), coords=coords, dims=dims, name=rng.choice([None, "topo"])),), {}

    def _parts(self, grid):
        """(dims, easting, northing, [(extra name, arr)], [(var name, arr)]) of a proxy or real grid."""
        if isinstance(grid, SymDataset) or (not isinstance(grid, SymDataArray) and hasattr(grid, "data_vars")):
            v = ds_view(grid)
            names = list(v["vars"].keys())
            dims = tuple(v["vars"][names[0]][0])
            variables = [(k, v["vars"][k][1]) for k in names]
            coords = v["coords"]
        elif isinstance(grid, SymDataArray):
            dims = tuple(grid.dims)
            variables = [(grid.name if grid.name is not None else "scalars", grid.values)]
            coords = {k: (c.dims, c.values) for k, c in grid.coords.items()}
        else:
            dims = tuple(grid.dims)
            variables = [(grid.name if grid.name is not None else "scalars", wrap(_exact(grid.values)))]
            coords = {k: (tuple(c.dims), wrap(_exact(c.values))) for k, c in grid.coords.items()}
        extras = [(k, coords[k][1]) for k in coords if k not in dims]
        return dims, coords[dims[1]][1], coords[dims[0]][1], extras, variables

    def havoc(self, a):
        dims, e1, n1, extras, variables = self._parts(a.grid)
        nn, ne = n1.shape[0], e1.shape[0]
        cols = {dims[0]: new_array((nn * ne,), lambda idx: n1.at(unflatten(idx[0], (nn, ne))[0]), "f"), dims[1]: new_array((nn * ne,), lambda idx: e1.at(unflatten(idx[0], (nn, ne))[1]), "f")}
        for k, arr in extras + variables:
            cols[k] = arr.ravel().copy()
        return SymDataFrame(cols)

    def ensures(self, a, r):
        dims, e1, n1, extras, variables = self._parts(a.grid)
        cols = df_view(r)
        names = [k for k, _ in cols]
        want = [dims[0], dims[1]] + [k for k, _ in extras] + [k for k, _ in variables]
        out = {"columns_are_northing_easting_extras_then_variables": names == want}
        if names != want:
            return out
        nn, ne = n1.shape[0], e1.shape[0]
        cd = dict(cols)
        out["one_row_per_cell"] = and_(*[c.shape[0] == nn * ne for _, c in cols])
        shape = (nn, ne)
        out["row_major_cells_carry_their_own_northing_and_easting"] = Forall(shape, lambda i, j: and_(cd[dims[0]].at(flat_index((i, j), shape)) == n1.at(i), cd[dims[1]].at(flat_index((i, j), shape)) == e1.at(j)))
        for k, arr in extras + variables:
            out["column_%s_holds_the_value_of_its_own_cell" % k] = Forall(shape, lambda i, j, k=k, arr=arr: cd[k].at(flat_index((i, j), shape)) == arr.at(i, j))
        return out


def lemma_grid_table_roundtrip(coordinates, data, data_names, extra_coords_names):
    grid = make_xarray_grid(coordinates, data, data_names, extra_coords_names=extra_coords_names)  # noqa: F821 (stub)
    return grid_to_table(grid)  # noqa: F821 (stub)


@register
class LemmaRoundtrip(Contract):
    """Converting arrays to a grid and back to a table returns the raveled inputs (consequence of the two contracts)."""

    target = "contracts.grids_c18:lemma_grid_table_roundtrip"
    stubs = {"make_xarray_grid": UT + ":make_xarray_grid", "grid_to_table": UT + ":grid_to_table"}
    native_replay = False

    def configs(self, tier):
        return [{"form": "1d", "nvars": 1, "nextra": 0}, {"form": "2d", "nvars": 2, "nextra": 1}, {"form": "1d", "nvars": 3, "nextra": 2}]

    def setup(self, B, cfg):
        coords, data = _grid_inputs(B, cfg["form"], cfg["nvars"], cfg["nextra"])
        return (coords, data, [_VN[k] for k in range(cfg["nvars"])], [_XN[k] for k in range(cfg["nextra"])] or None), {}

    def requires(self, a):
        c0, c1 = a.coordinates[0], a.coordinates[1]
        if c0.ndim == 2:
            return is_meshgrid_pair(c0, c1)[0]
        return True

    def ensures(self, a, r):
        cols = dict(df_view(r))
        c0, c1 = a.coordinates[0], a.coordinates[1]
        e1, n1 = (c0[0, :], c1[:, 0]) if c0.ndim == 2 else (c0, c1)
        shape = (n1.shape[0], e1.shape[0])
        dat = a.data if isinstance(a.data, tuple) else (a.data,)
        out = {}
        for name, d in list(zip(a.data_names, dat)) + list(zip(a.extra_coords_names or (), a.coordinates[2:])):
            out["column_%s_is_the_raveled_input" % name] = Forall(shape, lambda i, j, name=name, d=d: cols[name].at(flat_index((i, j), shape)) == d.at(i, j))
        out["coordinates_columns_are_the_raveled_meshgrid"] = Forall(shape, lambda i, j: and_(cols["easting"].at(flat_index((i, j), shape)) == e1.at(j), cols["northing"].at(flat_index((i, j), shape)) == n1.at(i)))
        return out
