"""Sidecar contracts for property C14: rolling_window, expanding_window."""
import numpy as np

from pyvc.arr import SymArr, as_array, havoc_array, new_array
from pyvc.contract import Contract, register
from pyvc.core import and_, ctx, iff, implies, is_sym, ite, not_, or_
from pyvc.prelude_index import SymIndexSet, SymIndexTuple
from pyvc.spec import All, AnyOf, Exists, Forall, Imp, close, ge, le

from .blocks_c08 import BU, flat
from .coordinates_c07 import M, _LineArgs, _line_nodes_formula, _region_of, _scale, _spacing_pair
from .coordinates_c13 import _coords, _rand_coords


def selection(elem, coord_shape):
    """(well_formed, member) for one window's index object.

    symbolic: elem is the abstract SymIndexTuple; concrete: a tuple of integer index arrays."""
    rank = len(coord_shape)
    if isinstance(elem, SymIndexTuple):
        wf = len(elem.shape) == rank and and_(*[a == b for a, b in zip(elem.shape, coord_shape)]) if len(elem.shape) == rank else False
        return wf, elem.iset.member
    if isinstance(elem, tuple) and len(elem) == rank and all(isinstance(x, SymArr) and x.ndim == 1 and x.kind == "i" for x in elem):
        n = int(elem[0].shape[0])
        flats = []
        ok = all(int(x.shape[0]) == n for x in elem)
        if ok:
            for t in range(n):
                f = 0
                for d in range(rank):
                    v = int(elem[d].at(t))
                    if not (0 <= v < int(coord_shape[d])):
                        ok = False
                    f = f * int(coord_shape[d]) + v
                flats.append(f)
        ok = ok and len(set(flats)) == len(flats)
        fs = set(flats)
        return ok, (lambda p: int(p) in fs)
    return False, (lambda p: False)


def _box(e, n, p, ce, cn, half):
    return and_(le(e.at(p) - ce, half), le(ce - e.at(p), half), le(n.at(p) - cn, half), le(cn - n.at(p), half))


def _box_margin(e, n, p, ce, cn, half):
    """Concrete evaluation only: skip points within round-off of a window edge."""
    if is_sym(ce) or is_sym(half) or is_sym(e.at(p)):
        return True
    tol = 1e-9 * max(abs(float(ce)), abs(float(cn)), abs(float(half)), abs(float(e.at(p))), abs(float(n.at(p))), 1.0)
    return abs(abs(e.at(p) - ce) - half) > tol and abs(abs(n.at(p) - cn) - half) > tol


def _exact_box(e, n, p, ce, cn, half):
    return and_(e.at(p) - ce <= half, ce - e.at(p) <= half, n.at(p) - cn <= half, cn - n.at(p) <= half)


@register
class CheckRollingWindowOverlap(Contract):
    target = M + ":_check_rolling_window_overlap"

    def configs(self, tier):
        return [{"mode": "shape"}, {"mode": "spacing_scalar"}, {"mode": "spacing_pair"}]

    def setup(self, B, cfg):
        region = _region_of(B)
        shape = (B.int("n_north"), B.int("n_east")) if cfg["mode"] == "shape" else None
        spacing = {"shape": None, "spacing_scalar": B.real("spacing") if cfg["mode"] == "spacing_scalar" else None, "spacing_pair": (B.real("sp_n"), B.real("sp_e")) if cfg["mode"] == "spacing_pair" else None}[cfg["mode"]]
        return (region, B.real("size"), shape, spacing), {}

    def requires(self, a):
        conds = [a.size > 0]
        if a.shape is not None:
            conds += [a.shape[0] >= 1, a.shape[1] >= 1]
        return and_(*conds)

    def havoc(self, a):
        return None

    def expect_warning(self, a):
        """Warns iff some step between neighbouring windows exceeds the window size. Helper contract taken from the
        code: for a shape it pairs region[0:2] (west-east) with shape[0] and region[2:4] with shape[1] (for non-square
        shapes this is not the actual step between centres; the warning is not part of property C14 - DESIGN.md). A
        direction with a single window counts as an infinite step (the pinned test expects the warning for it)."""
        from pyvc.core import ite

        if a.shape is not None:
            w, e, s, n = a.region
            k0 = ite(a.shape[0] > 1, a.shape[0] - 1, 1)
            k1 = ite(a.shape[1] > 1, a.shape[1] - 1, 1)
            conds = [or_(a.shape[0] <= 1, (e - w) / k0 > a.size), or_(a.shape[1] <= 1, (n - s) / k1 > a.size)]
        else:
            conds = [x > a.size for x in _spacing_pair(a.spacing)]
        return [("UserWarning", or_(*conds))]

    def ensures(self, a, r):
        return {"returns_none": r is None}


@register
class RollingWindow(Contract):
    target = M + ":rolling_window"
    stubs = {
        "check_coordinates": BU + ":check_coordinates",
        "get_region": M + ":get_region",
        "grid_coordinates": M + ":grid_coordinates",
        "kdtree": "verde.utils:kdtree",
        "n_1d_arrays": BU + ":n_1d_arrays",
    }
    inline = ("_check_rolling_window_overlap",)
    cover_raise = True

    def configs(self, tier):
        out = []
        for rank in (1, 2):
            for region in (True, False):
                out.append({"rank": rank, "region": region, "mode": "shape", "adjust": "spacing"})
                out.append({"rank": rank, "region": region, "mode": "spacing_scalar", "adjust": "spacing"})
        out.append({"rank": 1, "region": True, "mode": "spacing_scalar", "adjust": "region"})
        out.append({"rank": 1, "region": True, "mode": "spacing_pair", "adjust": "spacing", "extra": 1})
        out.append({"rank": 1, "region": True, "mode": "neither", "adjust": "spacing"})
        # a region of integers (list / tuple / integer ndarray): half a window is generally not an integer
        out.append({"rank": 1, "region": "int", "mode": "spacing_scalar", "adjust": "spacing"})
        out.append({"rank": 1, "region": "int_array", "mode": "shape", "adjust": "spacing"})
        return out

    def setup(self, B, cfg):
        coords = _coords(B, cfg["rank"], cfg.get("extra", 0), minsize=1)
        region = _region_of(B) if cfg["region"] else None
        if cfg["region"] in ("int", "int_array"):
            region = [B.int("r" + k) for k in "WESN"]
            if cfg["region"] == "int_array":
                region = as_array(region)
        shape = spacing = None
        if cfg["mode"] == "shape":
            shape = (B.int("n_north"), B.int("n_east"))
        elif cfg["mode"] == "spacing_scalar":
            spacing = B.real("spacing")
        elif cfg["mode"] == "spacing_pair":
            spacing = (B.real("sp_north"), B.real("sp_east"))
        return (coords, B.real("size")), dict(spacing=spacing, shape=shape, region=region, adjust=cfg["adjust"])

    def requires(self, a):
        conds = [a.size > 0, a.coordinates[0].size >= 1]
        if a.region is not None:
            w, e, s, n = a.region
            conds += [w <= e, s <= n]
        if a.shape is not None:
            conds += [a.shape[0] >= 1, a.shape[1] >= 1]
        sp = _spacing_pair(a.spacing)
        conds += [x > 0 for x in sp if x is not None]
        return and_(*conds)

    def _region(self, a):
        """(W, E, S, N) of the data when no region is given - as bounds, via ghost of get_region."""
        if a.region is not None:
            return a.region
        return None

    def raises(self, a):
        out = [(ValueError, a.shape is None and a.spacing is None)]
        if a.region is not None:
            w, e, s, n = a.region
            out.append((ValueError, or_(e - w < a.size, n - s < a.size)))
        else:
            c = ctx()
            if not c.concrete:
                g = c.ghost.get(M + ":get_region", [])
                if g:
                    w, e, s, n = g[-1][1]
                    out.append((ValueError, or_(e - w < a.size, n - s < a.size)))
                else:
                    out.append((ValueError, False))
            else:
                ee, nn = flat(a.coordinates[0]), flat(a.coordinates[1])
                es = [ee.at(i) for i in range(int(ee.shape[0]))]
                ns = [nn.at(i) for i in range(int(nn.shape[0]))]
                out.append((ValueError, (max(es) - min(es) < a.size) or (max(ns) - min(ns) < a.size)))
        return out

    def _data_region(self, a):
        if a.region is not None:
            return a.region
        c = ctx()
        if not c.concrete:
            g = c.ghost.get(M + ":get_region", [])
            return g[-1][1] if g else None
        ee, nn = flat(a.coordinates[0]), flat(a.coordinates[1])
        es = [ee.at(i) for i in range(int(ee.shape[0]))]
        ns = [nn.at(i) for i in range(int(nn.shape[0]))]
        return (min(es), max(es), min(ns), max(ns))

    def samples(self, rng, nrng, tier):
        for _ in range(120 if tier == "thorough" else 30):
            rank = rng.choice([1, 2])
            coords = list(_rand_coords(rng, nrng, rank, rng.choice([0, 1]), scale=10.0, offset=rng.choice([0.0, 1e4])))
            region = None
            rr = rng.random()
            if rr < 0.35:
                region = (float(coords[0].min()) - 1.0, float(coords[0].max()) + 1.0, float(coords[1].min()) - 0.5, float(coords[1].max()) + 2.0)
            elif rr < 0.7:
                # a sub-region of the data extent: points lie beyond every border (windows may reach over them,
                # in particular when adjust='region' moves the east/north border outwards)
                w, e, s_, n_ = float(coords[0].min()), float(coords[0].max()), float(coords[1].min()), float(coords[1].max())
                region = (w + 0.2 * (e - w), e - 0.3 * (e - w), s_ + 0.25 * (n_ - s_), n_ - 0.2 * (n_ - s_))
            size = rng.choice([0.5, 1.0, 2.0, 4.0])
            if region is not None:
                # a point exactly on a window edge / corner
                coords[0].flat[0] = region[0] + size
                coords[1].flat[0] = region[2] + size
            if rng.random() < 0.5:
                yield (tuple(coords), size), dict(shape=(rng.randint(2, 4), rng.randint(2, 5)), region=region)
            else:
                yield (tuple(coords), size), dict(spacing=rng.choice([0.5, 1.0, (2.0, 1.0), 3.0, rng.uniform(0.7, 3.3)]), region=region, adjust=rng.choice(["spacing", "region"]))
        # dense lattice around an explicit sub-region, spacings that do not divide it: with adjust='region' the last
        # windows reach beyond the requested east/north border and must still select the points lying there
        ax = np.arange(0.0, 16.25, 0.5)
        LE, LN = np.meshgrid(ax, ax)
        for spacing in (3.0, 2.4, 3.5, 5.0):
            for adjust in ("region", "spacing"):
                yield ((LE.ravel(), LN.ravel()), 4.0), dict(spacing=spacing, region=(2.0, 14.0, 2.0, 14.0), adjust=adjust)
        yield ((LE, LN), 3.0), dict(spacing=(3.5, 2.4), region=(1.0, 12.0, 3.0, 15.0), adjust="region")
        yield ((np.array([0.0, 1.0]), np.array([0.0, 1.0])), 0.5), {}
        yield ((np.array([0.0, 1.0]), np.array([0.0, 1.0])), 5.0), dict(spacing=0.5)
        # integer regions (tuple / list / integer ndarray) and integer coordinates with window sizes whose half is fractional
        ai = np.arange(0, 17)
        IE, IN = np.meshgrid(ai, ai)
        for size, region in ((3, (2, 14, 1, 15)), (5, [0, 16, 0, 16]), (2.5, np.array([1, 12, 3, 15])), (3, None)):
            for kw in (dict(spacing=rng.choice([2, 3, 2.5])), dict(shape=(rng.randint(2, 4), rng.randint(2, 4)))):
                cc = (IE.ravel(), IN.ravel()) if rng.random() < 0.5 else (IE, IN)
                yield (cc, size), dict(region=region, adjust=rng.choice(["spacing", "region"]), **kw)

    def ensures(self, a, r):
        ok = isinstance(r, tuple) and len(r) == 2 and isinstance(r[0], tuple) and len(r[0]) == 2 and isinstance(r[1], SymArr) and r[1].kind == "O"
        out = {"returns_centres_and_object_array_of_indices": ok}
        if not ok:
            return out
        (ce, cn), indices = r
        e, n = flat(a.coordinates[0]), flat(a.coordinates[1])
        npts = e.shape[0]
        half = a.size / 2
        out["centres_are_2d_same_shape"] = ce.ndim == 2 and cn.ndim == 2 and and_(ce.shape[0] == cn.shape[0], ce.shape[1] == cn.shape[1])
        out["one_index_set_per_centre_in_the_centres_shape"] = indices.ndim == 2 and and_(indices.shape[0] == ce.shape[0], indices.shape[1] == ce.shape[1])
        if not (ce.ndim == 2 and indices.ndim == 2):
            return out
        reg = self._data_region(a)
        if reg is not None:
            w, e_, s, n_ = reg
            sp_n, sp_e = _spacing_pair(a.spacing)
            sh_n, sh_e = a.shape if a.shape is not None else (None, None)
            out["easting_varies_along_columns_only"] = Forall(ce.shape, lambda i, j: ce.at(i, j) == ce.at(0, j))
            out["northing_varies_along_rows_only"] = Forall(cn.shape, lambda i, j: cn.at(i, j) == cn.at(i, 0))
            for k, f in _line_nodes_formula(_LineArgs(w + half, e_ - half, sh_e, sp_e, a.adjust, False), ce[0, :]).items():
                out["centres_east_of_region_shrunk_by_half_window." + k] = f
            for k, f in _line_nodes_formula(_LineArgs(s + half, n_ - half, sh_n, sp_n, a.adjust, False), cn[:, 0]).items():
                out["centres_north_of_region_shrunk_by_half_window." + k] = f
        cshape = a.coordinates[0].shape

        def well_formed(i, j):
            return selection(indices.at(i, j), cshape)[0]

        def exact(i, j, p):
            wf, member = selection(indices.at(i, j), cshape)
            inbox = _exact_box(e, n, p, ce.at(i, j), cn.at(i, j), half)
            return implies(_box_margin(e, n, p, ce.at(i, j), cn.at(i, j), half), iff(member(p), inbox))

        out["each_entry_indexes_arrays_of_the_input_shape"] = Forall(ce.shape, well_formed)
        out["window_selects_exactly_the_points_in_the_closed_square"] = Forall((ce.shape[0], ce.shape[1], npts), exact)
        return out


@register
class ExpandingWindow(Contract):
    functional = True
    target = M + ":expanding_window"
    stubs = {"check_coordinates": BU + ":check_coordinates", "kdtree": "verde.utils:kdtree"}

    def configs(self, tier):
        return [{"rank": 1, "sizes": 1}, {"rank": 1, "sizes": 3}, {"rank": 2, "sizes": 2}, {"rank": 1, "sizes": 2, "extra": 1}, {"rank": 1, "sizes": 0}]

    def setup(self, B, cfg):
        coords = _coords(B, cfg["rank"], cfg.get("extra", 0), minsize=0)
        sizes = [B.real("size%d" % k) for k in range(cfg["sizes"])]
        return (coords, (B.real("center_e"), B.real("center_n")), sizes), {}

    def requires(self, a):
        return and_(*[s >= 0 for s in a.sizes]) if len(a.sizes) else True

    def havoc(self, a):
        e, n = flat(a.coordinates[0]), flat(a.coordinates[1])
        out = []
        for s in a.sizes:
            out.append(SymIndexTuple(SymIndexSet(e.shape[0], (lambda p, s=s: _exact_box(e, n, p, a.center[0], a.center[1], s / 2))), a.coordinates[0].shape))
        return out

    def samples(self, rng, nrng, tier):
        for _ in range(60 if tier == "thorough" else 20):
            coords = _rand_coords(rng, nrng, rng.choice([1, 2]), rng.choice([0, 1]), scale=5.0)
            center = (rng.uniform(-3, 3), rng.uniform(-3, 3))
            sizes = sorted(rng.uniform(0, 12) for _ in range(rng.randint(1, 5)))
            r = rng.random()
            if r < 0.25:
                sizes = sizes[::-1]
            elif r < 0.85:
                rng.shuffle(sizes)  # "follows the order of the given sizes": any order, not only sorted ones
            coords[0].flat[0] = center[0] + sizes[0] / 2  # on the edge of the first window
            yield (coords, center, sizes), {}

    def ensures(self, a, r):
        ok = isinstance(r, list) and len(r) == len(a.sizes)
        out = {"one_entry_per_size_in_order": ok}
        if not ok:
            return out
        e, n = flat(a.coordinates[0]), flat(a.coordinates[1])
        cshape = a.coordinates[0].shape
        for k, s in enumerate(a.sizes):
            wf, member = selection(r[k], cshape)
            out["entry%d_indexes_arrays_of_the_input_shape" % k] = wf
            out["window%d_selects_exactly_the_points_in_the_closed_square" % k] = Forall(
                (e.shape[0],),
                lambda p, member=member, s=s: implies(_box_margin(e, n, p, a.center[0], a.center[1], s / 2), iff(member(p), _exact_box(e, n, p, a.center[0], a.center[1], s / 2))),
            )
        return out


def lemma_expanding_windows_nested(coordinates, center, size_small, size_big):
    return expanding_window(coordinates, center, [size_small, size_big])  # noqa: F821 (stub)


@register
class LemmaExpandingNested(Contract):
    """Consequence of the expanding_window contract: windows are nested by size."""

    target = "contracts.windows_c14:lemma_expanding_windows_nested"
    stubs = {"expanding_window": M + ":expanding_window"}
    native_replay = False

    def configs(self, tier):
        return [{"rank": 1}, {"rank": 2}]

    def setup(self, B, cfg):
        return (_coords(B, cfg["rank"], 0, minsize=0), (B.real("center_e"), B.real("center_n")), B.real("size_small"), B.real("size_big")), {}

    def requires(self, a):
        return and_(a.size_small >= 0, a.size_small <= a.size_big)

    def ensures(self, a, r):
        n = flat(a.coordinates[0]).shape[0]
        m0, m1 = r[0].iset.member, r[1].iset.member
        return {"smaller_window_is_contained_in_larger": Forall((n,), lambda p: implies(m0(p), m1(p)))}
