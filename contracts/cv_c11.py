"""Contracts for property C11: blocked cross-validators and partition_by_sum.

Deductive: constructors, get_n_splits, the column check of split (symbolic parameters).
Bounded (labelled so): partition_by_sum and the splits of BlockKFold / BlockShuffleSplit are
checked by run-time contracts on the real classes over enumerated block-occupancy vectors -
their index-set reasoning over scikit-learn's splitters is not brought within the verifier's
reach in this version (see DESIGN.md)."""
import itertools
import warnings

import numpy as np

from pyvc.arr import SymArr, havoc_array
from pyvc.contract import Contract, register
from pyvc.core import and_, ctx, is_sym, ite, not_, or_
from pyvc.spec import All, AnyOf, Exists, Forall

MS = "verde.model_selection"


# ----------------------------------------------------------------- deductive: constructors


class _Ctor(Contract):
    cover_raise = True
    frame_attrs = None

    def havoc(self, a):
        return None


@register
class BlockKFoldInit(_Ctor):
    target = MS + ":BlockKFold.__init__"

    def configs(self, tier):
        return [{"spacing": True, "shape": False}, {"spacing": False, "shape": True}, {"spacing": False, "shape": False}, {"spacing": True, "shape": True}]

    def setup(self, B, cfg):
        import verde

        obj = verde.BlockKFold.__new__(verde.BlockKFold)
        kw = dict(spacing=B.real("spacing") if cfg["spacing"] else None, shape=(B.int("sn"), B.int("se")) if cfg["shape"] else None, n_splits=B.int("n_splits"), shuffle=False, random_state=B.int("seed"), balance=True)
        return (obj,), kw

    def raises(self, a):
        return [(ValueError, or_(a.spacing is None and a.shape is None, a.n_splits < 2))]

    def ensures(self, a, r):
        o = a.self
        return {"parameters_stored_unchanged": all(getattr(o, k, None) is getattr(a, k) for k in ("spacing", "shape", "n_splits", "shuffle", "random_state", "balance")), "returns_none": r is None}


@register
class BlockShuffleSplitInit(_Ctor):
    target = MS + ":BlockShuffleSplit.__init__"

    def configs(self, tier):
        return [{"spacing": True}, {"spacing": False}]

    def setup(self, B, cfg):
        import verde

        obj = verde.BlockShuffleSplit.__new__(verde.BlockShuffleSplit)
        kw = dict(spacing=B.real("spacing") if cfg["spacing"] else None, shape=None, n_splits=B.int("n_splits"), test_size=B.real("test_size"), train_size=None, random_state=B.int("seed"), balancing=B.int("balancing"))
        return (obj,), kw

    def raises(self, a):
        return [(ValueError, or_(a.spacing is None and a.shape is None, a.balancing < 1))]

    def ensures(self, a, r):
        o = a.self
        return {"parameters_stored_unchanged": all(getattr(o, k, None) is getattr(a, k) for k in ("spacing", "shape", "n_splits", "test_size", "train_size", "random_state", "balancing")), "returns_none": r is None}


@register
class GetNSplits(Contract):
    target = "verde.base.base_classes:BaseBlockCrossValidator.get_n_splits"

    def setup(self, B, cfg):
        import verde

        obj = verde.BlockKFold.__new__(verde.BlockKFold)
        obj.n_splits = B.int("n_splits")
        return (obj,), {}

    def ensures(self, a, r):
        return {"returns_n_splits": r is a.self.n_splits}


# ----------------------------------------------------------------- bounded: partition_by_sum


def _occupancies(tier, rng):
    """Block-occupancy vectors: exhaustive up to length 4 / entries 3 (quick) or 6 / 4 (thorough)."""
    if tier == "thorough":
        for n in range(1, 7):
            vals = range(1, 5)
            allv = list(itertools.product(vals, repeat=n))
            if len(allv) > 600:
                allv = [allv[i] for i in sorted(rng.sample(range(len(allv)), 600))]
            for v in allv:
                yield v
    else:
        for n in range(1, 5):
            for v in itertools.product(range(1, 4), repeat=n):
                yield v
    for v in ((10, 1, 1), (1, 1, 10), (1, 10, 1), (7, 1, 1, 1, 1), (1, 1, 1, 1, 50), (100, 1, 1, 1), (3, 3, 3, 3, 3, 3, 3)):
        yield v


@register
class PartitionBySum(Contract):
    """partition_by_sum on block populations (what BlockKFold gives it). DEDUCTIVE for every array of 2..4 (quick) /
    2..5 (thorough) positive integers and every number of parts (the length is a structural bound, the values are
    symbolic); the same clauses are evaluated at run time over longer occupancy vectors (bounded)."""

    target = "verde.utils:partition_by_sum"
    cover_return = False

    def configs(self, tier):
        out = []
        for n in range(1, 6 if tier == "thorough" else 5):
            for parts in range(2, n + 2):
                out.append({"n": n, "parts": parts})
        return out

    def setup(self, B, cfg):
        from pyvc.arr import from_list

        return (from_list([B.int("size%d" % k) for k in range(cfg["n"])], "i"), cfg["parts"]), {}

    def requires(self, a):
        arr = _as1d(a.array)
        return and_(*([arr.at(i) >= 1 for i in range(int(arr.shape[0]))] + [a.parts >= 2]))

    def raises(self, a):
        # ValueError is allowed whenever no valid split exists for the greedy rule; it is REQUIRED when parts > size
        return [(ValueError, _MayRaise(a))]

    def havoc(self, a):
        return havoc_array("splits", (a.parts - 1,), "i")

    def samples(self, rng, nrng, tier):
        for occ in _occupancies(tier, rng):
            for parts in range(2, len(occ) + 2):
                yield (np.array(occ), parts), {}

    def ensures(self, a, r):
        arr = _as1d(a.array)
        n = int(arr.shape[0])
        vals = [arr.at(i) for i in range(n)]
        ok = isinstance(r, SymArr) and r.ndim == 1 and concrete_len(r) == a.parts - 1
        out = {"parts_minus_one_split_points": ok}
        if not ok:
            return out
        idx = [r.at(i) for i in range(a.parts - 1)]
        out["split_points_strictly_increasing_within_1_to_n_minus_1"] = and_(*([and_(1 <= i, i <= n - 1) for i in idx] + [x < y for x, y in zip(idx, idx[1:])]))
        bounds = [0] + idx + [n]
        out["every_part_is_non_empty"] = and_(*[hi > lo for lo, hi in zip(bounds, bounds[1:])])
        total = 0
        for v in vals:
            total = total + v
        ideal = total // a.parts
        biggest = vals[0]
        for v in vals[1:]:
            biggest = ite(v > biggest, v, biggest)
        clauses = []
        for lo, hi in zip(bounds, bounds[1:]):
            s_ = 0
            for t in range(n):
                s_ = s_ + ite(and_(lo <= t, t < hi), vals[t], 0)
            clauses.append(and_(s_ - ideal <= biggest + a.parts, ideal - s_ <= biggest + a.parts))
        out["part_sums_within_one_element_plus_parts_of_the_ideal"] = and_(*clauses)
        return out


def _as1d(x):
    """The array argument as the code sees it after np.atleast_1d(...).ravel() (a list of populations is accepted)."""
    from pyvc.arr import as_array

    return as_array(x)


def concrete_len(arr):
    from pyvc.core import concrete_value

    v = concrete_value(arr.shape[0])
    return None if v is None else int(v)


def _MayRaise(a):
    """Permissive raise condition: a ValueError is ALLOWED whenever the greedy rule finds no valid split (pos = True);
    it is REQUIRED when parts > size (neg, proved on the normal exit: parts <= size)."""
    from pyvc.contract import RaiseCond

    n = int(_as1d(a.array).shape[0])
    return RaiseCond(True, not (a.parts > n))


# ----------------------------------------------------------------- deductive: BlockKFold's wiring


def _block_split_labels(coordinates, spacing=None, adjust="spacing", region=None, shape=None):
    raise NotImplementedError


@register
class BlockSplitLabels(Contract):
    """Ghost recorder standing for block_split inside the wiring lemma: an arbitrary integer label per sample (what the
    labels MEAN is block_split's own contract, discharged under C08)."""

    target = "contracts.cv_c11:_block_split_labels"
    cover_return = False

    def configs(self, tier):
        return []

    def havoc(self, a):
        n = a.coordinates[0].shape[0]
        return (None, havoc_array("labels", (n,), "i"))

    def ensures(self, a, r):
        return {}


class SymKFold:
    """sklearn.model_selection.KFold(n_splits) without shuffling on a sequence of CONCRETE length: consecutive folds,
    the first (n mod k) of size n // k + 1, the others n // k (documented behaviour; assumed)."""

    def __init__(self, n_splits=5, shuffle=False, random_state=None):
        from pyvc.core import Unsupported

        if shuffle:
            raise Unsupported("KFold(shuffle=True)")
        self.n_splits = n_splits
        ctx().used_prelude.add("sklearn KFold(n_splits).split: consecutive folds, sizes n//k (+1 for the first n%k)")

    def split(self, X, y=None, groups=None):
        from pyvc.arr import as_array, from_list
        from pyvc.core import Unsupported, concrete_value

        n = concrete_value(as_array(X).shape[0])
        if n is None:
            raise Unsupported("KFold.split of a sequence of symbolic length")
        n, k = int(n), int(self.n_splits)
        if k > n:
            raise ValueError("Cannot have number of splits n_splits=%d greater than the number of samples: n_samples=%d." % (k, n))
        sizes = [n // k + (1 if i < n % k else 0) for i in range(k)]
        lo = 0
        for sz in sizes:
            test = list(range(lo, lo + sz))
            train = [i for i in range(n) if i < lo or i >= lo + sz]
            yield from_list(train, "i"), from_list(test, "i")
            lo += sz


def kfold_test_sets(cv, X):
    """The test index sets of one BlockKFold.split(X), as the real generator yields them."""
    return list(cv._iter_test_indices(X))


@register
class KFoldWiring(Contract):
    """BlockKFold._iter_test_indices (REAL code) for an arbitrary number of samples with arbitrary labels, and a
    structural bound: exactly G occupied blocks (G = 2..4). Proved: exactly n_splits test sets; every sample is in
    exactly one of them; a test set is a union of WHOLE blocks (never splits a block); no test set is empty; and, when
    balancing, the populations handed to partition_by_sum are - position by position - the populations of the blocks in
    the (shuffled) order the folds are then cut from. The fold boundaries themselves come from partition_by_sum's /
    KFold's contracts."""

    target = "contracts.cv_c11:kfold_test_sets"
    native_replay = False
    cover_raise = True

    def patch_modules(self, P):
        import verde.model_selection as ms
        from pyvc.contract import REGISTRY, default_patches, make_stub

        default_patches(P, ms)
        P.set(ms, "block_split", make_stub(REGISTRY["contracts.cv_c11:_block_split_labels"], "wiring"))
        P.set(ms, "partition_by_sum", make_stub(REGISTRY["verde.utils:partition_by_sum"], "wiring"))
        P.set(ms, "KFold", SymKFold)

    def configs(self, tier):
        out = []
        for G in (2, 3, 4) if tier == "thorough" else (2, 3):
            for k in range(2, G + 1):
                for shuffle in (False, True):
                    for balance in (True, False):
                        out.append({"G": G, "n_splits": k, "shuffle": shuffle, "balance": balance})
        out.append({"G": 2, "n_splits": 3, "shuffle": False, "balance": True})  # more folds than blocks: rejected
        return out

    def setup(self, B, cfg):
        import verde

        ctx().ghost["group_count_hint"] = cfg["G"]
        cv = verde.BlockKFold.__new__(verde.BlockKFold)
        cv.spacing, cv.shape, cv.n_splits = B.real("spacing"), None, cfg["n_splits"]
        cv.shuffle, cv.random_state, cv.balance = cfg["shuffle"], B.int("seed"), cfg["balance"]
        n = B.dim("n_samples", 1)
        self._G = cfg["G"]
        return (cv, B.array("X", (n, 2))), {}

    def requires(self, a):
        return a.cv.spacing > 0

    def raises(self, a):
        return [(ValueError, a.cv.n_splits > self._G)]

    def ensures(self, a, r):
        from pyvc.prelude_groupby import structure_of
        from pyvc.prelude_index import SymIndexArr
        from pyvc.sums import sum_tag_of
        from pyvc.core import iff, implies

        c = ctx()
        G, k = self._G, a.cv.n_splits
        n = a.X.shape[0]
        out = {"exactly_n_splits_test_sets": isinstance(r, list) and len(r) == k and all(isinstance(t, SymIndexArr) for t in r)}
        calls = c.ghost.get("contracts.cv_c11:_block_split_labels", [])
        out["blocks_come_from_one_block_split_of_the_two_columns_with_the_estimators_spacing"] = len(calls) == 1
        if not (out["exactly_n_splits_test_sets"] and len(calls) == 1):
            return out
        ba, (_, labels) = calls[0]
        out["blocks_come_from_one_block_split_of_the_two_columns_with_the_estimators_spacing"] = (
            ba.spacing is a.cv.spacing and ba.shape is None and ba.region is None and ba.adjust == "spacing"
            and All(Forall((n,), lambda p: and_(ba.coordinates[0].at(p) == a.X.at(p, 0), ba.coordinates[1].at(p) == a.X.at(p, 1))))
        )
        lab = labels.snapshot()
        mem = [t.iset.member for t in r]
        out["index_sets_range_over_the_samples"] = and_(*[t.iset.n == n for t in r])
        out["a_test_set_never_splits_a_block"] = All(*[Forall((n, n), lambda p, q, m=m: implies(lab(p) == lab(q), iff(m(p), m(q)))) for m in mem])
        out["every_sample_is_tested_exactly_once"] = Forall((n,), lambda p: and_(or_(*[m(p) for m in mem]), *[not_(and_(mem[i](p), mem[j](p))) for i in range(k) for j in range(i + 1, k)]))
        gs = structure_of(labels)
        out["no_test_set_is_empty"] = All(*[Exists((n,), lambda p, m=m: m(p), witnesses=[(gs.rep(g),) for g in range(G)]) for m in mem])
        # balancing: what partition_by_sum was given
        sig = c.ghost.get("shuffle", [])
        order = [s_ for s_ in sig[0][1]] if (a.cv.shuffle and len(sig) == 1) else list(range(G))
        if a.cv.shuffle:
            out["block_order_shuffled_exactly_once"] = len(sig) == 1
        ids = [gs.key(t) for t in order]  # the block id at position t of the order the folds are cut from
        pcalls = c.ghost.get("verde.utils:partition_by_sum", [])
        if a.cv.balance:
            sizes_seen = getattr(self, "_sizes_seen", None)
        if a.cv.balance and len(pcalls) == 1:
            pa, _ = pcalls[0]
            from pyvc.arr import as_array

            arr = as_array(pa.array)
            okn = arr.ndim == 1 and not is_sym(arr.shape[0]) and int(arr.shape[0]) == G and pa.parts == k
            out["partition_by_sum_gets_one_population_per_block_and_n_splits_parts"] = okn
            if okn:
                from pyvc.sums import count_equal

                out["population_at_position_t_is_that_of_the_block_at_position_t_of_the_fold_order"] = and_(*[arr.at(t) == count_equal(labels, ids[t]) for t in range(G)])
        return out


class SymShuffleSplitBlocks:
    """sklearn.model_selection.ShuffleSplit(n_splits, test_size, train_size, random_state).split(X) on a sequence of
    CONCRETE length: n_splits pairs of index arrays with the sizes scikit-learn prescribes (its own
    _validate_shuffle_split, executed for real), pairwise distinct entries in range, train and test disjoint;
    WHICH indices is unspecified (a function of the seed). Assumed."""

    def __init__(self, n_splits=10, test_size=None, train_size=None, random_state=None):
        self.n_splits, self.test_size, self.train_size, self.random_state = n_splits, test_size, train_size, random_state
        ctx().used_prelude.add("sklearn ShuffleSplit.split: n_splits (train, test) pairs of the prescribed sizes, distinct indices, disjoint")

    def split(self, X, y=None, groups=None):
        from sklearn.model_selection._split import _validate_shuffle_split

        from pyvc.arr import as_array, from_list
        from pyvc.core import Unsupported, concrete_value

        n = concrete_value(as_array(X).shape[0])
        if n is None or is_sym(self.n_splits) or is_sym(self.test_size) or is_sym(self.train_size):
            raise Unsupported("ShuffleSplit.split with symbolic sizes")
        n = int(n)
        n_train, n_test = _validate_shuffle_split(n, self.test_size, self.train_size, default_test_size=0.1)
        c = ctx()
        for k in range(int(self.n_splits)):
            idx = [c.fresh("ss%d_%d" % (k, t), "int") for t in range(n_train + n_test)]
            c.assume(and_(*[and_(v >= 0, v < n) for v in idx]))
            c.assume(and_(*[idx[i] != idx[j] for i in range(len(idx)) for j in range(i + 1, len(idx))]) if len(idx) > 1 else True)
            train, test = from_list(idx[:n_train], "i"), from_list(idx[n_train:], "i")
            c.ghost.setdefault("shuffle_split", []).append((train, test))
            yield train, test


def shuffle_test_sets(cv, X):
    """The test index sets of one BlockShuffleSplit.split(X), as the real generator yields them."""
    return list(cv._iter_test_indices(X))


@register
class ShuffleSplitWiring(Contract):
    """BlockShuffleSplit._iter_test_indices (REAL code), arbitrary samples and labels, exactly G occupied blocks: one
    ShuffleSplit over the occupied blocks with n_splits * balancing candidates of the prescribed sizes; every yielded
    test set is the set of ALL samples of the test blocks of one candidate of its own round (whole blocks, the
    prescribed number of blocks), namely a candidate whose point balance |#train / #test - blocks ratio| is minimal
    among the round's candidates."""

    target = "contracts.cv_c11:shuffle_test_sets"
    native_replay = False

    def patch_modules(self, P):
        import verde.model_selection as ms
        from pyvc.contract import REGISTRY, default_patches, make_stub

        default_patches(P, ms)
        P.set(ms, "block_split", make_stub(REGISTRY["contracts.cv_c11:_block_split_labels"], "wiring"))
        P.set(ms, "ShuffleSplit", SymShuffleSplitBlocks)

    def configs(self, tier):
        out = [{"G": 2, "n_splits": 1, "balancing": 1, "test": 1}, {"G": 3, "n_splits": 1, "balancing": 2, "test": 1}, {"G": 3, "n_splits": 2, "balancing": 1, "test": 2}]
        if tier == "thorough":
            out += [{"G": 3, "n_splits": 1, "balancing": 3, "test": 1}]
            # dropped after the thorough sweeps of rounds 8/9: G=3 with two splits of two candidates and every G=4 form
            # are slow, solver-unstable queries (17 minutes / `unknown` on a busy machine) - a verdict that can flip with
            # the load is worse than no verdict; the quick configs carry the same clause for G = 2, 3
        return out

    def setup(self, B, cfg):
        import verde

        ctx().ghost["group_count_hint"] = cfg["G"]
        cv = verde.BlockShuffleSplit.__new__(verde.BlockShuffleSplit)
        cv.spacing, cv.shape, cv.n_splits = B.real("spacing"), None, cfg["n_splits"]
        cv.test_size, cv.train_size, cv.random_state, cv.balancing = cfg["test"], None, B.int("seed"), cfg["balancing"]
        self._cfg = cfg
        return (cv, B.array("X", (B.dim("n_samples", 1), 2))), {}

    def requires(self, a):
        return a.cv.spacing > 0

    def ensures(self, a, r):
        from pyvc.core import iff, implies, div
        from pyvc.prelude_groupby import structure_of
        from pyvc.prelude_index import SymIndexArr
        from pyvc.sums import count_equal

        c = ctx()
        cfg = self._cfg
        G, k, nb = cfg["G"], cfg["n_splits"], cfg["balancing"]
        n = a.X.shape[0]
        out = {"exactly_n_splits_test_sets": isinstance(r, list) and len(r) == k and all(isinstance(t, SymIndexArr) for t in r)}
        calls = c.ghost.get("contracts.cv_c11:_block_split_labels", [])
        cands = c.ghost.get("shuffle_split", [])
        out["one_block_split_and_n_splits_times_balancing_candidates"] = len(calls) == 1 and len(cands) == k * nb
        if not all(out.values()):
            return out
        _, (_, labels) = calls[0]
        lab = labels.snapshot()
        gs = structure_of(labels)
        keys = [gs.key(g) for g in range(G)]
        pops = [count_equal(labels, keys[g]) for g in range(G)]

        def in_blocks(v, blocks):  # label value v is the id of one of the chosen block positions
            m = int(blocks.shape[0])
            return or_(*[and_(blocks.at(t) == g, v == keys[g]) for t in range(m) for g in range(G)])

        def npoints(blocks):
            tot = 0
            for g in range(G):
                tot = tot + ite(or_(*[blocks.at(t) == g for t in range(int(blocks.shape[0]))]), pops[g], 0)
            return tot

        def score(train, test):
            return _absdiff(div(npoints(train), npoints(test)), div(int(train.shape[0]), int(test.shape[0])))

        for j in range(k):
            info = getattr(r[j].iset, "isin_of", None)
            out["split%d_is_a_selection_of_samples_by_their_block_label" % j] = info is not None and info[0].storage is labels.storage
            if not out["split%d_is_a_selection_of_samples_by_their_block_label" % j]:
                continue
            member_of = info[1]  # label value -> in the yielded set? (sample p is selected iff member_of(label[p]))
            mine = cands[j * nb : (j + 1) * nb]
            # every sample carries one of the G occupied labels, so "the yielded set is exactly the samples of the test blocks
            # of candidate i" is a statement about the G label values (quantifier free); the yielded set must be that of SOME
            # candidate of its own round whose point balance is minimal in that round
            parts = []
            for tr, te in mine:
                same = and_(*[iff(member_of(keys[g]), in_blocks(keys[g], te)) for g in range(G)])
                parts.append(and_(same, *[score(tr, te) <= score(tr2, te2) for tr2, te2 in mine]))
            out["split%d_is_all_samples_of_the_test_blocks_of_a_best_point_balanced_candidate_of_its_round" % j] = or_(*parts)
            out["split%d_candidates_test_the_prescribed_number_of_blocks" % j] = all(int(te.shape[0]) == cfg["test"] for _, te in mine)
        return out


def _absdiff(x, y):
    d = x - y
    return ite(d >= 0, d, -d)


def _as_bool(v):
    from pyvc.core import SymBool, SymNum

    if isinstance(v, (SymBool, bool)):
        return v
    return v != 0


# ----------------------------------------------------------------- bounded: the splitters


def _points_from_occupancy(occ, rng):
    """One row of unit blocks along easting; block b gets occ[b] points strictly inside it.
    The first and last blocks get a point at the outer corners so that the inferred region is exact."""
    pts = []
    nb = len(occ)
    for b, k in enumerate(occ):
        for t in range(k):
            pts.append((b + 0.2 + 0.6 * rng.random(), 0.2 + 0.6 * rng.random()))
    pts.append((0.0, 0.0))
    pts.append((float(nb), 1.0))
    return np.array(pts)


def kfold_splits(X, spacing, n_splits, shuffle, random_state, balance):
    import verde

    with warnings.catch_warnings(record=True) as w:
        warnings.simplefilter("always")
        cv = verde.BlockKFold(spacing=spacing, n_splits=n_splits, shuffle=shuffle, random_state=random_state, balance=balance)
        out = [(np.array(tr), np.array(te)) for tr, te in cv.split(X)]
    return out, [str(x.message) for x in w if issubclass(x.category, UserWarning)]


def shuffle_splits(X, spacing, n_splits, test_size, random_state, balancing):
    import verde

    cv = verde.BlockShuffleSplit(spacing=spacing, n_splits=n_splits, test_size=test_size, random_state=random_state, balancing=balancing)
    return [(np.array(tr), np.array(te)) for tr, te in cv.split(X)]


def _labels(X, spacing):
    import verde

    return verde.block_split((X[:, 0], X[:, 1]), spacing=spacing)[1]


def _reused_on_other_rows(make_cv, X):
    """A splitter that has already split X, then splits the SAME points in another row order (same size, same bounding
    box): the same test sets as a fresh splitter gives for that array."""
    with warnings.catch_warnings():
        warnings.simplefilter("ignore")
        cv = make_cv()
        list(cv.split(X))
        X2 = np.ascontiguousarray(X[::-1])
        got = [np.array(te) for _, te in cv.split(X2)]
        want = [np.array(te) for _, te in make_cv().split(X2)]
    return len(got) == len(want) and all(np.array_equal(x, y) for x, y in zip(got, want))


def _same_object_split_twice(cv, X):
    """Two split() calls of ONE splitter object (an integer seed, or no shuffling): the same folds both times."""
    with warnings.catch_warnings():
        warnings.simplefilter("ignore")
        first = [np.array(te) for _, te in cv.split(X)]
        second = [np.array(te) for _, te in cv.split(X)]
    return len(first) == len(second) and all(np.array_equal(x, y) for x, y in zip(first, second))


def _arr(x):
    return [int(x.at(i)) for i in range(int(x.shape[0]))]


def _X(a):
    X = a.X
    return np.array([[X.at(i, 0), X.at(i, 1)] for i in range(int(X.shape[0]))])


def _common_split_clauses(out, splits, n, labels):
    alltest = []
    ok_partition, ok_blocks, nonempty = True, True, True
    for tr, te in splits:
        tr, te = _arr(tr), _arr(te)
        alltest.append(te)
        if sorted(tr + te) != list(range(n)):
            ok_partition = False
        if set(labels[tr]) & set(labels[te]):
            ok_blocks = False
        if not te or not tr:
            nonempty = False
    out["each_split_partitions_the_sample_indices"] = ok_partition
    out["no_block_contributes_points_to_both_sides"] = ok_blocks
    out["train_and_test_are_non_empty"] = nonempty
    return alltest


@register
class KFoldSplits(Contract):
    target = "contracts.cv_c11:kfold_splits"
    cover_return = False

    def configs(self, tier):
        return []

    def samples(self, rng, nrng, tier):
        for occ in _occupancies(tier, rng):
            if len(occ) < 2:
                continue
            X = _points_from_occupancy(occ, rng)
            for n_splits in range(2, len(occ) + 1):
                for shuffle, balance in ((False, True), (True, True), (False, False)):
                    if tier != "thorough" and rng.random() < 0.5:
                        continue
                    yield (X, 1.0, n_splits, shuffle, rng.randint(0, 99), balance), {}
        # many blocks, very uneven occupancy, few folds: the ideal fold is many times the largest block, so sizes
        # paired with the wrong blocks (e.g. counted before a shuffle) show as a gross imbalance
        for _ in range(60 if tier == "thorough" else 16):
            nb = rng.randint(12, 40)
            # (every other layout with EMPTY blocks between the occupied ones: block ids are not 0..G-1 then)
            occ = tuple(rng.choice([1, 1, 1, 2, 3, 8, 12, 20] + ([0, 0, 0] if _ % 2 else [])) for _ in range(nb))
            if sum(1 for o in occ if o) < 6:
                continue
            X = _points_from_occupancy(occ, rng)
            for shuffle, balance in ((True, True), (False, True), (True, False)):
                yield (X, 1.0, rng.randint(2, 5), shuffle, rng.randint(0, 99), balance), {}

    def ensures(self, a, r):
        splits, warns = r
        X = _X(a)
        n = X.shape[0]
        labels = _labels(X, a.spacing)
        out = {"exactly_n_splits_folds": len(splits) == a.n_splits}
        alltest = _common_split_clauses(out, splits, n, labels)
        flat = sorted(i for te in alltest for i in te)
        out["test_folds_are_disjoint_and_cover_every_sample_once"] = flat == list(range(n))
        sizes = np.array([int(np.sum(labels == b)) for b in np.unique(labels)])
        if a.balance and not warns:
            ideal = n // a.n_splits
            out["balanced_within_one_block_population"] = all(abs(len(te) - ideal) <= sizes.max() + a.n_splits for te in alltest)
        if a.balance and warns:
            # the fallback must be justified: the greedy partition really fails on the (possibly shuffled) sizes
            out["fallback_warning_only_with_equal_block_counts"] = max(len(set(labels[te])) for te in alltest) - min(len(set(labels[te])) for te in alltest) <= 1
        again, _ = kfold_splits(X, a.spacing, a.n_splits, a.shuffle, a.random_state, a.balance)
        out["reproducible_for_a_fixed_random_state"] = all(np.array_equal(_np(t1), t2) for (_, t1), (_, t2) in zip(splits, again))
        if isinstance(a.random_state, int) or not a.shuffle:
            import verde

            mk = lambda: verde.BlockKFold(spacing=a.spacing, n_splits=a.n_splits, shuffle=a.shuffle, random_state=a.random_state, balance=a.balance)  # noqa: E731
            out["a_second_split_of_the_same_splitter_gives_the_same_folds"] = _same_object_split_twice(mk(), X)
            out["a_splitter_reused_on_the_same_points_in_another_row_order_acts_like_a_fresh_one"] = _reused_on_other_rows(mk, X)
        return out


def _np(x):
    return np.array(_arr(x))


@register
class ShuffleSplits(Contract):
    target = "contracts.cv_c11:shuffle_splits"
    cover_return = False

    def configs(self, tier):
        return []

    def samples(self, rng, nrng, tier):
        for occ in _occupancies(tier, rng):
            if len(occ) < 3 or (tier != "thorough" and rng.random() < 0.6):
                continue
            X = _points_from_occupancy(occ, rng)
            yield (X, 1.0, rng.choice([1, 2, 3]), rng.choice([0.1, 0.25, 0.5, 0.7]), rng.randint(0, 99), rng.choice([1, 2, 5])), {}

    def raises(self, a):
        # rejected exactly when scikit-learn's ShuffleSplit rejects these sizes for the occupied blocks
        from sklearn.model_selection import ShuffleSplit

        ids = np.unique(_labels(_X(a), a.spacing))
        try:
            next(ShuffleSplit(n_splits=1, test_size=a.test_size, random_state=0).split(ids))
            bad = False
        except ValueError:
            bad = True
        return [(ValueError, bad)]

    def ensures(self, a, r):
        from sklearn.model_selection import ShuffleSplit

        X = _X(a)
        n = X.shape[0]
        labels = _labels(X, a.spacing)
        ids = np.unique(labels)
        out = {"exactly_n_splits_splits": len(r) == a.n_splits}
        _common_split_clauses(out, r, n, labels)
        # the block counts that test_size prescribes, and the best-balanced candidate (independent replay of the candidate shuffles)
        cands = list(ShuffleSplit(n_splits=a.n_splits * a.balancing, test_size=a.test_size, random_state=a.random_state).split(ids))
        n_test_blocks = len(cands[0][1])
        out["tests_the_prescribed_number_of_blocks"] = all(len(set(labels[_arr(te)])) == n_test_blocks for _, te in r)
        best_ok = True
        for k, (_, te) in enumerate(r):
            group = cands[k * a.balancing : (k + 1) * a.balancing]
            scores = []
            for trb, teb in group:
                ntr = int(np.isin(labels, ids[trb]).sum())
                nte = int(np.isin(labels, ids[teb]).sum())
                scores.append(abs(ntr / nte - len(trb) / len(teb)))
            want = set(np.where(np.isin(labels, ids[group[int(np.argmin(scores))][1]]))[0].tolist())
            if set(_arr(te)) != want:
                best_ok = False
        out["each_split_is_the_best_point_balanced_candidate"] = best_ok
        again = shuffle_splits(X, a.spacing, a.n_splits, a.test_size, a.random_state, a.balancing)
        out["reproducible_for_a_fixed_random_state"] = all(np.array_equal(_np(t1), t2) for (_, t1), (_, t2) in zip(r, again))
        if isinstance(a.random_state, int):
            import verde

            mk = lambda: verde.BlockShuffleSplit(spacing=a.spacing, n_splits=a.n_splits, test_size=a.test_size, random_state=a.random_state, balancing=a.balancing)  # noqa: E731
            out["a_second_split_of_the_same_splitter_gives_the_same_splits"] = _same_object_split_twice(mk(), X)
            out["a_splitter_reused_on_the_same_points_in_another_row_order_acts_like_a_fresh_one"] = _reused_on_other_rows(mk, X)
        return out
