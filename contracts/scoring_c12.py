"""Sidecar contracts for property C12: scoring and model selection."""
import itertools

import numpy as np

from pyvc.arr import SymArr, as_array, from_list, havoc_array, new_array
from pyvc.concrete import unwrap, wrap
from pyvc.contract import REGISTRY, Args, Contract, default_patches, make_stub, register
from pyvc.core import SymNum, and_, ctx, div, implies, is_sym, not_, opaque_of_arrays, or_, spec_fn
from pyvc.spec import All, Forall, close
from pyvc.sums import v_mean

from .base_utils import _tup
from .blocks_c08 import BU, flat
from .compose_c06 import AbstractGridder
from .coordinates_c13 import _coords, _rand_coords

import verde

MS = "verde.model_selection"


class TokenGridder(AbstractGridder):
    """Abstract gridder whose predictions depend on WHAT it was fitted on (a fresh token per fit)."""

    def fit(self, coordinates, data, weights=None):
        c = ctx()
        self.fit_args_ = (coordinates, data, weights)
        self.token_ = opaque_name("fit", coordinates[0], coordinates[1], *(_tup(data)), *[w for w in (_tup(weights) if weights is not None else ()) if w is not None])
        c.ghost.setdefault("token.fit", []).append(self)
        self.region_ = (0.0, 1.0, 0.0, 1.0)
        return self

    def predict(self, coordinates):
        E, N = as_array(coordinates[0]), as_array(coordinates[1])
        es, ns = E.snapshot(), N.snapshot()
        tok = self.token_
        outs = tuple(new_array(E.shape, (lambda idx, k=k: spec_fn("P_%s_%d_%s" % (self.tag, k, tok), es(*idx), ns(*idx))), "f") for k in range(self.ncomp))
        return outs[0] if self.ncomp == 1 else outs


def opaque_name(prefix, *arrays):
    from pyvc.core import array_text
    import hashlib

    return prefix + hashlib.sha1("|".join(array_text(a) for a in arrays).encode()).hexdigest()[:10]


def spec_prediction(tag, k, token, x, y):
    return spec_fn("P_%s_%d_%s" % (tag, k, token), x, y)


class SymScorer:
    """check_scoring(...)(estimator, X, y_true, sample_weight=w) = METRIC(y_true, estimator.predict(X), w)."""

    def __init__(self, scoring):
        self.scoring = scoring

    def __call__(self, estimator, X, y_true, sample_weight=None):
        ctx().used_prelude.add("sklearn.metrics scorer '%s' as an uninterpreted function of (y_true, y_pred, sample_weight)" % (self.scoring,))
        y_pred = estimator.predict(X)
        return metric(self.scoring, as_array(y_true), as_array(y_pred), None if sample_weight is None else as_array(sample_weight))


def metric(scoring, y_true, y_pred, w):
    return opaque_of_arrays("METRIC_%s" % scoring, y_true, y_pred, w)


def sym_check_scoring(estimator, scoring=None, **kw):
    ctx().used_prelude.add("sklearn.metrics.check_scoring")
    return SymScorer(scoring)


def _select(arrays, index):
    if arrays is None or any(i is None for i in arrays):
        return arrays
    return tuple(flat(i)[index] for i in arrays)


def spec_score(scoring, est_tag, ncomp, token, coords, data, weights):
    """mean over components of METRIC(ravel(data_i), prediction_i at the coordinates, weights_i)."""
    E, N = flat(coords[0]), flat(coords[1])
    vals = []
    for k in range(ncomp):
        pred = new_array(E.shape, lambda idx, k=k: spec_prediction(est_tag, k, token, E.at(*idx), N.at(*idx)), "f")
        vals.append(metric(scoring, flat(data[k]), pred, None if weights[k] is None else flat(weights[k])))
    return v_mean(vals)


@register
class ScoreEstimator(Contract):
    target = BU + ":score_estimator"
    stubs = {"check_fit_input": BU + ":check_fit_input"}
    prelude = (("check_scoring", sym_check_scoring),)
    inline = ("check_data", "DummyEstimator")

    def configs(self, tier):
        return [{"ncomp": 1, "weights": False, "rank": 1, "scoring": "r2"}, {"ncomp": 2, "weights": True, "rank": 2, "scoring": "neg_mean_squared_error"}, {"ncomp": 3, "weights": False, "rank": 1, "scoring": "r2"}]

    def setup(self, B, cfg):
        est = TokenGridder("se", cfg["ncomp"])
        est.token_ = "given"
        coords = _coords(B, cfg["rank"], 0, minsize=1)
        data = tuple(B.array("data%d" % k, coords[0].shape) for k in range(cfg["ncomp"]))
        w = tuple(B.array("w%d" % k, coords[0].shape) for k in range(cfg["ncomp"])) if cfg["weights"] else None
        if cfg["ncomp"] == 1:
            data, w = data[0], (w[0] if w else None)
        return (cfg["scoring"], est, coords, data), dict(weights=w)

    def havoc(self, a):
        din = _tup(a.data)
        win = _tup(a.weights) if a.weights is not None else tuple([None] * len(din))
        return spec_score(a.scoring, a.estimator.tag, a.estimator.ncomp, a.estimator.token_, a.coordinates, din, win)

    functional = True

    def ensures(self, a, r):
        din = _tup(a.data)
        win = _tup(a.weights) if a.weights is not None else tuple([None] * len(din))
        return {"mean_over_components_of_the_metric_of_data_vs_prediction_with_its_own_weights": r == spec_score(a.scoring, a.estimator.tag, a.estimator.ncomp, a.estimator.token_, a.coordinates, din, win)}


@register
class GridderScore(Contract):
    target = "verde.base.base_classes:BaseGridder.score"
    stubs = {"score_estimator": BU + ":score_estimator"}
    frame_attrs = set()

    def setup(self, B, cfg):
        est = TokenGridder("sc", 1)
        est.token_ = "given"
        coords = _coords(B, 1, 0, minsize=1)
        return (est, coords, B.array("data", coords[0].shape)), dict(weights=B.array("w", coords[0].shape))

    def expect_warning(self, a):
        return [("FutureWarning", True)]

    def ensures(self, a, r):
        return {"default_metric_is_r2_of_this_estimator_on_the_given_data_and_weights": r == spec_score("r2", a.self.tag, 1, a.self.token_, a.coordinates, (a.data,), (a.weights,))}


@register
class Select(Contract):
    target = MS + ":select"
    functional = True

    def configs(self, tier):
        return [{"n": 2, "rank": 1}, {"n": 3, "rank": 2}, {"n": 0}, {"n": 2, "none": True}]

    def setup(self, B, cfg):
        if cfg["n"] == 0:
            arrays = None
        else:
            dims = tuple(B.dim("d%d" % k, 1) for k in range(cfg["rank"] if "rank" in cfg else 1))
            arrays = tuple(B.array("a%d" % k, dims) for k in range(cfg["n"]))
            if cfg.get("none"):
                arrays = (None,) + arrays[1:]
        m = 2
        index = from_list([B.int("ix%d" % k) for k in range(m)])
        self._n = None if arrays is None or cfg.get("none") else flat(arrays[0]).shape[0]
        return (arrays, index), {}

    def requires(self, a):
        if a.arrays is None or any(i is None for i in a.arrays):
            return True
        n = flat(a.arrays[0]).shape[0]
        return and_(*[and_(a.index.at(t) >= 0, a.index.at(t) < n) for t in range(int(a.index.shape[0]))])

    def havoc(self, a):
        return _select(a.arrays, a.index)

    def samples(self, rng, nrng, tier):
        # gridded (2-D) inputs: the bounded stage also evaluates them in Fortran / mixed memory order
        for _ in range(10 if tier == "thorough" else 4):
            shape = (rng.randint(2, 5), rng.randint(2, 6))
            arrays = tuple(nrng.uniform(-5, 5, shape) for _ in range(rng.randint(2, 3)))
            index = nrng.permutation(shape[0] * shape[1])[: rng.randint(1, shape[0] * shape[1])]
            yield (arrays, index), {}
        yield ((nrng.uniform(-1, 1, 7), nrng.uniform(-1, 1, 7)), np.array([6, 0, 3])), {}
        # pandas Series whose integer index is NOT 0..n-1 in order (a sorted / sampled DataFrame column) next to plain
        # arrays: the index array is positional for every container
        import pandas as pd

        for _ in range(3):
            n = rng.randint(5, 12)
            ser = pd.Series(nrng.uniform(-5, 5, n), index=nrng.permutation(n))
            other = nrng.uniform(-5, 5, n)
            idx = nrng.permutation(n)[: rng.randint(1, n)]
            yield ((ser, other) if rng.random() < 0.5 else (other, ser, pd.Series(other, index=np.arange(n)[::-1])), idx), {}
        yield (None, np.array([0])), {}

    def ensures(self, a, r):
        if a.arrays is None or any(i is None for i in a.arrays):
            return {"none_passes_through": r is a.arrays}
        out = {"one_selection_per_array": isinstance(r, tuple) and len(r) == len(a.arrays)}
        for k, (x, y) in enumerate(zip(a.arrays, r)):
            if not isinstance(x, SymArr) and hasattr(x, "index") and hasattr(x, "values"):
                x = wrap(np.asarray(x.values))  # a pandas Series: its values in POSITIONAL order
            f = flat(x)
            out["array%d_raveled_then_indexed_with_the_same_index" % k] = All(y.shape[0] == a.index.shape[0], Forall(a.index.shape, lambda t, f=f, y=y: y.at(t) == f.at(a.index.at(t))))
        return out


class ListCV:
    """A cross-validator given by an explicit list of (train, test) index arrays with symbolic contents."""

    def __init__(self, splits):
        self.splits = splits

    def split(self, X, y=None, groups=None):
        return iter(self.splits)


def _sym_splits(B, nsplits, ntrain, ntest, n):
    out = []
    for k in range(nsplits):
        tr = from_list([B.int("train%d_%d" % (k, t)) for t in range(ntrain)])
        te = from_list([B.int("test%d_%d" % (k, t)) for t in range(ntest)])
        out.append((tr, te))
    return out


def _split_bounds(splits, n):
    conds = []
    for tr, te in splits:
        for arr in (tr, te):
            for t in range(int(arr.shape[0])):
                conds.append(and_(arr.at(t) >= 0, arr.at(t) < n))
    return and_(*conds)


class SymDelayed:
    def __init__(self, fn, args, kwargs):
        self.fn, self.args, self.kwargs = fn, args, kwargs
        self.computed = 0

    def compute(self):
        self.computed += 1
        return self.fn(*self.args, **self.kwargs)


class _SymDask:
    @staticmethod
    def delayed(fn):
        ctx().used_prelude.add("dask.delayed (calls the function exactly once on the given arguments when computed)")

        def wrapper(*args, **kwargs):
            return SymDelayed(fn, args, kwargs)

        return wrapper


@register
class FitScore(Contract):
    target = MS + ":fit_score"
    stubs = {"score_estimator": BU + ":score_estimator"}

    def configs(self, tier):
        return [{"scoring": None, "ncomp": 1, "weights": True}, {"scoring": "neg_mean_squared_error", "ncomp": 2, "weights": False}]

    def patch_modules(self, P):
        import verde.base.base_classes as bc

        default_patches(P, bc)
        P.set(bc, "score_estimator", make_stub(REGISTRY[BU + ":score_estimator"], "fit_score"))

    def setup(self, B, cfg):
        est = TokenGridder("fs", cfg["ncomp"])

        def triple(prefix, n):
            coords = (B.array(prefix + "_e", (n,)), B.array(prefix + "_n", (n,)))
            data = tuple(B.array("%s_d%d" % (prefix, k), (n,)) for k in range(cfg["ncomp"]))
            w = tuple(B.array("%s_w%d" % (prefix, k), (n,)) for k in range(cfg["ncomp"])) if cfg["weights"] else tuple([None] * cfg["ncomp"])
            return (coords, data, w)

        return (est, triple("train", B.dim("ntrain", 1)), triple("test", B.dim("ntest", 1)), cfg["scoring"]), {}

    pure = True

    def ensures(self, a, r):
        est = a.estimator
        out = {"fitted_on_the_training_data_only": getattr(est, "fit_args_", None) is not None and all(x is y for x, y in zip(est.fit_args_, a.train_data))}
        if not out["fitted_on_the_training_data_only"]:
            return out
        scoring = a.scoring if a.scoring is not None else "r2"
        out["scored_on_the_test_data_only_with_the_requested_metric"] = r == spec_score(scoring, est.tag, est.ncomp, est.token_, a.test_data[0], a.test_data[1], a.test_data[2])
        return out


def _expected_fold_score(scoring, tag, ncomp, coords, data, weights, train, test):
    """What split (train, test) must score: fit on the selected training rows, metric on the test rows."""
    sel = lambda arrs, ix: _select(arrs, ix)
    tr_c, tr_d = sel(coords, train), sel(data, train)
    tr_w = sel(weights, train)
    token = opaque_name("fit", tr_c[0], tr_c[1], *tr_d, *[w for w in tr_w if w is not None])
    te_c, te_d, te_w = sel(coords, test), sel(data, test), sel(weights, test)
    return spec_score(scoring if scoring is not None else "r2", tag, ncomp, token, te_c, te_d, te_w)


@register
class CrossValScore(Contract):
    target = MS + ":cross_val_score"
    stubs = {"check_fit_input": BU + ":check_fit_input", "n_1d_arrays": BU + ":n_1d_arrays", "select": MS + ":select", "score_estimator": BU + ":score_estimator"}
    inline = ("fit_score", "dispatch")

    def patch_modules(self, P):
        import verde.base.base_classes as bc
        import verde.utils as vu

        default_patches(P, bc)
        P.set(bc, "score_estimator", make_stub(REGISTRY[BU + ":score_estimator"], "cvs"))
        P.set(vu, "dask", _SymDask)

    def configs(self, tier):
        out = []
        for nsplits in (1, 2, 3):
            out.append({"nsplits": nsplits, "ncomp": 1, "weights": False, "scoring": None, "delayed": False, "rank": 1})
        out += [
            {"nsplits": 2, "ncomp": 2, "weights": True, "scoring": "neg_mean_squared_error", "delayed": False, "rank": 2},
            {"nsplits": 2, "ncomp": 1, "weights": True, "scoring": None, "delayed": True, "rank": 1},
            {"nsplits": 3, "ncomp": 2, "weights": False, "scoring": "r2", "delayed": True, "rank": 1},
        ]
        return out

    def setup(self, B, cfg):
        est = TokenGridder("cv", cfg["ncomp"])
        coords = _coords(B, cfg["rank"], 0, minsize=1)
        data = tuple(B.array("data%d" % k, coords[0].shape) for k in range(cfg["ncomp"]))
        w = tuple(B.array("w%d" % k, coords[0].shape) for k in range(cfg["ncomp"])) if cfg["weights"] else None
        if cfg["ncomp"] == 1:
            data, w = data[0], (w[0] if w else None)
        splits = _sym_splits(B, cfg["nsplits"], 3, 2, flat(coords[0]).shape[0])
        self._splits = splits
        return (est, coords, data), dict(weights=w, cv=ListCV(splits), delayed=cfg["delayed"], scoring=cfg["scoring"])

    def requires(self, a):
        return _split_bounds(a.cv.splits, flat(a.coordinates[0]).shape[0])

    def ensures(self, a, r):
        est = a.estimator
        din = _tup(a.data)
        win = _tup(a.weights) if a.weights is not None else tuple([None] * len(din))
        splits = a.cv.splits
        out = {"estimator_passed_in_is_left_untouched": not hasattr(est, "fit_args_") and not hasattr(est, "token_")}
        if a.delayed:
            ok = isinstance(r, list) and len(r) == len(splits) and all(isinstance(x, SymDelayed) for x in r)
            out["one_delayed_task_per_split"] = ok
            if not ok:
                return out
            # any task order: compute the tasks in REVERSE order; the tasks share no mutable object
            vals = [None] * len(r)
            for k in reversed(range(len(r))):
                vals[k] = r[k].compute()
            ests = [t.args[0] for t in r]
            out["every_task_gets_its_own_fresh_clone"] = len({id(e) for e in ests}) == len(ests) and all(e is not est for e in ests)
        else:
            ok = isinstance(r, SymArr) and r.ndim == 1 and r.shape[0] == len(splits)
            out["one_score_per_split"] = ok
            if not ok:
                return out
            vals = [r.at(k) for k in range(len(splits))]
        for k, (train, test) in enumerate(splits):
            out["split%d_score_is_the_metric_on_test_rows_of_a_clone_fitted_on_training_rows_only" % k] = vals[k] == _expected_fold_score(a.scoring, est.tag, est.ncomp, a.coordinates, din, win, train, test)
        return out


class SymShuffleSplit:
    """ShuffleSplit / BlockShuffleSplit(n_splits=1, ...).split(x): one (train, test) pair of index arrays."""

    last = None

    def __init__(self, n_splits=1, **kwargs):
        ctx().used_prelude.add("sklearn ShuffleSplit / verde BlockShuffleSplit: one split = a (train, test) pair of row-index arrays")
        self.n_splits, self.kwargs = n_splits, kwargs
        c = ctx()
        self.pair = (from_list([c.fresh("tts_train", "int") for _ in range(3)]), from_list([c.fresh("tts_test", "int") for _ in range(2)]))
        c.ghost.setdefault("shuffle_split", []).append(self)

    def split(self, X, y=None, groups=None):
        self.X = X
        n = as_array(X).shape[0]
        c = ctx()
        for arr in self.pair:
            for t in range(int(arr.shape[0])):
                c.assume(and_(arr.at(t) >= 0, arr.at(t) < n))
        return iter([self.pair])


@register
class TrainTestSplit(Contract):
    target = MS + ":train_test_split"
    stubs = {"check_fit_input": BU + ":check_fit_input", "n_1d_arrays": BU + ":n_1d_arrays", "select": MS + ":select"}
    prelude = (("ShuffleSplit", SymShuffleSplit), ("BlockShuffleSplit", SymShuffleSplit))

    def configs(self, tier):
        return [{"ncomp": 1, "weights": False, "blocked": False, "rank": 1}, {"ncomp": 2, "weights": True, "blocked": False, "rank": 2}, {"ncomp": 1, "weights": True, "blocked": True, "rank": 1}, {"ncomp": 3, "weights": False, "blocked": True, "rank": 1}]

    def setup(self, B, cfg):
        coords = _coords(B, cfg["rank"], 0, minsize=1)
        data = tuple(B.array("data%d" % k, coords[0].shape) for k in range(cfg["ncomp"]))
        w = tuple(B.array("w%d" % k, coords[0].shape) for k in range(cfg["ncomp"])) if cfg["weights"] else None
        if cfg["ncomp"] == 1:
            data, w = data[0], (w[0] if w else None)
        kw = dict(weights=w, random_state=B.int("seed"), test_size=0.25)
        if cfg["blocked"]:
            kw["spacing"] = B.real("spacing")
        return (coords, data), kw

    def ensures(self, a, r):
        c = ctx()
        din = _tup(a.data)
        win = _tup(a.weights) if a.weights is not None else tuple([None] * len(din))
        g = c.ghost.get("shuffle_split", [])
        out = {"exactly_one_split_drawn": len(g) == 1}
        if len(g) != 1:
            return out
        ss = g[0]
        blocked = a.spacing is not None or a.shape is not None
        want_kw = dict(a.kwargs)
        if blocked:
            want_kw.update(spacing=a.spacing, shape=a.shape)
        out["splitter_gets_the_callers_options_and_block_settings"] = ss.n_splits == 1 and set(ss.kwargs) == set(want_kw) and all(ss.kwargs[k] is want_kw[k] for k in want_kw)
        train_ix, test_ix = ss.pair
        ok = isinstance(r, tuple) and len(r) == 2 and all(isinstance(x, tuple) and len(x) == 3 for x in r)
        out["returns_train_and_test_triples"] = ok
        if not ok:
            return out
        for name, part, ix in (("train", r[0], train_ix), ("test", r[1], test_ix)):
            pc, pd_, pw = part
            for k, (src, got) in enumerate(zip(a.coordinates, pc)):
                out["%s_coordinate%d_rows" % (name, k)] = Forall(ix.shape, lambda t, src=src, got=got, ix=ix: got.at(t) == flat(src).at(ix.at(t)))
            for k, (src, got) in enumerate(zip(din, pd_)):
                out["%s_data%d_rows_aligned_with_the_coordinates" % (name, k)] = Forall(ix.shape, lambda t, src=src, got=got, ix=ix: got.at(t) == flat(src).at(ix.at(t)))
            if a.weights is None:
                out["%s_weights_stay_none" % name] = all(x is None for x in pw)
            else:
                for k, (src, got) in enumerate(zip(win, pw)):
                    out["%s_weight%d_rows_aligned_with_the_data" % (name, k)] = Forall(ix.shape, lambda t, src=src, got=got, ix=ix: got.at(t) == flat(src).at(ix.at(t)))
        return out


# ------------------------------------------------------------------ SplineCV


def _argmax_branching(values):
    """np.argmax over a short python list of V: first maximum, decided by branching (concrete index per path)."""
    vals = list(values)
    best = 0
    for i in range(1, len(vals)):
        if vals[i] > vals[best]:
            best = i
    return best


@register
class SplineCVFit(Contract):
    target = "verde.spline:SplineCV.fit"
    frame_attrs = {"spline_", "scores_"}
    stubs = {"Spline.fit": "contracts.scoring_c12:spline_fit_recorder"}

    def patch_modules(self, P):
        import verde.spline as sp

        def fake_cvs(estimator, coordinates, data, weights=None, cv=None, client=None, delayed=False, scoring=None):
            c = ctx()
            s = havoc_array("cvscores", (5,), "f")
            c.ghost.setdefault("cvs.calls", []).append((estimator, coordinates, data, weights, cv, delayed, scoring, s))
            return s

        P.set(sp, "cross_val_score", fake_cvs)
        from pyvc.prelude_np import NP

        class NPx(type(NP)):
            def argmax(self, x):
                return _argmax_branching(x)

            def argmin(self, x):
                return _argmax_branching([-v for v in x])

        P.set(sp, "np", NPx())

    def configs(self, tier):
        return [{"nm": 1, "nd": 2, "weights": False}, {"nm": 1, "nd": 3, "weights": True}, {"nm": 2, "nd": 2, "weights": False}]

    def setup(self, B, cfg):
        est = verde.SplineCV.__new__(verde.SplineCV)
        est.mindists = [B.real("mindist%d" % k) for k in range(cfg["nm"])]
        est.dampings = tuple(B.real("damping%d" % k) for k in range(cfg["nd"]))
        est.force_coords, est.engine, est.cv, est.client, est.delayed, est.scoring = None, "auto", ListCV([]), None, False, "r2"
        coords = _coords(B, 1, 0, minsize=1)
        return (est, coords, B.array("data", coords[0].shape)), dict(weights=B.array("w", coords[0].shape) if cfg["weights"] else None)

    def ensures(self, a, r):
        c = ctx()
        est = a.self
        combos = list(itertools.product(est.mindists, est.dampings))
        calls = c.ghost.get("cvs.calls", [])
        out = {"returns_self": r is est, "one_cross_validation_per_candidate_in_product_order": len(calls) == len(combos)}
        if len(calls) != len(combos):
            return out
        means = []
        for (md, dp), call in zip(combos, calls):
            sp, coords, data, weights, cv, delayed, scoring, s = call
            ok = isinstance(sp, verde.Spline) and sp.mindist is md and sp.damping is dp and sp.engine == est.engine and sp.force_coords is est.force_coords
            ok = ok and coords is a.coordinates and data is a.data and weights is a.weights and cv is est.cv and scoring is est.scoring
            out["candidate_mindist_damping_scored_on_all_the_data_with_the_given_cv_and_scoring[%d]" % len(means)] = ok
            means.append(v_mean([s.at(t) for t in range(5)]))
        best = est.spline_
        okb = isinstance(best, verde.Spline)
        out["spline__is_a_spline"] = okb
        if not okb:
            return out
        idx = [i for i, (md, dp) in enumerate(combos) if best.mindist is md and best.damping is dp]
        out["spline__has_the_parameters_of_one_candidate"] = len(idx) >= 1 and best.engine == est.engine and best.force_coords is est.force_coords
        if not idx:
            return out
        b = idx[0]
        out["selected_candidate_has_the_highest_mean_cross_validated_score"] = and_(*[means[b] >= m for m in means])
        fits = c.ghost.get("contracts.scoring_c12:spline_fit_recorder", [])
        out["refitted_once_on_all_the_data_with_the_weights"] = len(fits) == 1 and fits[0][0].self is best and fits[0][0].coordinates is a.coordinates and fits[0][0].data is a.data and fits[0][0].weights is a.weights
        out["scores__holds_the_mean_scores_in_candidate_order"] = isinstance(est.scores_, SymArr) and All(est.scores_.shape[0] == len(combos), *[est.scores_.at(i) == means[i] for i in range(len(combos))])
        return out


def spline_fit_recorder(self, coordinates, data, weights=None):
    raise NotImplementedError


@register
class SplineFitRecorder(Contract):
    """Stand-in contract used to RECORD the refit of SplineCV (Spline.fit itself is verified under C02)."""

    target = "contracts.scoring_c12:spline_fit_recorder"

    def havoc(self, a):
        a.self.force_ = havoc_array("refit_force", (1,), "f")
        return a.self

    def ensures(self, a, r):
        return {}

    def configs(self, tier):
        return []

    cover_return = False


@register
class SplineCVPredict(Contract):
    target = "verde.spline:SplineCV.predict"
    frame_attrs = set()
    cover_raise = True

    def configs(self, tier):
        return [{"fitted": True}, {"fitted": False}]

    def setup(self, B, cfg):
        est = verde.SplineCV.__new__(verde.SplineCV)
        if cfg["fitted"]:
            est.spline_ = TokenGridder("best", 1)
            est.spline_.token_ = "refit"
        return (est, _coords(B, 1, 0, names=("q_easting", "q_northing"), minsize=0)), {}

    def raises(self, a):
        from sklearn.exceptions import NotFittedError

        return [(NotFittedError, not hasattr(a.self, "spline_"))]

    def ensures(self, a, r):
        E, N = a.coordinates[0], a.coordinates[1]
        return {"predicts_exactly_like_the_selected_refitted_spline": isinstance(r, SymArr) and Forall(E.shape, lambda *ix: r.at(*ix) == spec_prediction("best", 0, "refit", E.at(*ix), N.at(*ix)))}


# ------------------------------------------------------------------ bounded: against independently fitted models


def _reference_cv(seed):
    """KFold for even seeds; for odd seeds a splitter whose TRAINING set is NOT the complement of its test set."""
    from sklearn.model_selection import KFold, ShuffleSplit

    if seed % 2 == 0:
        return KFold(n_splits=3, shuffle=True, random_state=seed)
    return ShuffleSplit(n_splits=3, train_size=0.45, test_size=0.3, random_state=seed)


def _fitted_anywhere(est, seen=None):
    """Names of fitted attributes (trailing underscore) on an estimator or on any estimator nested in its parameters
    (Chain.steps, Vector.components ...): a copy that shares those with the original leaves the ORIGINAL's parts fitted."""
    seen = set() if seen is None else seen
    if id(est) in seen:
        return []
    seen.add(id(est))
    found = []
    if hasattr(est, "get_params") and hasattr(est, "__dict__"):
        found += ["%s.%s" % (type(est).__name__, k) for k in vars(est) if k.endswith("_") and not k.startswith("_")]
        for v in vars(est).values():
            found += _fitted_anywhere(v, seen)
    elif isinstance(est, (list, tuple)):
        for v in est:
            found += _fitted_anywhere(v, seen)
    return found


def cross_val_reference(kind, coordinates, data, weights, scoring, delayed, seed):
    """Client of the real cross_val_score / train_test_split / SplineCV on real estimators."""
    import warnings

    from sklearn.model_selection import KFold

    est = {"trend": verde.Trend(1), "vector": verde.Vector([verde.Trend(1), verde.Trend(0)]), "knn": verde.KNeighbors(k=2)}[kind]
    before = dict(vars(est))
    cv = _reference_cv(seed)
    with warnings.catch_warnings():
        warnings.simplefilter("ignore")
        scores = verde.cross_val_score(est, coordinates, data, weights=weights, cv=cv, scoring=scoring, delayed=delayed)
        if delayed:
            scores = np.array([s.compute() for s in reversed(scores)][::-1])
    untouched = set(vars(est)) == set(before) and not _fitted_anywhere(est)
    return scores, untouched


@register
class CrossValReference(Contract):
    target = "contracts.scoring_c12:cross_val_reference"
    cover_return = False

    def configs(self, tier):
        return []

    def samples(self, rng, nrng, tier):
        for it in range(12 if tier == "thorough" else 6):
            n = rng.randint(12, 25)
            e, nn = nrng.uniform(-2, 2, n), nrng.uniform(-2, 2, n)
            kind = ["vector", "trend", "knn"][it % 3]  # (every kind in every run; "vector" nests other estimators)
            d = (e + 2 * nn + nrng.normal(0, 0.3, n), e * nn + nrng.normal(0, 0.3, n)) if kind == "vector" else e - nn + nrng.normal(0, 0.3, n)
            w = None
            if rng.random() < 0.5:
                w = (nrng.uniform(0.5, 2, n), nrng.uniform(0.5, 2, n)) if kind == "vector" else nrng.uniform(0.5, 2, n)
            yield (kind, (e, nn), d, w, rng.choice([None, "r2", "neg_mean_squared_error"]), rng.random() < 0.5, rng.randint(0, 99)), {}

    def ensures(self, a, r):
        import warnings

        from sklearn.metrics import mean_squared_error, r2_score
        from sklearn.model_selection import KFold

        scores, untouched = r
        scores = unwrap(scores)
        coords = tuple(unwrap(x) for x in a.coordinates)
        data = tuple(unwrap(x) for x in _tup(a.data))
        weights = tuple(unwrap(x) for x in _tup(a.weights)) if a.weights is not None else tuple([None] * len(data))
        fn = {None: r2_score, "r2": r2_score, "neg_mean_squared_error": lambda y, p, sample_weight=None: -mean_squared_error(y, p, sample_weight=sample_weight)}[a.scoring]
        want = []
        for train, test in _reference_cv(a.seed).split(np.transpose(coords)):
            with warnings.catch_warnings():
                warnings.simplefilter("ignore")
                comps = []
                for k, d in enumerate(data):
                    if a.kind == "knn":
                        m = verde.KNeighbors(k=2)
                    else:
                        m = verde.Trend(1 if (a.kind == "trend" or k == 0) else 0)
                    m.fit(tuple(c[train] for c in coords), d[train], None if weights[k] is None or a.kind == "knn" else weights[k][train])
                    comps.append(fn(d[test], m.predict(tuple(c[test] for c in coords)), sample_weight=None if weights[k] is None else weights[k][test]))
                want.append(np.mean(comps))
        return {
            "scores_equal_metrics_of_independently_fitted_models_on_train_rows_scored_on_test_rows": bool(np.allclose(scores, want, rtol=1e-8, atol=1e-10)),
            "estimator_passed_in_left_untouched": bool(untouched),
        }


def splinecv_reference(scale, scoring, seed, delayed):
    """Client of the real SplineCV: data of a given magnitude, a damping grid whose best member is not the first one."""
    import warnings

    from sklearn.model_selection import KFold

    rng = np.random.RandomState(seed)
    n = 40
    e, nn = rng.uniform(0, 10, n), rng.uniform(0, 10, n)
    d = scale * (np.sin(e / 2.0) + 0.5 * np.cos(nn / 3.0) + 0.25 * rng.normal(size=n))
    dampings = (1e1, 1e-2, 1e-9)  # the best candidate is NOT the first one
    cv = KFold(n_splits=3, shuffle=True, random_state=seed)
    with warnings.catch_warnings():
        warnings.simplefilter("ignore")
        est = verde.SplineCV(dampings=dampings, mindists=(0,), cv=cv, scoring=scoring, delayed=delayed).fit((e, nn), d)
        pred = est.predict((e + 0.3, nn - 0.2))
    scores = [float(x.compute()) if hasattr(x, "compute") else float(x) for x in list(est.scores_)]  # delayed: still lazy
    return (e, nn, d, dampings), est.damping_, np.asarray(scores, dtype=float), pred


@register
class SplineCVReference(Contract):
    """Run-time contract (BOUNDED): SplineCV picks the candidate with the highest mean cross-validated score - for ANY
    magnitude of the scores (error-type scorers on small data give scores ~ 1e-9) - and then predicts like that Spline."""

    target = "contracts.scoring_c12:splinecv_reference"
    cover_return = False

    def configs(self, tier):
        return []

    def samples(self, rng, nrng, tier):
        for scale in (1.0, 1e-4, 1e4):
            for scoring in (None, "neg_mean_squared_error"):
                yield (scale, scoring, rng.randint(0, 99), rng.random() < 0.5), {}

    def ensures(self, a, r):
        import warnings

        from sklearn.metrics import mean_squared_error, r2_score
        from sklearn.model_selection import KFold

        (e, nn, d, dampings), chosen, scores, pred = r
        e, nn, d = unwrap(e), unwrap(nn), unwrap(d)
        fn = r2_score if a.scoring is None else (lambda y, p: -mean_squared_error(y, p))
        means = []
        with warnings.catch_warnings():
            warnings.simplefilter("ignore")
            for damping in dampings:
                fold = []
                for tr, te in KFold(n_splits=3, shuffle=True, random_state=a.seed).split(np.transpose((e, nn))):
                    m = verde.Spline(damping=damping, mindist=0).fit((e[tr], nn[tr]), d[tr])
                    fold.append(fn(d[te], m.predict((e[te], nn[te]))))
                means.append(float(np.mean(fold)))
            best = int(np.argmax(means))
            ref = verde.Spline(damping=dampings[best], mindist=0).fit((e, nn), d).predict((e + 0.3, nn - 0.2))
        order = sorted(means, reverse=True)
        clear = len(order) < 2 or (order[0] - order[1]) > 1e-6 * max(abs(order[0]), abs(order[1]))
        out = {"scores_are_the_mean_cross_validated_scores_of_independently_fitted_splines": bool(np.allclose(np.ravel(unwrap(scores)), means, rtol=1e-6, atol=0))}
        if clear:
            out["selects_the_candidate_with_the_highest_mean_score"] = float(chosen) == float(dampings[best])
            out["predicts_like_a_spline_with_the_selected_parameters_fitted_to_all_the_data"] = bool(np.allclose(unwrap(pred), ref, rtol=1e-6, atol=1e-9 * float(np.abs(d).max())))
        return out
