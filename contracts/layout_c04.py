"""Contracts for property C04: layout / order / dtype independence and linearity.

Deductive: (a) integer-dtype inputs (dtype kinds are tracked; numpy's same_kind rule for in-place
ops and truncation on item assignment are modelled) must give what float inputs give - the
contracts of C03/C02 re-run with kind 'i' arrays; (b) reshape invariance as lemmas over the
contracts. Permutation invariance, strided / Fortran / pandas containers and linearity in the
data are floating-point / solver statements: bounded pairs of real executions."""
import warnings

import numpy as np

from pyvc.arr import SymArr, as_array, flat_index, havoc_array, new_array
from pyvc.concrete import unwrap, wrap
from pyvc.contract import REGISTRY, Args, Contract, register
from pyvc.core import and_, ctx, implies, is_sym, not_, or_
from pyvc.spec import All, Forall, close

from .blocks_c08 import BU, flat
from .coordinates_c13 import _coords, _rand_coords
from .lsq_c02 import SplineFit, TrendFit, VectorSplineFit
from .models_c03 import TrendJacobian, TrendPredict, _trend
from .spline_c03 import SplineJacobian, SplinePredict, _spline
from .vector_c03 import VectorSplinePredict, _vspline

import verde


@register
class SplinePredictInt(SplinePredict):
    key = "C04:int:verde.spline:Spline.predict"

    def configs(self, tier):
        return [{"rank": 1, "kind": "i"}, {"rank": 2, "kind": "i"}]

    def setup(self, B, cfg):
        est = _spline(B, True)
        return (est, _coords(B, cfg["rank"], 0, names=("q_easting", "q_northing"), minsize=0, kind="i")), {}

    samples = None
    cover_raise = False


@register
class VectorSplinePredictInt(VectorSplinePredict):
    key = "C04:int:verde.vector:VectorSpline2D.predict"

    def configs(self, tier):
        return [{"rank": 1, "kind": "i"}]

    def setup(self, B, cfg):
        est = _vspline(B, True)
        return (est, _coords(B, cfg["rank"], 0, names=("q_easting", "q_northing"), minsize=0, kind="i")), {}

    samples = None
    cover_raise = False


@register
class TrendPredictInt(TrendPredict):
    key = "C04:int:verde.trend:Trend.predict"

    def configs(self, tier):
        return [{"degree": d, "rank": 1} for d in (0, 1, 2)] + [{"degree": 1, "rank": 2}]

    def setup(self, B, cfg):
        est = _trend(B, cfg["degree"], True)
        return (est, _coords(B, cfg["rank"], 0, names=("q_easting", "q_northing"), minsize=0, kind="i")), {}

    samples = None
    cover_raise = False


@register
class TrendJacobianInt(TrendJacobian):
    key = "C04:int:verde.trend:Trend.jacobian"

    def configs(self, tier):
        return [{"degree": d, "rank": 1} for d in (0, 1, 2)]

    def setup(self, B, cfg):
        est = _trend(B, cfg["degree"], fitted=False)
        return (est, _coords(B, cfg["rank"], 0, minsize=0, kind="i")), {}

    samples = None
    cover_raise = False


@register
class TrendFitIntData(TrendFit):
    """Integer-dtype DATA on float coordinates: the design matrix must still hold the real monomials."""

    key = "C04:int:verde.trend:Trend.fit"

    def configs(self, tier):
        out = [{"degree": 1, "ckind": "f", "dkind": "i"}, {"degree": 2, "ckind": "i", "dkind": "i"}, {"degree": 1, "ckind": "i", "dkind": "f"}]
        # MIXED dtypes: one coordinate integer, the other float (with integer or float data)
        out += [{"degree": 1, "ckind": "if", "dkind": "i"}, {"degree": 2, "ckind": "fi", "dkind": "i"}, {"degree": 1, "ckind": "if", "dkind": "f"}]
        return out

    def setup(self, B, cfg):
        est = verde.Trend.__new__(verde.Trend)
        est.degree = cfg["degree"]
        if len(cfg["ckind"]) == 2:
            n = B.dim("npts", 1)
            coords = (B.array("easting", (n,), cfg["ckind"][0]), B.array("northing", (n,), cfg["ckind"][1]))
        else:
            coords = _coords(B, 1, 0, minsize=1, kind=cfg["ckind"])
        return (est, coords, B.array("data", coords[0].shape, cfg["dkind"])), dict(weights=None)

    samples = None
    cover_raise = False


@register
class SplineFitIntCoords(SplineFit):
    key = "C04:int:verde.spline:Spline.fit"

    def configs(self, tier):
        return [{"rank": 1, "weights": False, "damping": False, "force_coords": False, "kind": "i"}]

    def setup(self, B, cfg):
        est = verde.Spline.__new__(verde.Spline)
        est.mindist, est.engine, est.damping, est.force_coords = B.real("mindist"), "auto", None, None
        coords = _coords(B, 1, 0, minsize=1, kind="i")
        return (est, coords, B.array("data", coords[0].shape, "i")), dict(weights=None)

    samples = None
    cover_raise = False


@register
class VectorSplineFitIntData(VectorSplineFit):
    key = "C04:int:verde.vector:VectorSpline2D.fit"

    def configs(self, tier):
        return [c for c in VectorSplineFit.configs(self, tier) if "dkinds" in c]

    samples = None
    cover_raise = False


# ------------------------------------------------------------------ reshape invariance (lemmas over the contracts)


def lemma_reshape_trend(est, coordinates):
    flat_coords = tuple(np.ravel(c) for c in coordinates)  # noqa: F821  (np is the prelude here)
    return (jacobian(est, coordinates), jacobian(est, flat_coords), predict(est, coordinates), predict(est, flat_coords))  # noqa: F821 (stubs)


@register
class LemmaReshapeTrend(Contract):
    target = "contracts.layout_c04:lemma_reshape_trend"
    stubs = {"jacobian": "verde.trend:Trend.jacobian", "predict": "verde.trend:Trend.predict"}
    native_replay = False

    def patch_modules(self, P):
        import contracts.layout_c04 as me
        from pyvc.prelude_np import NP

        P.set(me, "np", NP)

    def configs(self, tier):
        return [{"degree": 2, "extra": 0}, {"degree": 1, "extra": 1}]

    def setup(self, B, cfg):
        return (_trend(B, cfg["degree"], True), _coords(B, 2, cfg["extra"], minsize=0)), {}

    def ensures(self, a, r):
        j2, j1, p2, p1 = r
        shape = a.coordinates[0].shape
        return {
            "jacobian_depends_only_on_the_c_order_sequence": All(and_(j2.shape[0] == j1.shape[0], j2.shape[1] == j1.shape[1]), Forall(j2.shape, lambda p, c: j2.at(p, c) == j1.at(p, c))),
            "prediction_has_the_query_shape_and_the_same_values_as_the_raveled_query": All(
                p2.ndim == 2 and and_(p2.shape[0] == shape[0], p2.shape[1] == shape[1]), Forall(shape, lambda i, j: p2.at(i, j) == p1.at(flat_index((i, j), shape)))
            ),
        }


def lemma_reshape_spline(est, coordinates, force_coords):
    flat_coords = tuple(np.ravel(c) for c in coordinates)  # noqa: F821
    return (sjacobian(est, coordinates, force_coords), sjacobian(est, flat_coords, force_coords))  # noqa: F821 (stubs)


@register
class LemmaReshapeSpline(Contract):
    target = "contracts.layout_c04:lemma_reshape_spline"
    stubs = {"sjacobian": "verde.spline:Spline.jacobian"}
    native_replay = False

    def patch_modules(self, P):
        import contracts.layout_c04 as me
        from pyvc.prelude_np import NP

        P.set(me, "np", NP)

    def setup(self, B, cfg):
        nf = B.dim("nf", 0)
        return (_spline(B, False), _coords(B, 2, 0, minsize=0), (B.array("fe", (nf,)), B.array("fn", (nf,)))), {}

    def requires(self, a):
        return a.est.mindist >= 0

    def ensures(self, a, r):
        j2, j1 = r
        return {"jacobian_depends_only_on_the_c_order_sequence": All(and_(j2.shape[0] == j1.shape[0], j2.shape[1] == j1.shape[1]), Forall(j2.shape, lambda p, t: j2.at(p, t) == j1.at(p, t)))}


# ------------------------------------------------------------------ bounded: pairs of real executions


def _gridders(rng):
    return {
        "spline": lambda: verde.Spline(),
        "spline_damped": lambda: verde.Spline(damping=1e-3),
        "trend": lambda: verde.Trend(2),
        "knn_mean": lambda: verde.KNeighbors(k=3),
        "knn1": lambda: verde.KNeighbors(k=1),
        "knn_k5_median": lambda: verde.KNeighbors(k=5, reduction=np.median),
        "linear": lambda: verde.Linear(),
        "cubic": lambda: verde.Cubic(),
        "vector": lambda: verde.VectorSpline2D(mindist=0.5),
    }


def fit_predict(name, coordinates, data, query, weights=None):
    est = _gridders(None)[name]()
    with warnings.catch_warnings():
        warnings.simplefilter("ignore")
        est.fit(coordinates, data, weights)
        return est.predict(query)


def layout_pair(name, variant, seed):
    """Return (reference prediction, variant prediction, expected shape of the variant) for one equivalent pair."""
    import pandas as pd

    rng = np.random.RandomState(seed)
    n = 12
    # integer lattice points in general position (no ties for the neighbour gridders), integer-valued data
    pts = rng.permutation(40 * 40)[:n]
    e, nn = (pts // 40).astype(float) + 0.0, (pts % 40).astype(float)
    jit = rng.uniform(-0.2, 0.2, (2, n)) if variant not in ("int_dtype", "partial_int_dtype") else np.zeros((2, n))
    e, nn = e + jit[0], nn + jit[1]
    d = np.round(rng.uniform(-9, 9, n))
    d2 = np.round(rng.uniform(-9, 9, n))
    data = (d, d2) if name == "vector" else d
    q = (rng.uniform(5, 35, (2, 3)), rng.uniform(5, 35, (2, 3)))
    ref = fit_predict(name, (e, nn), data, q)
    f = lambda x: x
    qv = q
    if variant == "permuted":
        perm = rng.permutation(n)
        f = lambda x: x[perm]
    elif variant == "reshaped_2d":
        f = lambda x: x.reshape(3, 4)
    elif variant == "few_rows_2d":
        rows = [1, 2, 12, 6][seed % 4]  # row vector, two rows, column vector, ...: fewer rows than neighbours asked for
        f = lambda x: x.reshape(rows, -1)
    elif variant == "fortran":
        f = lambda x: np.asfortranarray(x.reshape(3, 4))
        ref = fit_predict(name, (e.reshape(3, 4), nn.reshape(3, 4)), tuple(x.reshape(3, 4) for x in data) if isinstance(data, tuple) else data.reshape(3, 4), q)
    elif variant == "strided":
        f = lambda x: np.repeat(x, 2)[::2]
    elif variant == "series":
        f = lambda x: pd.Series(x)
    elif variant == "extra_coord":
        out = fit_predict(name, (e, nn, np.zeros(n) + 7.0), data, (q[0], q[1], np.ones((2, 3))))
        return ref, out, q[0].shape
    elif variant == "int_dtype":
        f = lambda x: x.astype(np.int64)
        qv = (np.round(q[0]), np.round(q[1]))
        ref = fit_predict(name, (e, nn), data, qv)
        out = fit_predict(name, (e.astype(np.int64), nn.astype(np.int64)), tuple(x.astype(np.int64) for x in data) if isinstance(data, tuple) else data.astype(np.int64), (qv[0].astype(np.int64), qv[1].astype(np.int64)))
        return ref, out, q[0].shape
    elif variant == "partial_int_dtype":
        # only SOME of the arrays carry an integer dtype (each one independently); the others hold fractional values
        comps = list(data) if isinstance(data, tuple) else [data]
        arrs = [e, nn] + comps + [np.round(q[0]), np.round(q[1])]
        cast = [rng.random() < 0.5 for _ in arrs]
        if all(cast) or not any(cast):
            cast[rng.randint(0, len(arrs))] ^= True
        arrs = [x if c else x + rng.uniform(0.05, 0.45, x.shape) for x, c in zip(arrs, cast)]
        as_f = lambda xs: (tuple(xs[:2]), (tuple(xs[2:-2]) if isinstance(data, tuple) else xs[2]), tuple(xs[-2:]))  # noqa: E731
        ref = fit_predict(name, *as_f(arrs))
        out = fit_predict(name, *as_f([x.astype(rng.choice(["int64", "int32"])) if c else x for x, c in zip(arrs, cast)]))
        return ref, out, q[0].shape
    elif variant == "query_1d":
        qv = (q[0].ravel(), q[1].ravel())
        out = fit_predict(name, (e, nn), data, qv)
        return tuple(r.ravel() for r in ref) if isinstance(ref, tuple) else ref.ravel(), out, (6,)
    elif variant == "linearity":
        a_, b_ = 2.5, -1.5
        da, db = rng.uniform(-5, 5, n), rng.uniform(-5, 5, n)
        if name == "vector":
            pa = fit_predict(name, (e, nn), (da, db), q)
            pb = fit_predict(name, (e, nn), (db, da), q)
            pc = fit_predict(name, (e, nn), (a_ * da + b_ * db, a_ * db + b_ * da), q)
            return tuple(a_ * x + b_ * y for x, y in zip(pa, pb)), pc, q[0].shape
        pa, pb = fit_predict(name, (e, nn), da, q), fit_predict(name, (e, nn), db, q)
        pc = fit_predict(name, (e, nn), a_ * da + b_ * db, q)
        return a_ * pa + b_ * pb, pc, q[0].shape
    dv = tuple(f(x) for x in data) if isinstance(data, tuple) else f(data)
    out = fit_predict(name, (f(e), f(nn)), dv, qv)
    return ref, out, q[0].shape


LINEAR = {"spline", "spline_damped", "trend", "knn_mean", "linear", "vector"}


@register
class LayoutPair(Contract):
    """Run-time contract (BOUNDED): predictions unchanged under equivalent layouts / orders / dtypes; linearity."""

    target = "contracts.layout_c04:layout_pair"
    cover_return = False

    def configs(self, tier):
        return []

    def samples(self, rng, nrng, tier):
        variants = ["permuted", "reshaped_2d", "few_rows_2d", "fortran", "strided", "series", "extra_coord", "int_dtype", "partial_int_dtype", "partial_int_dtype", "query_1d", "linearity"]
        for name in _gridders(None):
            for variant in variants:
                if variant == "linearity" and name not in LINEAR:
                    continue
                for rep in range(2 if tier == "thorough" else 1):
                    yield (name, variant, rng.randint(0, 10**6)), {}

    def ensures(self, a, r):
        ref, out, shape = r
        refs = ref if isinstance(ref, tuple) else (ref,)
        outs = out if isinstance(out, tuple) else (out,)
        res = {"same_number_of_components": len(refs) == len(outs)}
        ok_shape, ok_val = True, True
        for x, y in zip(refs, outs):
            x, y = np.asarray(unwrap(x), dtype=float), np.asarray(unwrap(y), dtype=float)
            if y.shape != tuple(shape):
                ok_shape = False
            scale = float(np.nanmax(np.abs(x))) + 1.0 if np.isfinite(x).any() else 1.0
            if not np.allclose(x.ravel(), y.ravel(), rtol=0, atol=1e-6 * scale, equal_nan=True):
                ok_val = False
        res["prediction_has_the_broadcast_shape_of_the_query"] = ok_shape
        res["prediction_unchanged_up_to_solver_round_off"] = ok_val
        return res
