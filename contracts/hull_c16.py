"""Contracts for property C16: convexhull_mask (deductive glue) and project_grid (bounded)."""
import warnings
from fractions import Fraction

import numpy as np

from pyvc.arr import SymArr, as_array, flat_index, havoc_array, new_array
from pyvc.concrete import unwrap, wrap
from pyvc.contract import Contract, register
from pyvc.core import and_, ctx, div, iff, implies, is_sym, not_, opaque_of_arrays, or_
from pyvc.prelude_np import NP
from pyvc.prelude_scipy import SymDelaunay
from pyvc.prelude_xr import SymDataset
from pyvc.spec import All, Forall, Imp

from .blocks_c08 import BU, flat
from .coordinates_c13 import SymProjection, _concrete_projection, _coords, _rand_coords
from .neighbors_c15 import _grid_axes, _sym_grid

import verde
from pyvc import known

MK = "verde.mask"


def _proj_arrays(proj, e, n):
    if proj is None:
        return e, n
    return proj(e, n)


@register
class ConvexHullMask(Contract):
    target = MK + ":convexhull_mask"
    stubs = {"_get_grid_coordinates": MK + ":_get_grid_coordinates", "n_1d_arrays": BU + ":n_1d_arrays"}
    prelude = (("Delaunay", SymDelaunay),)

    def configs(self, tier):
        return [
            {"form": "coords", "rank": 1, "drank": 1, "proj": False},
            {"form": "coords", "rank": 2, "drank": 1, "proj": False},
            {"form": "coords", "rank": 1, "drank": 2, "proj": True},
            {"form": "grid", "drank": 1, "proj": False},
            {"form": "grid", "drank": 1, "proj": True},
        ]

    def setup(self, B, cfg):
        data = _coords(B, cfg["drank"], 0, names=("d_easting", "d_northing"), minsize=3)
        kw = dict(projection=SymProjection() if cfg["proj"] else None)
        if cfg["form"] == "coords":
            kw["coordinates"] = _coords(B, cfg["rank"], 0, names=("q_easting", "q_northing"), minsize=0)
        else:
            kw["grid"] = _sym_grid(B)
        return (data,), kw

    def _normalised(self, a):
        """The spec: data mean/std taken from the (projected) DATA, applied identically to data and query."""
        de, dn = flat(a.data_coordinates[0]).copy(), flat(a.data_coordinates[1]).copy()
        de, dn = _proj_arrays(a.projection, de, dn)
        me, mn, se, sn = de.mean(), dn.mean(), de.std(), dn.std()
        nd_e, nd_n = (de - me) / se, (dn - mn) / sn
        pts = NP.transpose((nd_e, nd_n))
        return pts, (me, se, mn, sn)

    def requires(self, a):
        # non-degenerate data: both coordinate spreads are non-zero
        de, dn = flat(a.data_coordinates[0]).copy(), flat(a.data_coordinates[1]).copy()
        de, dn = _proj_arrays(a.projection, de, dn)
        return and_(de.std() > 0, dn.std() > 0)

    def samples(self, rng, nrng, tier):
        import xarray as xr

        for _ in range(16 if tier == "thorough" else 6):
            scale, off = rng.choice([1.0, 1e-3, 1e4, 1e7]), rng.choice([0.0, 1e3, -1e6])
            n = rng.randint(4, 12)
            pts = set()
            while len(pts) < n:
                pts.add((rng.randint(0, 12), rng.randint(0, 12)))
            pts = np.array(sorted(pts))
            if len(set(pts[:, 0])) < 2 or len(set(pts[:, 1])) < 2:
                continue
            data = (off + scale * pts[:, 0].astype(float), off + scale * pts[:, 1].astype(float))
            self_lattice = (pts, scale, off)
            if rng.random() < 0.6:
                q = np.array([[rng.randint(-2, 14) + 0.5 * rng.randint(0, 1), rng.randint(-2, 14) + 0.5 * rng.randint(0, 1)] for _ in range(10)])
                yield (data,), dict(coordinates=(off + scale * q[:, 0], off + scale * q[:, 1]))
            else:
                east, north = off + scale * np.arange(-1, 14, 2.5), off + scale * np.arange(-1, 14, 3.5)
                grid = xr.Dataset({"scalars": (("northing", "easting"), nrng.uniform(1, 2, (north.size, east.size)))}, coords={"easting": east, "northing": north})
                yield (data,), dict(grid=grid)

    def ensures(self, a, r):
        c = ctx()
        out = {}
        if c.concrete:
            return self._ensures_concrete(a, r)
        tris = c.ghost.get("delaunay", [])
        out["one_triangulation"] = len(tris) == 1
        if len(tris) != 1:
            return out
        tri = tris[0]
        pts, (me, se, mn, sn) = self._normalised(a)
        from pyvc.core import array_text

        out["triangulation_of_the_data_points_normalised_by_their_own_mean_and_std"] = array_text(tri.points) == array_text(pts)
        if a.grid is None:
            qE, qN = a.coordinates[0], a.coordinates[1]
            ok = isinstance(r, SymArr) and r.kind == "b" and r.ndim == qE.ndim
            out["boolean_mask_of_the_query_rank"] = ok
            if not ok:
                return out
            out["mask_has_the_query_shape"] = and_(*[x == y for x, y in zip(r.shape, qE.shape)])

            def inside(*ix):
                x, y = qE.at(*ix), qN.at(*ix)
                if a.projection is not None:
                    x, y = a.projection.point(x, y)
                return iff(r.at(*ix), tri.in_hull(div(x - me, se), div(y - mn, sn)))

            out["true_exactly_inside_the_hull_with_the_query_normalised_by_the_DATA_mean_and_std"] = Forall(qE.shape, inside)
            return out
        e1, n1 = _grid_axes(a.grid)
        names = list(a.grid.data_vars.keys())
        ok = isinstance(r, SymDataset) and list(r.data_vars.keys()) == names
        out["returns_a_grid_with_the_same_variables"] = ok
        if not ok:
            return out
        for v in names:
            vals, src = r[v].values, a.grid[v].values

            def cell(i, j, vals=vals, src=src):
                x, y = e1.at(j), n1.at(i)
                if a.projection is not None:
                    x, y = a.projection.point(x, y)
                ins = tri.in_hull(div(x - me, se), div(y - mn, sn))
                return and_(iff(not_(vals.nan_at(i, j)), ins), implies(ins, vals.at(i, j) == src.at(i, j)))

            out["%s.blanked_exactly_outside_the_hull_orientation_northing_rows_easting_columns" % v] = Forall((n1.shape[0], e1.shape[0]), cell)
        return out

    def _ensures_concrete(self, a, r):
        """Exact rational hull test on the (integer-lattice) data; boundary points may go either way."""
        de, dn = unwrap(flat(a.data_coordinates[0])), unwrap(flat(a.data_coordinates[1]))
        P = [(Fraction(float(x)), Fraction(float(y))) for x, y in zip(de, dn)]
        hull = _convex_hull(P)
        if a.grid is None:
            qe, qn = unwrap(a.coordinates[0]), unwrap(a.coordinates[1])
            got = unwrap(r)
            shape_ok = got.shape == qe.shape
            qs = list(zip(qe.ravel(), qn.ravel()))
            gv = got.ravel()
        else:
            east, north = np.asarray(a.grid.coords["easting"].values, dtype=float), np.asarray(a.grid.coords["northing"].values, dtype=float)
            E, N = np.meshgrid(east, north)
            vals = np.asarray(r["scalars"].values, dtype=float)
            shape_ok = vals.shape == E.shape
            qs = list(zip(E.ravel(), N.ravel()))
            gv = ~np.isnan(vals.ravel())
        good = True
        for (x, y), g in zip(qs, gv):
            side = _point_in_hull(hull, (Fraction(float(x)), Fraction(float(y))))
            if side == 0:
                continue  # on the boundary: either answer is fine
            if bool(g) != (side > 0):
                good = False
        return {"mask_has_the_query_shape": shape_ok, "true_exactly_for_points_strictly_inside_false_strictly_outside_exact_rational_test": good}


def _convex_hull(points):
    pts = sorted(set(points))
    if len(pts) <= 2:
        return pts

    def cross(o, a, b):
        return (a[0] - o[0]) * (b[1] - o[1]) - (a[1] - o[1]) * (b[0] - o[0])

    lower, upper = [], []
    for p in pts:
        while len(lower) >= 2 and cross(lower[-2], lower[-1], p) <= 0:
            lower.pop()
        lower.append(p)
    for p in reversed(pts):
        while len(upper) >= 2 and cross(upper[-2], upper[-1], p) <= 0:
            upper.pop()
        upper.append(p)
    return lower[:-1] + upper[:-1]


def _point_in_hull(hull, p):
    """+1 strictly inside, 0 on the boundary, -1 outside (hull counter-clockwise)."""
    n = len(hull)
    if n < 3:
        return -1
    sign = 1
    for i in range(n):
        a, b = hull[i], hull[(i + 1) % n]
        c = (b[0] - a[0]) * (p[1] - a[1]) - (b[1] - a[1]) * (p[0] - a[0])
        if c < 0:
            return -1
        if c == 0:
            sign = 0
    return sign


# ------------------------------------------------------------------ project_grid (bounded)


def project_grid_case(kind, method, antialias, seed, with_holes, extra):
    import xarray as xr

    rng = np.random.RandomState(seed)
    ne, nn = rng.randint(6, 10), rng.randint(5, 9)
    east, north = np.linspace(-3.0, 5.0, ne), np.linspace(10.0, 16.0, nn)
    E, N = np.meshgrid(east, north)
    vals = 2.0 * E - 0.5 * N + 0.1 * E * N
    if with_holes:
        vals = vals.copy()
        if with_holes == "corner":  # a missing corner block: the hull of the valid nodes is NOT the grid outline
            vals[: nn // 2, : ne // 2] = np.nan
        elif with_holes == "edge":  # a band of empty columns on the east side
            vals[:, -(ne // 3) :] = np.nan
        elif with_holes == "staircase":
            for i in range(nn):
                vals[i, : max(0, ne // 2 - i)] = np.nan
        else:
            vals[rng.randint(0, nn), rng.randint(0, ne)] = np.nan
    grid = xr.DataArray(vals, coords={"northing": north, "easting": east}, dims=("northing", "easting"), name=rng.choice(["topo", None]))
    proj = {"affine": lambda e, n: (2.0 * np.asarray(e) + 10.0, 3.0 * np.asarray(n) - 1.0), "monotone": lambda e, n: (np.asarray(e) ** 3 / 10.0 + np.asarray(e), np.exp(np.asarray(n) / 8.0))}[kind]
    with warnings.catch_warnings():
        warnings.simplefilter("ignore")
        extra = dict(extra)
        if extra.pop("layout", "C") == "F":
            # the same grid with its values stored the other way round (what .transpose() of an easting-first grid gives)
            grid = grid.copy(data=np.asfortranarray(grid.values))
        if isinstance(extra.get("region"), str):
            pe, pn = proj(E, N)
            w, e_, s_, n_ = float(pe.min()), float(pe.max()), float(pn.min()), float(pn.max())
            f = 0.23 if extra["region"] == "inner" else -0.31  # shrink / grow the bounding box, asymmetrically
            extra["region"] = (w + f * (e_ - w), e_ - 0.5 * f * (e_ - w), s_ + 0.7 * f * (n_ - s_), n_ - f * (n_ - s_))
        try:
            out = verde.project_grid(grid, proj, method=method, antialias=antialias, **extra)
            err = None
        except Exception as e:  # noqa
            out, err = None, e
    return grid, proj, out, err


@register
class ProjectGridCase(Contract):
    target = "contracts.hull_c16:project_grid_case"
    cover_return = False

    def configs(self, tier):
        return []

    def samples(self, rng, nrng, tier):
        for kind in ("affine", "monotone"):
            for method in ("linear", "nearest", "cubic"):
                for antialias in (False, True):
                    for _ in range(2 if tier == "thorough" else 1):
                        yield (kind, method, antialias, rng.randint(0, 9999), rng.random() < 0.4, rng.choice([{}, {"shape": (7, 9)}, {"spacing": 0.9}])), {}
                    yield (kind, method, antialias, rng.randint(0, 9999), rng.choice([False, "corner"]), {"layout": "F"}), {}
                    # a requested region that differs from the bounding box of the projected data (with / without a shape)
                    yield (kind, method, antialias, rng.randint(0, 9999), False, rng.choice([{"region": "inner"}, {"region": "outer"}, {"region": "inner", "shape": (6, 8)}])), {}
                    # holes that change the hull of the data (border holes), where an extrapolating method would fill the gap
                    yield (kind, method, antialias, rng.randint(0, 9999), rng.choice(["corner", "edge", "staircase"]), {}), {}
        yield ("affine", "bogus", True, 1, False, {}), {}

    def ensures(self, a, r):
        grid, proj, out, err = r
        if a.method == "bogus":
            return {"invalid_method_is_rejected": isinstance(err, ValueError)}
        res = {"no_error": err is None}
        if err is not None:
            return res
        name = grid.name if grid.name is not None else "scalars"
        res["dataarray_with_the_inputs_name"] = out.name == name and tuple(out.dims) == ("northing", "easting")
        # data points carried into the projection (valid cells only)
        E, N = np.meshgrid(grid.coords["easting"].values, grid.coords["northing"].values)
        ok = ~np.isnan(grid.values)
        pe, pn = proj(E[ok], N[ok])
        region = (pe.min(), pe.max(), pn.min(), pn.max())
        if isinstance(a.extra.get("region"), str):
            fe, fn = proj(E, N)
            w, e_, s_, n_ = float(fe.min()), float(fe.max()), float(fn.min()), float(fn.max())
            f = 0.23 if a.extra["region"] == "inner" else -0.31
            region = (w + f * (e_ - w), e_ - 0.5 * f * (e_ - w), s_ + 0.7 * f * (n_ - s_), n_ - f * (n_ - s_))
        oe, on = out.coords["easting"].values, out.coords["northing"].values
        res["regular_grid_of_the_projected_region"] = bool(np.isclose(oe[0], region[0]) and np.isclose(on[0], region[2]) and np.allclose(np.diff(oe), np.diff(oe)[0]) and np.allclose(np.diff(on), np.diff(on)[0]) and oe[-1] <= region[1] + 1e-9 * abs(region[1]) + 1e-9 and on[-1] <= region[3] + 1e-9 * abs(region[3]) + 1e-9)
        if "layout" in a.extra:
            pass
        if "shape" in a.extra:
            res["requested_shape"] = out.shape == tuple(a.extra["shape"])
        elif "spacing" not in a.extra:
            res["shape_of_the_input"] = out.shape == grid.shape
        # NaN outside the hull of the projected data points, finite strictly inside (exact test on the float coordinates)
        hull = _convex_hull([(Fraction(float(x)), Fraction(float(y))) for x, y in zip(pe, pn)])
        OE, ON = np.meshgrid(oe, on)
        good_out, good_in = True, True
        # known finding F9 (carve-out = exactly that input class): antialias + linear/cubic + an output spacing coarser
        # than the sampling of the projected data -> the block means' hull is smaller than the data hull
        coarse = False
        if known.active("F9") and a.antialias and a.method in ("linear", "cubic") and len(oe) > 1 and len(on) > 1:
            de, dn = np.diff(np.unique(np.round(pe, 9))), np.diff(np.unique(np.round(pn, 9)))
            coarse = bool((de.size and (oe[1] - oe[0]) > de.min() * (1 + 1e-9)) or (dn.size and (on[1] - on[0]) > dn.min() * (1 + 1e-9)))
        for x, y, v in zip(OE.ravel(), ON.ravel(), np.asarray(out.values).ravel()):
            side = _point_in_hull(hull, (Fraction(float(x)), Fraction(float(y))))
            margin = _hull_margin(hull, (float(x), float(y)))
            if margin < 1e-7 * (abs(x) + abs(y) + 1):
                continue
            if side < 0 and not np.isnan(v):
                good_out = False
            if side > 0 and np.isnan(v) and not a.with_holes and a.method != "cubic" and not coarse:
                good_in = False
        res["nan_outside_the_hull_of_the_projected_data"] = good_out
        res["finite_inside_the_hull"] = good_in
        vmin, vmax = np.nanmin(grid.values), np.nanmax(grid.values)
        finite = np.asarray(out.values)[~np.isnan(out.values)]
        if a.antialias and a.method in ("linear", "nearest") and finite.size:
            res["antialiased_values_stay_within_the_input_range"] = bool(finite.min() >= vmin - 1e-9 * (abs(vmin) + 1) and finite.max() <= vmax + 1e-9 * (abs(vmax) + 1))
        if (not a.antialias) and a.kind == "affine" and a.method in ("linear", "cubic") and not a.with_holes and not (set(a.extra) - {"layout"}):
            # an affine map sends the regular input grid onto the regular output grid: original values reproduced at the nodes
            want = np.asarray(grid.values)
            res["affine_projection_reproduces_the_values_at_the_projected_nodes"] = bool(np.allclose(np.asarray(out.values)[1:-1, 1:-1], want[1:-1, 1:-1], rtol=1e-6, atol=1e-8))
        return res


def _hull_margin(hull, p):
    best = float("inf")
    n = len(hull)
    for i in range(n):
        ax, ay = float(hull[i][0]), float(hull[i][1])
        bx, by = float(hull[(i + 1) % n][0]), float(hull[(i + 1) % n][1])
        L = ((bx - ax) ** 2 + (by - ay) ** 2) ** 0.5
        if L == 0:
            continue
        best = min(best, abs((bx - ax) * (p[1] - ay) - (by - ay) * (p[0] - ax)) / L)
    return best


@register
class ProjectGridRejections(Contract):
    """project_grid's argument rejections (deductive, concrete-structure configs)."""

    target = "verde.projections:project_grid"
    cover_raise = True
    cover_return = False

    def configs(self, tier):
        return [{"bad": "dataset"}, {"bad": "dims"}, {"bad": "method"}]

    def setup(self, B, cfg):
        from pyvc.prelude_xr import SymDataArray

        if cfg["bad"] == "dataset":
            grid = _sym_grid(B)
        elif cfg["bad"] == "dims":
            grid = SymDataArray(B.array("v", (B.dim("n", 1),)), coords={"x": B.array("x", (B.dims["n"],))}, dims=("x",), name="a")
        else:
            nn, ne = B.dim("nn", 2), B.dim("ne", 2)
            grid = SymDataArray(B.array("v", (nn, ne)), coords={"northing": B.array("n1", (nn,)), "easting": B.array("e1", (ne,))}, dims=("northing", "easting"), name="a")
        return (grid, SymProjection()), dict(method="bogus" if cfg["bad"] == "method" else "linear")

    def raises(self, a):
        return [(ValueError, hasattr(a.grid, "data_vars") or len(a.grid.dims) != 2 or (isinstance(a.method, str) and a.method not in ("linear", "nearest", "cubic")))]

    native_replay = False

    def ensures(self, a, r):
        return {}


# ------------------------------------------------------------------ project_grid: the orchestration (deductive, on stubs)


class _Recorder:
    """Records the calls project_grid makes on its interpolator chain and on convexhull_mask."""

    def __init__(self):
        self.fit = []
        self.grid = []
        self.mask = []


def _chain_fit(self, coordinates, data, weights=None):
    raise NotImplementedError


def _chain_grid(self, region=None, shape=None, spacing=None, dims=None, data_names=None, projection=None, coordinates=None, **kwargs):
    raise NotImplementedError


@register
class ChainFitRecorder(Contract):
    target = "contracts.hull_c16:_chain_fit"
    cover_return = False

    def configs(self, tier):
        return []

    def havoc(self, a):
        a.self.region_ = (0.0, 1.0, 0.0, 1.0)
        return a.self

    def ensures(self, a, r):
        return {}


@register
class ChainGridRecorder(Contract):
    target = "contracts.hull_c16:_chain_grid"
    cover_return = False

    def configs(self, tier):
        return []

    def havoc(self, a):
        c = ctx()
        nn, ne = c.fresh("pg_nn", "int"), c.fresh("pg_ne", "int")
        c.assume(and_(nn >= 1, ne >= 1))
        names = list(a.data_names) if a.data_names is not None else ["scalars"]
        dv = {nm: (("northing", "easting"), havoc_array("pg_" + str(k), (nn, ne), "f")) for k, nm in enumerate(names)}
        return SymDataset(dv, {"easting": havoc_array("pg_e", (ne,), "f"), "northing": havoc_array("pg_n", (nn,), "f")})

    def ensures(self, a, r):
        return {}


def _hull_mask_recorder(data_coordinates, coordinates=None, grid=None, projection=None):
    raise NotImplementedError


@register
class HullMaskRecorder(Contract):
    target = "contracts.hull_c16:_hull_mask_recorder"
    cover_return = False

    def configs(self, tier):
        return []

    def havoc(self, a):
        return a.grid.where(new_array(tuple(a.grid[list(a.grid.data_vars)[0]].values.shape), lambda idx: True, "b"))

    def ensures(self, a, r):
        return {}


@register
class ProjectGrid(Contract):
    """project_grid's wiring, verified on stubs: which points are projected, fitted, gridded and masked."""

    key = "C16:wiring:verde.projections:project_grid"
    target = "verde.projections:project_grid"
    stubs = {
        "grid_to_table": "verde.utils:grid_to_table",
        "get_region": "verde.coordinates:get_region",
        "shape_to_spacing": "verde.coordinates:shape_to_spacing",
        "check_region": "verde.coordinates:check_region",
        "Chain.fit": "contracts.hull_c16:_chain_fit",
        "Chain.grid": "contracts.hull_c16:_chain_grid",
        "convexhull_mask": "contracts.hull_c16:_hull_mask_recorder",
    }
    native_replay = False

    def configs(self, tier):
        out = []
        for method in ("linear", "nearest", "cubic"):
            for antialias in (True, False):
                out.append({"method": method, "antialias": antialias, "name": "topo"})
        out += [{"method": "linear", "antialias": True, "name": None}, {"method": "linear", "antialias": False, "name": "topo", "shape": True}, {"method": "nearest", "antialias": True, "name": "topo", "spacing": True, "region": True}]
        out += [{"method": "linear", "antialias": True, "name": "topo", "region": True}, {"method": "cubic", "antialias": False, "name": "topo", "region": True, "shape": True}]
        return out

    def setup(self, B, cfg):
        from pyvc.prelude_xr import SymDataArray

        nn, ne = B.dim("nn", 2), B.dim("ne", 2)
        grid = SymDataArray(B.array("values", (nn, ne), nan=True), coords={"northing": B.array("n1", (nn,)), "easting": B.array("e1", (ne,))}, dims=("northing", "easting"), name=cfg["name"])
        kw = dict(method=cfg["method"], antialias=cfg["antialias"])
        if cfg.get("shape"):
            kw["shape"] = (B.int("out_nn"), B.int("out_ne"))
        if cfg.get("spacing"):
            kw["spacing"] = B.real("out_spacing")
        if cfg.get("region"):
            kw["region"] = [B.real("oW"), B.real("oE"), B.real("oS"), B.real("oN")]
        return (grid, SymProjection()), kw

    def requires(self, a):
        conds = []
        if "shape" in a.kwargs:
            conds += [a.kwargs["shape"][0] >= 2, a.kwargs["shape"][1] >= 2]
        if "region" in a.kwargs:
            w, e, s, n = a.kwargs["region"]
            conds += [w <= e, s <= n]
        # some cell carries data
        v = a.grid.values
        return All(*(conds + [S_exists_valid(v)]))

    def ensures(self, a, r):
        import verde

        c = ctx()
        name = a.grid.name if a.grid.name is not None else "scalars"
        fits = c.ghost.get("contracts.hull_c16:_chain_fit", [])
        grids = c.ghost.get("contracts.hull_c16:_chain_grid", [])
        masks = c.ghost.get("contracts.hull_c16:_hull_mask_recorder", [])
        drops = c.ghost.get("dropna", [])
        regs = c.ghost.get("verde.coordinates:get_region", [])
        out = {"one_table_one_fit_one_grid_one_mask": len(fits) == 1 and len(grids) == 1 and len(masks) == 1 and len(drops) == 1 and len(regs) == 1}
        if not out["one_table_one_fit_one_grid_one_mask"]:
            return out
        (fa, _), (ga, gridded), (ma, masked), table = fits[0], grids[0], masks[0], drops[0]
        src = table.dropna_src
        m = table.nrows
        nn, ne = a.grid.values.shape
        e1, n1 = a.grid.coords["easting"].values, a.grid.coords["northing"].values
        proj = a.projection
        pe, pn = fa.coordinates[0], fa.coordinates[1]
        from pyvc.arr import unflatten

        def cell(t):
            return unflatten(src(t), (nn, ne))

        out["fitted_points_are_the_projected_easting_northing_of_the_cells_that_carry_data"] = All(
            pe.shape[0] == m,
            Forall((m,), lambda t: and_(pe.at(t) == proj.point(e1.at(cell(t)[1]), n1.at(cell(t)[0]))[0], pn.at(t) == proj.point(e1.at(cell(t)[1]), n1.at(cell(t)[0]))[1], not_(a.grid.values.nan_at(*cell(t))))),
        )
        fd = fa.data.values if hasattr(fa.data, "values") else fa.data
        out["fitted_values_are_the_values_of_those_cells"] = Forall((m,), lambda t: fd.at(t) == a.grid.values.at(*cell(t)))
        chain = fa.self
        steps = chain.steps
        want_method = {"linear": verde.Linear, "nearest": verde.KNeighbors, "cubic": verde.Cubic}[a.method]
        data_region = regs[0][1]
        region = a.kwargs.get("region", data_region)
        out["interpolation_method_as_requested"] = isinstance(steps[-1][1], want_method)
        if a.antialias:
            okb = len(steps) == 2 and isinstance(steps[0][1], verde.BlockReduce) and steps[0][1].region is data_region
            out["block_mean_over_the_data_region_first_iff_antialias"] = okb
            if okb and "spacing" in a.kwargs:
                out["block_mean_with_the_output_spacing"] = steps[0][1].spacing is a.kwargs["spacing"]
        else:
            out["block_mean_over_the_data_region_first_iff_antialias"] = len(steps) == 1
        out["gridded_on_the_requested_or_data_region_with_the_inputs_name"] = ga.self is chain and ga.region is region and list(ga.data_names) == [name] and (ga.spacing is a.kwargs["spacing"] if "spacing" in a.kwargs else ga.spacing is not None)
        if "spacing" not in a.kwargs:
            # "...of the projected region with the input's shape (or the requested region/shape)": the default spacing
            # is the one that puts the requested (else the input's) shape on the region that is GRIDDED
            s2s = c.ghost.get("verde.coordinates:shape_to_spacing", [])
            want_shape = a.kwargs.get("shape", (nn, ne))
            ok_sp = False
            for sa, sr in s2s:
                if sr is ga.spacing or (isinstance(sr, tuple) and isinstance(ga.spacing, tuple) and len(sr) == len(ga.spacing) and all(x is y for x, y in zip(sr, ga.spacing))):
                    shp = tuple(sa.shape)
                    ok_sp = sa.region is region and len(shp) == 2 and and_(shp[0] == want_shape[0], shp[1] == want_shape[1]) is not False
                    if ok_sp:
                        ok_sp = and_(shp[0] == want_shape[0], shp[1] == want_shape[1])
            out["default_spacing_puts_the_requested_or_input_shape_on_the_gridded_region"] = ok_sp
            if a.antialias and len(steps) == 2 and isinstance(steps[0][1], verde.BlockReduce):
                out["block_mean_with_the_output_spacing"] = steps[0][1].spacing is ga.spacing
        out["hull_mask_over_the_projected_DATA_points_applied_to_the_gridded_result"] = ma.data_coordinates is fa.coordinates and ma.grid is gridded and ma.coordinates is None
        out["returns_the_masked_variable_with_the_inputs_name"] = r is masked[name]
        return out


def S_exists_valid(v):
    """some cell carries data - phrased over the row-major cell number (the table's row index)"""
    from pyvc.arr import unflatten
    from pyvc.spec import Exists

    nn, ne = v.shape
    return Exists((nn * ne,), lambda p: not_(v.nan_at(*unflatten(p, (nn, ne)))))
