"""Sidecar contracts for property C06: BaseGridder.filter, Chain, Vector (composition)."""
import numpy as np
import numpy as _real_numpy  # (the engine swaps the name `np` of a target's module for its prelude)

from pyvc.arr import SymArr, as_array, flat_index, havoc_array, new_array
from pyvc.concrete import unwrap, wrap
from pyvc.contract import REGISTRY, Args, Contract, register
from pyvc.core import and_, ctx, implies, is_sym, not_, or_, spec_fn
from pyvc.spec import All, Forall, close

from .base_utils import _tup
from .blocks_c08 import BU, flat
from .coordinates_c07 import M
from .coordinates_c13 import _coords, _rand_coords
from .lsq_c02 import _region_clauses

import verde
from verde.base import BaseGridder


class AbstractGridder(BaseGridder):
    """An arbitrary gridder: predict is an uninterpreted function of (easting, northing) per
    component (and of the fit it last saw); fit only records what it was given."""

    def __init__(self, tag="g", ncomp=1):
        super().__init__()
        self.tag, self.ncomp = tag, ncomp

    def fit(self, coordinates, data, weights=None):
        c = ctx()
        c.ghost.setdefault("abstract.fit", []).append((self, coordinates, data, weights))
        self.nfit_ = getattr(self, "nfit_", 0) + 1
        self.region_ = (0.0, 1.0, 0.0, 1.0)
        return self

    def predict(self, coordinates):
        E, N = as_array(coordinates[0]), as_array(coordinates[1])
        es, ns = E.snapshot(), N.snapshot()
        gen = getattr(self, "nfit_", 0)
        outs = []
        for k in range(self.ncomp):
            name = "P_%s_%d_fit%d" % (self.tag, k, gen)
            outs.append(new_array(E.shape, (lambda idx, name=name: spec_fn(name, es(*idx), ns(*idx))), "f"))
        ctx().ghost.setdefault("abstract.predict", []).append((self, coordinates, tuple(outs)))
        return outs[0] if self.ncomp == 1 else tuple(outs)

    def value(self, k, x, y, gen=None):
        gen = getattr(self, "nfit_", 0) if gen is None else gen
        return spec_fn("P_%s_%d_fit%d" % (self.tag, k, gen), x, y)


class AbstractReducer:
    """A block reduction: filter returns NEW (coordinates, data[, weights]); it has no predict."""

    def __init__(self, tag, with_weights):
        self.tag, self.with_weights = tag, with_weights

    def filter(self, coordinates, data, weights=None):
        c = ctx()
        n = c.fresh("nred_" + self.tag, "int")
        c.assume(n >= 1)
        coords = (havoc_array("redE_" + self.tag, (n,)), havoc_array("redN_" + self.tag, (n,)))
        ncomp = len(data) if isinstance(data, tuple) else 1
        dat = tuple(havoc_array("redD%d_%s" % (k, self.tag), (n,)) for k in range(ncomp))
        dat = dat[0] if ncomp == 1 else dat
        out = (coords, dat, havoc_array("redW_" + self.tag, (n,))) if self.with_weights else (coords, dat)
        c.ghost.setdefault("abstract.filter", []).append((self, (coordinates, data, weights), out))
        return out


BC = "verde.base.base_classes"


@register
class GridderFilter(Contract):
    target = BC + ":BaseGridder.filter"
    inline = ("check_data",)
    frame_attrs = {"region_", "nfit_"}

    def configs(self, tier):
        return [{"rank": 1, "ncomp": 1, "weights": False}, {"rank": 2, "ncomp": 1, "weights": True}, {"rank": 1, "ncomp": 2, "weights": True}, {"rank": 2, "ncomp": 3, "weights": False}, {"rank": 1, "ncomp": 1, "weights": False, "extra": 1}, {"rank": 1, "ncomp": 2, "weights": False, "int_data": True}]

    def setup(self, B, cfg):
        est = AbstractGridder("f", cfg["ncomp"])
        coords = _coords(B, cfg["rank"], cfg.get("extra", 0), minsize=0)
        # integer-dtype data: the residual is still data minus the (real-valued) prediction
        data = tuple(B.array("data%d" % k, coords[0].shape, kind="i" if cfg.get("int_data") else "f") for k in range(cfg["ncomp"]))
        w = tuple(B.array("w%d" % k, coords[0].shape) for k in range(cfg["ncomp"])) if cfg["weights"] else None
        if cfg["ncomp"] == 1:
            data, w = data[0], (w[0] if w else None)
        return (est, coords, data), dict(weights=w)

    def samples(self, rng, nrng, tier):
        for _ in range(6):
            arrs = _rand_coords(rng, nrng, rng.choice([1, 2]), 2, scale=2.0)
            if arrs[0].size < 6:
                continue
            yield (verde.Trend(1), arrs[:2], arrs[2]), dict(weights=rng.choice([None, np.abs(arrs[3]) + 0.1]))
            yield (verde.Vector([verde.Trend(1), verde.Trend(0)]), arrs[:2], (arrs[2], arrs[3])), {}
            yield (verde.Trend(1), arrs[:2], np.round(arrs[2] * 7).astype(rng.choice(["int64", "int32"]))), {}  # integer data

    tol = (1e-9, 1e-9)

    def ensures(self, a, r):
        c = ctx()
        ok = isinstance(r, tuple) and len(r) == 3
        out = {"returns_coordinates_residuals_weights": ok}
        if not ok:
            return out
        coords, res, w = r
        out["coordinates_returned_as_given"] = coords is a.coordinates
        out["weights_returned_as_given"] = w is a.weights
        din = _tup(a.data)
        rout = res if isinstance(res, tuple) else (res,)
        out["one_residual_per_component_unpacked_for_one"] = len(rout) == len(din) and (isinstance(res, tuple) == (len(din) > 1))
        if len(rout) != len(din):
            return out
        if c.concrete:
            pred = a.self.predict(unwrap(a.coordinates))
            pred = pred if isinstance(pred, tuple) else (pred,)
            for k in range(len(din)):
                out["residual%d_is_data_minus_prediction_in_the_data_shape" % k] = bool(unwrap(rout[k]).shape == unwrap(din[k]).shape and np.allclose(unwrap(rout[k]), unwrap(din[k]) - np.asarray(pred[k]).reshape(unwrap(din[k]).shape), rtol=1e-9, atol=1e-9))
            return out
        fits = c.ghost.get("abstract.fit", [])
        out["fitted_exactly_once_on_exactly_the_given_arguments"] = len(fits) == 1 and fits[0][1] is a.coordinates and fits[0][2] is a.data and fits[0][3] is a.weights
        E, N = a.coordinates[0], a.coordinates[1]
        for k in range(len(din)):
            d, rr = din[k], rout[k]
            out["residual%d_has_the_data_shape" % k] = rr.ndim == d.ndim and and_(*[x == y for x, y in zip(rr.shape, d.shape)])
            out["residual%d_is_data_minus_prediction_after_the_fit" % k] = Forall(d.shape, lambda *ix, k=k, d=d, rr=rr: rr.at(*ix) == d.at(*ix) - a.self.value(k, E.at(*ix), N.at(*ix), gen=1))
        return out


CH = "verde.chain"


class AbstractStep:
    """A chain step seen only through filter(): records what it received, returns fresh objects
    (a triple for gridders / BlockMean, a pair for BlockReduce). 'g' steps can also predict."""

    def __init__(self, tag, kind):
        self.tag, self.kind = tag, kind
        if kind == "g":
            self.predict = lambda coordinates: None

    def filter(self, *args, **kwargs):
        c = ctx()
        n = c.fresh("nout_" + self.tag, "int")
        c.assume(n >= 1)
        coords = (havoc_array("oE_" + self.tag, (n,)), havoc_array("oN_" + self.tag, (n,)))
        dat = havoc_array("oD_" + self.tag, (n,))
        out = (coords, dat) if self.kind == "r" else (coords, dat, havoc_array("oW_" + self.tag, (n,)))
        c.ghost.setdefault("abstract.filter", []).append((self, args, kwargs, out))
        return out


def _sname(cfg, k):
    """Step label: distinct by default; with cfg['names'] == 'same' every step carries the SAME label (labels are only
    labels - the property speaks of the steps, and Chain never asks for unique names)."""
    return "s" if cfg.get("names") == "same" else "s%d" % k


def _chain_kinds(tier):
    base = ["g", "gg", "ggg", "rg", "mg", "grg", "mgg", "r", "gr", "gm"]
    if tier == "thorough":
        import itertools

        base = ["".join(p) for n in range(1, 5) for p in itertools.product("grm", repeat=n)]
    return base


@register
class ChainFit(Contract):
    target = CH + ":Chain.fit"
    stubs = {"get_region": M + ":get_region"}
    frame_attrs = {"region_"}

    def configs(self, tier):
        out = [{"kinds": k, "weights": w} for k in _chain_kinds(tier) for w in (False, True)][: (400 if tier == "thorough" else 20)]
        return out + [{"kinds": "gg", "weights": False, "names": "same"}, {"kinds": "grg", "weights": True, "names": "same"}]

    def setup(self, B, cfg):
        chain = verde.Chain.__new__(verde.Chain)
        chain.steps = [(_sname(cfg, k), AbstractStep("c%d" % k, kind)) for k, kind in enumerate(cfg["kinds"])]
        coords = _coords(B, 1, 0, minsize=1)
        return (chain, coords, B.array("data", coords[0].shape)), dict(weights=B.array("weights", coords[0].shape) if cfg["weights"] else None)

    def ensures(self, a, r):
        c = ctx()
        chain = a.self
        out = {"returns_self": r is chain}
        _region_clauses(out, chain, a.coordinates)
        calls = c.ghost.get("abstract.filter", [])
        current = (a.coordinates, a.data, a.weights)
        once, thread = True, True
        for name, step in chain.steps:
            mine = [x for x in calls if x[0] is step]
            if len(mine) != 1:
                once = False
                break
            _, args, kwargs, ret = mine[0]
            if kwargs or len(args) != len(current) or not all(x is y for x, y in zip(args, current)):
                thread = False
                break
            current = ret
        out["every_step_filters_exactly_once"] = once and len(calls) == len(chain.steps)
        out["each_step_receives_exactly_what_the_previous_step_returned"] = thread
        out["steps_called_in_order"] = [x[0] for x in calls] == [s for _, s in chain.steps]
        return out


@register
class ChainIdentity(Contract):
    """Lemma by execution on abstract gridders (real Chain.fit / Chain.predict / BaseGridder.filter):
    chain prediction at the data + last residual = data; prediction = sum of the steps' predictions."""

    target = "contracts.compose_c06:chain_identity"
    native_replay = False

    def patch_modules(self, P):
        import verde.chain
        import verde.base.base_classes as bc
        from pyvc.contract import default_patches

        default_patches(P, verde.chain)
        default_patches(P, bc)

    def configs(self, tier):
        out = [{"n": n, "weights": w, "rank": r} for n in (1, 2, 3) for w in (False, True) for r in (1, 2)]
        if tier == "thorough":
            out += [{"n": 4, "weights": False, "rank": 1}]
        return out + [{"n": 2, "weights": False, "rank": 1, "names": "same"}, {"n": 3, "weights": True, "rank": 1, "names": "same"}]

    def setup(self, B, cfg):
        steps = [(_sname(cfg, k), AbstractGridder("i%d" % k, 1)) for k in range(cfg["n"])]
        coords = _coords(B, cfg["rank"], 0, minsize=1)
        return (steps, coords, B.array("data", coords[0].shape), B.array("weights", coords[0].shape) if cfg["weights"] else None), {}

    def samples(self, rng, nrng, tier):
        for _ in range(8):
            arrs = _rand_coords(rng, nrng, 2, 1, scale=2.0)
            if arrs[0].size < 8:
                continue
            steps = rng.choice([
                [("t", verde.Trend(1))],
                [("t", verde.Trend(1)), ("s", verde.Spline())],
                [("t", verde.Trend(1)), ("k", verde.KNeighbors(k=3)), ("t", verde.Trend(2))],  # a label used twice
                [("t", verde.Trend(2)), ("k", verde.KNeighbors())],
                [("t", verde.Trend(0)), ("c", verde.Chain([("t1", verde.Trend(1)), ("k", verde.KNeighbors(k=2))]))],
            ])
            yield (steps, arrs[:2], arrs[2], None), {}

    tol = (1e-6, 1e-6)

    def ensures(self, a, r):
        pred, last_residual, parts = r
        c = ctx()
        d = a.data
        if c.concrete:
            pred, last_residual = unwrap(pred), unwrap(last_residual)
            parts = [unwrap(p) for p in parts]
            scale = float(np.abs(unwrap(d)).max()) + 1.0
            return {
                "prediction_plus_last_residual_is_the_data": bool(np.allclose(pred + last_residual, unwrap(d), atol=1e-6 * scale)),
                "prediction_is_the_sum_of_the_separately_fitted_steps": bool(np.allclose(pred, sum(parts), atol=1e-6 * scale)),
            }
        E, N = a.coordinates[0], a.coordinates[1]
        steps = [s for _, s in a.steps]
        out = {}
        out["prediction_is_the_sum_of_the_steps_predictions"] = Forall(d.shape, lambda *ix: pred.at(*ix) == sum(s.value(0, E.at(*ix), N.at(*ix)) for s in steps))
        out["prediction_plus_last_residual_is_the_data"] = Forall(d.shape, lambda *ix: pred.at(*ix) + last_residual.at(*ix) == d.at(*ix))
        return out


def chain_filter(steps, coordinates, data, weights):
    """Chain.filter as a user calls it (whatever class in the MRO implements it)."""
    return verde.Chain(steps).filter(coordinates, data, weights)


@register
class ChainFilter(Contract):
    """The filter clause of C06 for a Chain (incl. chains with block reductions inside): the coordinates and weights
    it was given, data minus the chain's prediction AT THE GIVEN POINTS, in the data's shape. Executes the real
    Chain.filter / Chain.fit / Chain.predict / BaseGridder.filter on abstract steps."""

    target = "contracts.compose_c06:chain_filter"
    native_replay = False

    def patch_modules(self, P):
        import verde.chain
        import verde.base.base_classes as bc
        from pyvc.contract import default_patches

        default_patches(P, verde.chain)
        default_patches(P, bc)

    def configs(self, tier):
        kinds = ["g", "gg", "rg", "mg", "grg", "gmg"] + (["rgg", "ggg", "mgrg"] if tier == "thorough" else [])
        return [{"kinds": k, "weights": w, "rank": r} for k in kinds for w, r in ((False, 1), (True, 2))] + [{"kinds": "grg", "weights": False, "rank": 1, "names": "same"}]

    def setup(self, B, cfg):
        steps = []
        for k, kind in enumerate(cfg["kinds"]):
            steps.append((_sname(cfg, k), AbstractGridder("f%d" % k, 1) if kind == "g" else AbstractReducer("f%d" % k, kind == "m")))
        coords = _coords(B, cfg["rank"], 0, minsize=1)
        return (steps, coords, B.array("data", coords[0].shape), B.array("weights", coords[0].shape) if cfg["weights"] else None), {}

    def samples(self, rng, nrng, tier):
        n = 0
        while n < (12 if tier == "thorough" else 6):
            arrs = _rand_coords(rng, nrng, rng.choice([1, 2]), 2, scale=2.0)
            if arrs[0].size < 8:
                continue
            n += 1
            w = rng.choice([None, np.abs(arrs[3]) + 0.1])
            red = np.average if w is not None else rng.choice([np.median, np.mean])  # only np.average takes weights
            steps = [
                [("t", verde.Trend(1))],
                [("r", verde.BlockReduce(red, spacing=1.0)), ("t", verde.Trend(1))],
                [("m", verde.BlockMean(spacing=1.5)), ("t", verde.Trend(0))],
                [("c", verde.Chain([("r", verde.BlockReduce(red, spacing=1.0)), ("t", verde.Trend(1))])), ("k", verde.KNeighbors())],
            ][n % 4]
            yield (steps, arrs[:2], arrs[2], w), {}

    tol = (1e-7, 1e-7)

    def ensures(self, a, r):
        c = ctx()
        ok = isinstance(r, tuple) and len(r) == 3
        out = {"returns_coordinates_residuals_weights": ok}
        if not ok:
            return out
        coords, res, w = r
        d = a.data
        if c.concrete:
            import warnings

            coords_in, d_in = unwrap(a.coordinates), unwrap(d)
            with warnings.catch_warnings():
                warnings.simplefilter("ignore")
                ref = verde.Chain([(n, _twin(s)) for n, s in a.steps]).fit(coords_in, d_in, unwrap(a.weights))
                pred = np.asarray(ref.predict(coords_in))
            out["coordinates_returned_as_given"] = len(coords) == len(coords_in) and all(np.array_equal(unwrap(x), y) for x, y in zip(coords, coords_in))
            out["weights_returned_as_given"] = (w is None) == (a.weights is None) and (w is None or np.array_equal(unwrap(w), unwrap(a.weights)))
            rr = unwrap(res)
            out["residual_is_data_minus_chain_prediction_at_the_given_points_in_the_data_shape"] = bool(np.shape(rr) == d_in.shape and np.allclose(rr, d_in - pred.reshape(d_in.shape), atol=1e-7 * (float(np.abs(d_in).max()) + 1.0)))
            return out
        out["coordinates_returned_as_given"] = coords is a.coordinates
        out["weights_returned_as_given"] = w is a.weights
        ok = isinstance(res, SymArr) and res.ndim == d.ndim
        out["residual_is_one_array_of_the_data_rank"] = ok
        if not ok:
            return out
        E, N = a.coordinates[0], a.coordinates[1]
        gs = [s for _, s in a.steps if isinstance(s, AbstractGridder)]
        out["residual_has_the_data_shape"] = and_(*[x == y for x, y in zip(res.shape, d.shape)])
        out["residual_is_data_minus_chain_prediction_at_the_given_points"] = Forall(d.shape, lambda *ix: res.at(*ix) == d.at(*ix) - sum(g.value(0, E.at(*ix), N.at(*ix), gen=1) for g in gs))
        return out


def chain_identity(steps, coordinates, data, weights):
    chain = verde.Chain(steps)
    if type(coordinates[0]) is _real_numpy.ndarray and coordinates[0].size > 3:
        # native run (bounded stage): "repeated fits of the same chain" - the chain has first been fitted to OTHER data
        import warnings

        with warnings.catch_warnings():
            warnings.simplefilter("ignore")
            other = lambda x: None if x is None else (tuple(other(v) for v in x) if isinstance(x, tuple) else _real_numpy.asarray(x)[::-1] * 0.83 + 0.21)  # noqa: E731
            chain.fit(other(tuple(coordinates)), other(data), other(weights) if weights is None or isinstance(weights, tuple) else _real_numpy.abs(other(weights)) + 0.1)
    chain.fit(coordinates, data, weights)
    pred = chain.predict(coordinates)
    # the last residual, recomputed by threading the steps' own filter by hand on fresh twins
    args = (coordinates, data, weights)
    parts = []
    for _, step in steps:
        twin = _twin(step)
        args = twin.filter(*args)
        parts.append(twin.predict(coordinates))
    return pred, args[1], parts


def _twin(step):
    if isinstance(step, AbstractGridder):
        # an abstract gridder is a deterministic function of (tag, fit generation): a fresh twin fitted once
        # on the same residual chain denotes the same predictor
        return AbstractGridder(step.tag, step.ncomp)
    from sklearn.base import clone

    return clone(step)


@register
class ChainPredict(Contract):
    target = CH + ":Chain.predict"
    inline = ("check_data",)
    frame_attrs = set()
    cover_raise = True

    def configs(self, tier):
        return [{"kinds": "g", "ncomp": 1}, {"kinds": "gg", "ncomp": 1}, {"kinds": "rgg", "ncomp": 1}, {"kinds": "gmg", "ncomp": 2}, {"kinds": "gg", "ncomp": 3}, {"kinds": "g", "ncomp": 1, "fitted": False}, {"kinds": "ggg", "ncomp": 1, "names": "same"}]

    def setup(self, B, cfg):
        chain = verde.Chain.__new__(verde.Chain)
        steps = []
        for k, kind in enumerate(cfg["kinds"]):
            g = AbstractGridder("p%d" % k, cfg["ncomp"])
            g.nfit_ = 1
            steps.append((_sname(cfg, k), g if kind == "g" else AbstractReducer("p%d" % k, kind == "m")))
        chain.steps = steps
        if cfg.get("fitted", True):
            chain.region_ = (0.0, 1.0, 0.0, 1.0)
        return (chain, _coords(B, 1, 0, names=("q_easting", "q_northing"), minsize=0)), {}

    def raises(self, a):
        from sklearn.exceptions import NotFittedError

        return [(NotFittedError, not hasattr(a.self, "region_"))]

    def ensures(self, a, r):
        steps = [s for _, s in a.self.steps if hasattr(s, "predict")]
        ncomp = steps[0].ncomp
        E, N = a.coordinates[0], a.coordinates[1]
        out = {"unpacked_for_one_component_else_tuple": (isinstance(r, tuple) and len(r) == ncomp) if ncomp > 1 else isinstance(r, SymArr)}
        if not out["unpacked_for_one_component_else_tuple"]:
            return out
        rr = r if isinstance(r, tuple) else (r,)
        for k in range(ncomp):
            out["component%d_is_the_sum_over_exactly_the_steps_that_can_predict" % k] = Forall(E.shape, lambda *ix, k=k: rr[k].at(*ix) == sum(s.value(k, E.at(*ix), N.at(*ix)) for s in steps))
        return out


VC = "verde.vector"


@register
class VectorFit(Contract):
    target = VC + ":Vector.fit"
    stubs = {"check_fit_input": BU + ":check_fit_input", "get_region": M + ":get_region"}
    frame_attrs = {"region_"}
    cover_raise = True

    def configs(self, tier):
        return [{"ncomp": 2, "weights": True}, {"ncomp": 3, "weights": False}, {"ncomp": 2, "weights": "array"}, {"ncomp": 2, "data": "array"}]

    def setup(self, B, cfg):
        vec = verde.Vector.__new__(verde.Vector)
        vec.components = [AbstractGridder("v%d" % k, 1) for k in range(cfg["ncomp"])]
        coords = _coords(B, 1, 0, minsize=1)
        data = tuple(B.array("data%d" % k, coords[0].shape) for k in range(cfg["ncomp"]))
        w = tuple(B.array("w%d" % k, coords[0].shape) for k in range(cfg["ncomp"])) if cfg.get("weights") else None
        if cfg.get("weights") == "array":
            w = w[0]
        if cfg.get("data") == "array":
            data = data[0]
        return (vec, coords, data), dict(weights=w)

    def raises(self, a):
        return [(ValueError, not isinstance(a.data, tuple) or (a.weights is not None and not isinstance(a.weights, tuple)))]

    def ensures(self, a, r):
        c = ctx()
        vec = a.self
        out = {"returns_self": r is vec}
        _region_clauses(out, vec, a.coordinates)
        fits = c.ghost.get("abstract.fit", [])
        ok = len(fits) == len(vec.components)
        out["every_component_fitted_exactly_once"] = ok
        if ok:
            for k, comp in enumerate(vec.components):
                f = [x for x in fits if x[0] is comp]
                good = len(f) == 1 and f[0][1] is a.coordinates and f[0][2] is a.data[k]
                if a.weights is None:
                    good = good and f[0][3] is None
                else:
                    w = f[0][3] if len(f) == 1 else None
                    wk = flat(a.weights[k])
                    out["component%d_weights_are_its_own_weight_component" % k] = w is not None and All(w.shape[0] == wk.shape[0], Forall(wk.shape, lambda p, w=w, wk=wk: w.at(p) == wk.at(p)))
                out["component%d_fitted_with_its_own_data_only" % k] = good
        return out


@register
class VectorPredict(Contract):
    target = VC + ":Vector.predict"
    frame_attrs = set()
    cover_raise = True

    def configs(self, tier):
        return [{"ncomp": 2}, {"ncomp": 3}, {"ncomp": 1}, {"ncomp": 2, "fitted": False}]

    def setup(self, B, cfg):
        vec = verde.Vector.__new__(verde.Vector)
        vec.components = [AbstractGridder("w%d" % k, 1) for k in range(cfg["ncomp"])]
        for g in vec.components:
            g.nfit_ = 1
        if cfg.get("fitted", True):
            vec.region_ = (0.0, 1.0, 0.0, 1.0)
        return (vec, _coords(B, 1, 0, names=("q_easting", "q_northing"), minsize=0)), {}

    def raises(self, a):
        from sklearn.exceptions import NotFittedError

        return [(NotFittedError, not hasattr(a.self, "region_"))]

    def samples(self, rng, nrng, tier):
        for _ in range(4):
            arrs = tuple(nrng.uniform(-2, 2, 10) for _ in range(4))
            vec = verde.Vector([verde.Trend(1), verde.Trend(2)]).fit(arrs[:2], (arrs[2], arrs[3]))
            vec._parts = [verde.Trend(1).fit(arrs[:2], arrs[2]), verde.Trend(2).fit(arrs[:2], arrs[3])]
            yield (vec, _rand_coords(rng, nrng, 1, 0, scale=2.0)), {}

    tol = (1e-8, 1e-8)

    def ensures(self, a, r):
        c = ctx()
        comps = a.self.components
        out = {"tuple_in_component_order": isinstance(r, tuple) and len(r) == len(comps)}
        if not out["tuple_in_component_order"]:
            return out
        E, N = a.coordinates[0], a.coordinates[1]
        if c.concrete:
            parts = getattr(a.self, "_parts", None)
            if parts:
                for k, p in enumerate(parts):
                    out["component%d_equals_the_separately_fitted_component" % k] = bool(np.allclose(unwrap(r[k]), p.predict(unwrap(a.coordinates)), rtol=1e-8, atol=1e-8))
            return out
        for k, comp in enumerate(comps):
            out["component%d_is_its_own_components_prediction" % k] = Forall(E.shape, lambda *ix, k=k, comp=comp: r[k].at(*ix) == comp.value(0, E.at(*ix), N.at(*ix)))
        return out
