"""Sidecar contracts for property C03 (Trend, CheckerBoard, SciPy-backed gridders)."""
import math

import numpy as np

from pyvc.arr import SymArr, as_array, flat_index, havoc_array, new_array
from pyvc.concrete import wrap
from pyvc.contract import Contract, register
from pyvc.core import and_, ctx, div, implies, is_sym, ite, not_, or_, spec_fn
from pyvc.prelude_np import spec_trig
from pyvc.spec import All, Forall, close

from .blocks_c08 import BU, flat
from .coordinates_c13 import _coords, _rand_coords

TR = "verde.trend"


def monomials(degree):
    """The documented monomial order: all (i, j) with i + j <= degree sorted by total degree,
    within one total degree by decreasing power of easting: (0,0) (1,0) (0,1) (2,0) (1,1) (0,2) ..."""
    return tuple((d - j, j) for d in range(degree + 1) for j in range(d + 1))


def vpow(x, k):
    r = 1
    for _ in range(k):
        r = r * x
    return r


@register
class PolynomialPowerCombinations(Contract):
    functional = True
    target = TR + ":polynomial_power_combinations"
    cover_raise = True

    def configs(self, tier):
        return [{"degree": d} for d in range(0, 7)] + [{"degree": -1}, {"degree": -4}]

    def setup(self, B, cfg):
        return (cfg["degree"],), {}

    def raises(self, a):
        return [(ValueError, a.degree < 0)]

    def havoc(self, a):
        return monomials(a.degree)

    def samples(self, rng, nrng, tier):
        for d in range(-2, 9):
            yield (d,), {}

    def ensures(self, a, r):
        n = a.degree
        out = {"tuple_of_pairs": isinstance(r, tuple) and all(isinstance(p, tuple) and len(p) == 2 for p in r)}
        out["count_is_(N+1)(N+2)/2"] = len(r) == (n + 1) * (n + 2) // 2
        out["sorted_by_total_degree"] = all(sum(x) <= sum(y) for x, y in zip(r, r[1:]))
        out["every_monomial_of_degree_le_N_exactly_once"] = sorted(r) == sorted((i, j) for i in range(n + 1) for j in range(n + 1 - i))
        out["documented_order"] = tuple(r) == monomials(n)
        return out


def _trend(B, degree, fitted=True):
    import verde, verde.synthetic

    est = verde.Trend.__new__(verde.Trend)
    est.degree = degree
    if fitted:
        est.coef_ = B.array("coef", ((degree + 1) * (degree + 2) // 2,))
        est.region_ = (B.real("fW"), B.real("fE"), B.real("fS"), B.real("fN"))
    return est


def _jac_kind(a):
    from pyvc.arr import parse_dtype

    d = getattr(a, "dtype", "float64")
    try:
        k = parse_dtype(d).kind
    except Exception:
        import numpy as _np

        k = {"f": "f", "i": "i", "u": "i", "b": "i"}.get(_np.dtype(d).kind, "f")
    return "i" if k in ("i", "b") else "f"


def _as_kind(v, kind):
    from pyvc.arr import cast_value

    return cast_value(v, kind) if kind == "i" else v


@register
class TrendJacobian(Contract):
    functional = True
    target = TR + ":Trend.jacobian"
    stubs = {"n_1d_arrays": BU + ":n_1d_arrays", "polynomial_power_combinations": TR + ":polynomial_power_combinations"}
    frame_attrs = set()
    cover_raise = True

    def configs(self, tier):
        degs = range(0, 7)
        out = [{"degree": d, "rank": 1} for d in degs] + [{"degree": 2, "rank": 2}, {"degree": 1, "rank": 1, "mismatch": True}]
        return out

    def setup(self, B, cfg):
        est = _trend(B, cfg["degree"], fitted=False)
        coords = _coords(B, cfg["rank"], 0, minsize=0)
        if cfg.get("mismatch"):
            coords = (coords[0], B.array("northing2", (B.dim("m0", 0),)))
        return (est, coords), {}

    def raises(self, a):
        e, n = flat(a.coordinates[0]), flat(a.coordinates[1])
        return [(ValueError, e.shape[0] != n.shape[0])]

    def havoc(self, a):
        e, n = flat(a.coordinates[0]).copy(), flat(a.coordinates[1]).copy()
        combos = monomials(a.self.degree)
        from .blocks_c08 import _pick

        kind = _jac_kind(a)
        cols = [(lambda p, i=i, j=j: _as_kind(vpow(e.at(p), i) * vpow(n.at(p), j), kind)) for (i, j) in combos]
        return new_array((e.shape[0], len(combos)), lambda idx: _pick(cols, idx[1])(idx[0]), kind)

    def samples(self, rng, nrng, tier):
        import verde

        for d in range(0, 5):
            for rank in (1, 2):
                yield (verde.Trend(d), _rand_coords(rng, nrng, rank, 0, scale=2.0)), {}

    tol = (1e-10, 1e-10)

    def ensures(self, a, r):
        e, n = flat(a.coordinates[0]), flat(a.coordinates[1])
        combos = monomials(a.self.degree)
        ok = isinstance(r, SymArr) and r.ndim == 2
        out = {"two_dimensional": ok}
        if not ok:
            return out
        out["shape_is_points_by_(N+1)(N+2)/2"] = and_(r.shape[0] == e.shape[0], r.shape[1] == len(combos))
        kind = _jac_kind(a)  # the public `dtype` argument: an integer dtype stores the monomials truncated
        for c, (i, j) in enumerate(combos):
            out["column_%d_is_e^%d_n^%d" % (c, i, j)] = Forall((e.shape[0],), lambda p, c=c, i=i, j=j: close(r.at(p, c), _as_kind(vpow(e.at(p), i) * vpow(n.at(p), j), kind), 64.0))
        return out


@register
class TrendPredict(Contract):
    functional = True
    target = TR + ":Trend.predict"
    stubs = {"n_1d_arrays": BU + ":n_1d_arrays", "polynomial_power_combinations": TR + ":polynomial_power_combinations"}
    frame_attrs = set()
    cover_raise = True

    def configs(self, tier):
        degs = range(0, 7)
        return [{"degree": d, "rank": 1} for d in degs] + [{"degree": 2, "rank": 2}, {"degree": 1, "rank": 1, "extra": 1}, {"degree": 1, "rank": 1, "fitted": False}]

    def setup(self, B, cfg):
        est = _trend(B, cfg["degree"], cfg.get("fitted", True))
        return (est, _coords(B, cfg["rank"], cfg.get("extra", 0), names=("q_easting", "q_northing"), minsize=0)), {}

    def raises(self, a):
        from sklearn.exceptions import NotFittedError

        return [(NotFittedError, not hasattr(a.self, "coef_"))]

    def havoc(self, a):
        q0 = a.coordinates[0]
        e, n = q0.copy(), a.coordinates[1].copy()
        coef = wrap(a.self.coef_).copy()
        combos = monomials(a.self.degree)
        return new_array(q0.shape, lambda idx: _poly(coef, combos, e.at(*idx), n.at(*idx)), "f")

    def samples(self, rng, nrng, tier):
        import verde

        for d in range(0, 5):
            est = verde.Trend(d)
            est.coef_ = nrng.uniform(-2, 2, (d + 1) * (d + 2) // 2)
            est.region_ = (0, 1, 0, 1)
            yield (est, _rand_coords(rng, nrng, rng.choice([1, 2]), rng.choice([0, 1]), scale=2.0)), {}
        yield (verde.Trend(1), (np.zeros(2), np.zeros(2))), {}

    tol = (1e-10, 1e-10)

    def ensures(self, a, r):
        q0, q1 = a.coordinates[0], a.coordinates[1]
        ok = isinstance(r, SymArr) and r.ndim == q0.ndim
        out = {"prediction_has_the_query_rank": ok}
        if not ok:
            return out
        out["prediction_has_the_query_shape"] = and_(*[x == y for x, y in zip(r.shape, q0.shape)])
        coef = wrap(a.self.coef_)
        combos = monomials(a.self.degree)
        out["value_is_the_polynomial_with_coef_over_the_documented_monomials"] = Forall(q0.shape, lambda *ix: close(r.at(*ix), _poly(coef, combos, q0.at(*ix), q1.at(*ix)), 256.0))
        return out


def _poly(coef, combos, x, y):
    tot = 0
    for c, (i, j) in enumerate(combos):
        tot = tot + vpow(x, i) * vpow(y, j) * coef.at(c)
    return tot


# ------------------------------------------------------------------------------ CheckerBoard

SY = "verde.synthetic"


def vsin(x):
    return spec_trig("sin", x) if is_sym(x) else math.sin(x)


def vcos(x):
    return spec_trig("cos", x) if is_sym(x) else math.cos(x)


def _checker(B, w="default"):
    import verde, verde.synthetic

    est = verde.synthetic.CheckerBoard.__new__(verde.synthetic.CheckerBoard)
    est.amplitude = B.real("amplitude")
    est.region = (B.real("cW"), B.real("cE"), B.real("cS"), B.real("cN"))
    est.w_east = None if w in ("default", "north_only") else B.real("w_east")
    est.w_north = None if w in ("default", "east_only") else B.real("w_north")
    return est


@register
class CheckerBoardPredict(Contract):
    target = SY + ":CheckerBoard.predict"
    frame_attrs = set()

    def configs(self, tier):
        return [{"rank": 1, "w": "default"}, {"rank": 2, "w": "default"}, {"rank": 1, "w": "given"}, {"rank": 1, "w": "default", "extra": 1}, {"rank": 1, "w": "east_only"}, {"rank": 2, "w": "north_only"}]

    def setup(self, B, cfg):
        return (_checker(B, cfg["w"]), _coords(B, cfg["rank"], cfg.get("extra", 0), minsize=0)), {}

    def requires(self, a):
        est = a.self
        w, e, s, n = est.region
        conds = []
        conds.append(est.w_east != 0 if est.w_east is not None else e != w)
        conds.append(est.w_north != 0 if est.w_north is not None else n != s)
        return and_(*conds)

    def samples(self, rng, nrng, tier):
        import verde

        for _ in range(10):
            region = (rng.uniform(-10, 0), rng.uniform(1, 10), rng.uniform(-10, 0), rng.uniform(1, 10))
            kw = rng.choice([{}, {"w_east": rng.uniform(1, 5), "w_north": rng.uniform(1, 5)}, {"w_east": rng.uniform(1, 5)}, {"w_north": rng.uniform(1, 5)}])  # each wavelength defaults on its own
            yield (verde.synthetic.CheckerBoard(amplitude=rng.uniform(1, 100), region=region, **kw), _rand_coords(rng, nrng, rng.choice([1, 2]), 0, scale=10.0)), {}

    tol = (1e-9, 1e-9)

    def ensures(self, a, r):
        est = a.self
        w, e_, s, n_ = est.region
        we = est.w_east if est.w_east is not None else (e_ - w) / 2
        wn = est.w_north if est.w_north is not None else (n_ - s) / 2
        E, N = a.coordinates[0], a.coordinates[1]
        ok = isinstance(r, SymArr) and r.ndim == E.ndim
        out = {"has_the_query_rank": ok}
        if not ok:
            return out
        out["has_the_query_shape"] = and_(*[x == y for x, y in zip(r.shape, E.shape)])
        amp = est.amplitude
        out["amplitude_sin_cos_with_default_wavelengths_of_half_the_region"] = Forall(
            E.shape, lambda *ix: close(r.at(*ix), amp * vsin((2 * math.pi / we) * E.at(*ix)) * vcos((2 * math.pi / wn) * N.at(*ix)), 1e3)
        )
        return out


# ------------------------------------------------------------------------------ SciPy gridders

SG = "verde.scipygridder"


class SymInterpolator:
    """Prelude stand-in for scipy.interpolate.{LinearND,CloughTocher2D,NearestND}Interpolator:
    records what it was built from; calling it is an uninterpreted function of all of that."""

    KIND = "?"

    def __init__(self, points, values, **kwargs):
        ctx().used_prelude.add("scipy.interpolate.%s" % self.KIND)
        self.points, self.values, self.kwargs = as_array(points).copy(), as_array(values).copy(), dict(kwargs)
        self.tag = ctx().fresh_name("interp")

    def __call__(self, xi):
        easting, northing = xi
        e, n = as_array(easting), as_array(northing)
        es, ns = e.snapshot(), n.snapshot()
        name = "%s_%s" % (self.KIND, self.tag)
        self.last_query = (e, n)
        return new_array(e.shape, lambda idx: spec_fn(name, es(*idx), ns(*idx)), "f")


class SymLinear(SymInterpolator):
    KIND = "LinearNDInterpolator"


class SymCubic(SymInterpolator):
    KIND = "CloughTocher2DInterpolator"


class SymNearest(SymInterpolator):
    KIND = "NearestNDInterpolator"


SCIPY_PRELUDE = (("LinearNDInterpolator", SymLinear), ("CloughTocher2DInterpolator", SymCubic), ("NearestNDInterpolator", SymNearest))


def _scipy_estimators(B):
    import verde, verde.synthetic
    import warnings

    out = {}
    for name, cls, kw in (("Linear", verde.Linear, {"rescale": B.bool("rescale")}), ("Cubic", verde.Cubic, {"rescale": B.bool("rescale")})):
        est = cls.__new__(cls)
        est.rescale = kw["rescale"]
        out[name] = est
    for method in ("linear", "cubic", "nearest"):
        est = verde.ScipyGridder.__new__(verde.ScipyGridder)
        est.method, est.extra_args = method, None
        out["ScipyGridder:" + method] = est
    return out


EXPECTED_CLASS = {"Linear": "LinearNDInterpolator", "Cubic": "CloughTocher2DInterpolator", "ScipyGridder:linear": "LinearNDInterpolator", "ScipyGridder:cubic": "CloughTocher2DInterpolator", "ScipyGridder:nearest": "NearestNDInterpolator"}


def _kind_of(obj):
    return getattr(obj, "KIND", type(obj).__name__)


@register
class ScipyFit(Contract):
    target = SG + ":_BaseScipyGridder.fit"
    stubs = {"check_fit_input": BU + ":check_fit_input", "get_region": "verde.coordinates:get_region"}
    prelude = SCIPY_PRELUDE
    inline = ("_get_interpolator",)
    frame_attrs = {"region_", "interpolator_"}

    def configs(self, tier):
        out = []
        for which in EXPECTED_CLASS:
            out.append({"which": which, "rank": 1, "weights": False})
        out += [{"which": "Linear", "rank": 2, "weights": False}, {"which": "Cubic", "rank": 1, "weights": True}]
        return out

    def setup(self, B, cfg):
        est = _scipy_estimators(B)[cfg["which"]]
        est._which = cfg["which"]
        coords = _coords(B, cfg["rank"], 0, minsize=1)
        data = B.array("data", coords[0].shape)
        return (est, coords, data), dict(weights=B.array("w", coords[0].shape) if cfg["weights"] else None)

    def expect_warning(self, a):
        return [("UserWarning", a.weights is not None)]

    def samples(self, rng, nrng, tier):
        import verde

        for cls, which in ((verde.Linear, "Linear"), (verde.Cubic, "Cubic")):
            for rescale in (False, True):
                for rank in (1, 2):
                    arrs = tuple(nrng.uniform(-5, 5, (2, 4)) for _ in range(3)) if rank == 2 else tuple(nrng.uniform(-5, 5, 8) for _ in range(3))
                    est = cls(rescale=rescale)
                    est._which = which
                    yield (est, arrs[:2], arrs[2]), {}

    def ensures(self, a, r):
        est = a.self
        out = {"returns_self": r is est, "fitted_attributes_present": hasattr(est, "interpolator_") and hasattr(est, "region_")}
        if not out["fitted_attributes_present"]:
            return out
        it = est.interpolator_
        out["scipy_class_selected_per_gridder"] = _kind_of(it) == EXPECTED_CLASS[est._which]
        e, n, d = flat(a.coordinates[0]), flat(a.coordinates[1]), flat(a.data)
        if isinstance(it, SymInterpolator):
            pts, vals = it.points, it.values
            if est._which in ("Linear", "Cubic"):
                out["rescale_option_passed_through"] = set(it.kwargs) == {"rescale"} and it.kwargs["rescale"] is est.rescale
            else:
                out["no_extra_arguments"] = it.kwargs == {}
        else:
            raw = np.asarray(it.points, dtype=float)
            if getattr(it, "scale", None) is not None:
                raw = raw * it.scale + it.offset  # scipy stores the rescaled points
            pts, vals = wrap(raw), wrap(np.asarray(it.values, dtype=float).ravel())
            if est._which in ("Linear", "Cubic"):
                # scipy keeps `scale`/`offset` only when rescale=True was requested
                out["rescale_option_passed_through"] = bool(est.rescale) == (getattr(it, "scale", None) is not None)
        out["points_are_the_raveled_easting_northing_pairs_in_order"] = All(
            pts.ndim == 2 and and_(pts.shape[0] == e.shape[0], pts.shape[1] == 2), Forall((e.shape[0],), lambda j: and_(close(pts.at(j, 0), e.at(j), 10.0), close(pts.at(j, 1), n.at(j), 10.0)))
        )
        out["values_are_the_raveled_data_in_the_same_order"] = All(vals.shape[0] == d.shape[0], Forall((d.shape[0],), lambda j: vals.at(j) == d.at(j)))
        return out


@register
class ScipyPredict(Contract):
    target = SG + ":_BaseScipyGridder.predict"
    frame_attrs = set()
    cover_raise = True

    def configs(self, tier):
        return [{"rank": 1}, {"rank": 2}, {"rank": 1, "extra": 1}, {"rank": 1, "fitted": False}]

    def setup(self, B, cfg):
        import verde

        est = verde.Linear.__new__(verde.Linear)
        est.rescale = False
        if cfg.get("fitted", True):
            n = B.dim("n_data", 1)
            est.interpolator_ = SymLinear(B.array("pts", (n, 2)), B.array("vals", (n,)), rescale=False)
            est.region_ = (B.real("fW"), B.real("fE"), B.real("fS"), B.real("fN"))
        return (est, _coords(B, cfg["rank"], cfg.get("extra", 0), names=("q_easting", "q_northing"), minsize=0)), {}

    def raises(self, a):
        from sklearn.exceptions import NotFittedError

        return [(NotFittedError, not hasattr(a.self, "interpolator_"))]

    def samples(self, rng, nrng, tier):
        import verde

        for cls in (verde.Linear, verde.Cubic):
            arrs = tuple(nrng.uniform(-5, 5, 12) for _ in range(3))
            est = cls().fit(arrs[:2], arrs[2])
            yield (est, _rand_coords(rng, nrng, rng.choice([1, 2]), 0, scale=3.0)), {}
        yield (verde.Linear(), (np.zeros(2), np.zeros(2))), {}

    def ensures(self, a, r):
        est = a.self
        E, N = a.coordinates[0], a.coordinates[1]
        it = est.interpolator_
        ok = isinstance(r, SymArr) and r.ndim == E.ndim
        out = {"has_the_query_rank": ok}
        if not ok:
            return out
        out["has_the_query_shape"] = and_(*[x == y for x, y in zip(r.shape, E.shape)])
        if isinstance(it, SymInterpolator):
            name = "%s_%s" % (it.KIND, it.tag)
            out["value_is_the_stored_interpolator_at_easting_northing"] = Forall(E.shape, lambda *ix: r.at(*ix) == spec_fn(name, E.at(*ix), N.at(*ix)))
        else:
            from pyvc.concrete import unwrap

            ref = np.asarray(it((unwrap(E), unwrap(N))))
            out["value_is_the_stored_interpolator_at_easting_northing"] = bool(np.array_equal(unwrap(r), ref, equal_nan=True))
        return out
