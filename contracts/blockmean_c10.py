"""Sidecar contracts for property C10: variance_to_weights and BlockMean."""
import numpy as np

from pyvc.arr import SymArr, as_array, havoc_array, new_array
from pyvc.concrete import unwrap, wrap
from pyvc.contract import Contract, register
from pyvc.core import and_, ctx, iff, implies, is_sym, not_, or_
from pyvc.spec import All, AnyOf, Exists, ExistsInt, Forall, Imp, close

from .base_utils import _tup

UT = "verde.utils"


def at1d(v):
    """np.atleast_1d view of an input (scalars become length-1 arrays)."""
    a = as_array(v)
    return a.reshape((1,)) if a.ndim == 0 else a


@register
class VarianceToWeights(Contract):
    target = UT + ":variance_to_weights"
    inline = ("check_data",)

    def configs(self, tier):
        return [{"ncomp": 1, "rank": 1, "nan": True}, {"ncomp": 1, "rank": 2, "nan": True}, {"ncomp": 2, "rank": 1, "nan": True}, {"ncomp": 3, "rank": 1, "nan": False}, {"ncomp": 1, "rank": 1, "nan": True, "tol": True}]

    def setup(self, B, cfg):
        arrs = tuple(B.array("var%d" % k, tuple(B.dim("n%d_%d" % (k, d), 1) for d in range(cfg["rank"])), nan=cfg["nan"]) for k in range(cfg["ncomp"]))
        kw = {"tol": B.real("tol")} if cfg.get("tol") else {}
        return (arrs if cfg["ncomp"] > 1 else arrs[0],), kw

    def requires(self, a):
        conds = [a.tol >= 0]
        for v in _tup(a.variance):
            v = at1d(v)
            conds.append(Forall(v.shape, lambda *i, v=v: or_(v.nan_at(*i), v.at(*i) >= 0)))
        return All(*conds)

    def havoc(self, a):
        outs = []
        for v in _tup(a.variance):
            v = at1d(v)
            outs.append(havoc_array("v2w", v.shape, "f"))
        return tuple(outs) if (isinstance(a.variance, tuple) and len(outs) > 1) else outs[0]

    def samples(self, rng, nrng, tier):
        for _ in range(40 if tier == "thorough" else 12):
            def one():
                shape = (rng.randint(1, 6),) if rng.random() < 0.6 else (rng.randint(1, 3), rng.randint(1, 4))
                v = nrng.uniform(0, 5, shape) * rng.choice([1.0, 1e-12, 1e6])
                for _ in range(rng.randint(0, 2)):
                    v.flat[rng.randrange(v.size)] = rng.choice([0.0, np.nan, 1e-16, 1e-300])
                return v

            k = rng.randint(1, 3)
            yield (tuple(one() for _ in range(k)) if k > 1 else one(),), {}
        ro = np.array([1.0, np.nan, 4.0])
        ro.setflags(write=False)
        yield (ro,), {}
        yield (3.0,), {}

    def ensures(self, a, r):
        vin = _tup(a.variance)
        multi = isinstance(a.variance, tuple) and len(vin) > 1
        rr = r if isinstance(r, tuple) else (r,)
        out = {"tuple_in_tuple_out": (isinstance(r, tuple) and len(r) == len(vin)) if multi else isinstance(r, SymArr)}
        if not out["tuple_in_tuple_out"]:
            return out
        for k, (v0, w) in enumerate(zip(vin, rr)):
            v = at1d(a.old.variance[k] if isinstance(a.old.variance, tuple) else a.old.variance)
            tag = "component%d." % k if multi else ""
            out[tag + "shape_preserved"] = w.ndim == v.ndim and and_(*[x == y for x, y in zip(w.shape, v.shape)])
            if w.ndim != v.ndim:
                continue
            positive = lambda *i, v=v: and_(not_(v.nan_at(*i)), v.at(*i) > a.tol)
            out[tag + "weight_one_where_variance_at_or_below_tolerance_or_nan"] = Forall(v.shape, lambda *i, v=v, w=w, positive=positive: implies(not_(positive(*i)), w.at(*i) == 1))
            # min-positive-variance / variance elsewhere: w_i * var_i is one common value m, the smallest variance above tol
            out[tag + "weight_is_smallest_positive_variance_over_variance"] = Forall(
                tuple(v.shape) + tuple(v.shape),
                lambda *ij, v=v, w=w, positive=positive: (lambda i, j: implies(and_(positive(*i), positive(*j)), and_(close(w.at(*i) * v.at(*i), w.at(*j) * v.at(*j), _vs(v, i, j)), implies(v.at(*i) <= v.at(*j), w.at(*i) >= w.at(*j)))))(ij[: v.ndim], ij[v.ndim :]),
            )
            out[tag + "weights_in_the_half_open_unit_interval"] = Forall(v.shape, lambda *i, w=w: and_(w.at(*i) > 0, w.at(*i) <= 1))
            out[tag + "some_weight_equals_one"] = AnyOf(Exists(v.shape, lambda *i, w=w: close(w.at(*i), 1, 1.0)), close(w.at(*([0] * v.ndim)), 1, 1.0))
        return out


def _vs(v, i, j):
    if is_sym(v.at(*i)):
        return 1.0
    return max(abs(float(v.at(*i))), abs(float(v.at(*j))), 1e-300)
