"""Sidecar contracts for property C13: regions, bounds and point-in-region tests."""
import z3

from pyvc import spec as S
from pyvc.arr import SymArr, havoc_array, new_array
from pyvc.contract import Contract, register
from pyvc.core import SymNum, and_, ctx, iff, implies, is_sym, ite, not_, or_, spec_fn
from pyvc.spec import All, AnyOf, Exists, Forall, Imp, close, ge, le

from .coordinates_c07 import M, _extra_values, _n_extra, _region_of, _scale

import numpy as np


def _coords(B, rank, n_extra=0, names=("easting", "northing"), minsize=1, kind="f"):
    dims = tuple(B.dim("n%d" % k, minsize) for k in range(rank))
    out = [B.array(names[0], dims, kind), B.array(names[1], dims, kind)]
    for k in range(n_extra):
        out.append(B.array("extra%d" % k, dims))
    return tuple(out)


def _rand_coords(rng, nrng, rank, n_extra=0, scale=100.0, offset=0.0):
    shape = (rng.randint(1, 7),) if rank == 1 else (rng.randint(1, 4), rng.randint(1, 5))
    return tuple(offset + scale * (nrng.uniform(-1, 1, shape)) for _ in range(2 + n_extra))


@register
class GetRegion(Contract):
    target = M + ":get_region"

    def configs(self, tier):
        out = [{"rank": 1, "extra": 0}, {"rank": 2, "extra": 0}, {"rank": 1, "extra": 1}]
        if tier == "thorough":
            out += [{"rank": 3, "extra": 0}, {"rank": 2, "extra": 2}]
        return out

    def setup(self, B, cfg):
        return (_coords(B, cfg["rank"], cfg["extra"]),), {}

    def requires(self, a):
        e, n = a.coordinates[0], a.coordinates[1]
        return and_(e.size >= 1, n.size >= 1)

    def havoc(self, a):
        c = ctx()
        return tuple(c.fresh(nm, "real") for nm in ("regW", "regE", "regS", "regN"))

    def samples(self, rng, nrng, tier):
        for _ in range(100 if tier == "thorough" else 30):
            yield (_rand_coords(rng, nrng, rng.choice([1, 2]), rng.choice([0, 1]), offset=rng.choice([0.0, 1e6])),), {}

    def ensures(self, a, r):
        e, n = a.coordinates[0], a.coordinates[1]
        ok = isinstance(r, tuple) and len(r) == 4
        out = {"returns_4_tuple": ok}
        if not ok:
            return out
        W, E, S_, N = r
        out["west_is_tight_lower_bound_of_easting"] = All(Forall(e.shape, lambda *i: W <= e.at(*i)), Exists(e.shape, lambda *i: W == e.at(*i)))
        out["east_is_tight_upper_bound_of_easting"] = All(Forall(e.shape, lambda *i: E >= e.at(*i)), Exists(e.shape, lambda *i: E == e.at(*i)))
        out["south_is_tight_lower_bound_of_northing"] = All(Forall(n.shape, lambda *i: S_ <= n.at(*i)), Exists(n.shape, lambda *i: S_ == n.at(*i)))
        out["north_is_tight_upper_bound_of_northing"] = All(Forall(n.shape, lambda *i: N >= n.at(*i)), Exists(n.shape, lambda *i: N == n.at(*i)))
        return out


@register
class PadRegion(Contract):
    target = M + ":pad_region"

    def configs(self, tier):
        return [{"pad": "scalar"}, {"pad": "pair"}, {"pad": "list"}]

    def setup(self, B, cfg):
        pad = {"scalar": lambda: B.real("pad"), "pair": lambda: (B.real("pad_n"), B.real("pad_e")), "list": lambda: [B.real("pad_n"), B.real("pad_e")]}[cfg["pad"]]()
        return (_region_of(B), pad), {}

    def havoc(self, a):
        c = ctx()
        return tuple(c.fresh(nm, "real") for nm in ("padW", "padE", "padS", "padN"))

    def samples(self, rng, nrng, tier):
        for _ in range(40):
            w, s_ = rng.uniform(-1e3, 1e3), rng.uniform(-1e3, 1e3)
            region = (w, w + rng.uniform(0, 10), s_, s_ + rng.uniform(0, 10))
            yield (region, rng.choice([rng.uniform(-3, 3), (rng.uniform(-3, 3), rng.uniform(-3, 3))])), {}

    def ensures(self, a, r):
        w, e, s, n = a.region
        if isinstance(a.pad, (tuple, list)):
            pn, pe = a.pad[0], a.pad[1]
        else:
            pn = pe = a.pad
        ok = isinstance(r, tuple) and len(r) == 4
        out = {"returns_4_tuple": ok}
        if ok:
            sc = _scale(w, e, s, n)
            out["each_bound_moves_outwards_by_north_east_pads"] = and_(close(r[0], w - pe, sc), close(r[1], e + pe, sc), close(r[2], s - pn, sc), close(r[3], n + pn, sc))
        return out


@register
class Inside(Contract):
    target = M + ":inside"
    stubs = {"check_region": M + ":check_region"}
    cover_raise = True

    def configs(self, tier):
        out = [{"rank": 1, "extra": 0}, {"rank": 2, "extra": 0}, {"rank": 1, "extra": 1}, {"rank": 1, "extra": 0, "int": True}, {"rank": 1, "extra": 0, "nan": True}, {"rank": 2, "extra": 1, "nan": True}]
        if tier == "thorough":
            out += [{"rank": 3, "extra": 0}]
        return out

    def setup(self, B, cfg):
        dims = tuple(B.dim("n%d" % k, 0) for k in range(cfg["rank"]))
        kind = "i" if cfg.get("int") else "f"  # integer-dtype coordinates against real-valued (fractional) bounds
        nan = bool(cfg.get("nan"))  # missing coordinates (NaN) are in no box: every comparison with NaN is False
        coords = [B.array("easting", dims, kind=kind, nan=nan), B.array("northing", dims, kind=kind, nan=nan)] + [B.array("extra%d" % k, dims, nan=nan) for k in range(cfg["extra"])]
        return (tuple(coords), _region_of(B)), {}

    def raises(self, a):
        w, e, s, n = a.region
        return [(ValueError, or_(w > e, s > n))]

    def havoc(self, a):
        return havoc_array("inside", a.coordinates[0].shape, "b")

    def samples(self, rng, nrng, tier):
        for _ in range(100 if tier == "thorough" else 30):
            coords = _rand_coords(rng, nrng, rng.choice([1, 2]), rng.choice([0, 1]), scale=10.0)
            region = [-5.0, 5.0, -2.0, 7.0]
            # put some points exactly on the boundary
            coords[0].flat[0] = region[rng.choice([0, 1])]
            coords[1].flat[-1] = region[rng.choice([2, 3])]
            yield (coords, region), {}
        yield ((np.zeros(3), np.zeros(3)), [1.0, 0.0, 0.0, 1.0]), {}
        for _ in range(4):  # missing (NaN) and infinite coordinates
            coords = [np.array(c) for c in _rand_coords(rng, nrng, rng.choice([1, 2]), 0, scale=6.0)]
            for c in coords:
                if c.size > 1:
                    c.flat[rng.randrange(c.size)] = rng.choice([np.nan, np.nan, np.inf, -np.inf])
            yield (tuple(coords), rng.choice([[-5.0, 5.0, -2.0, 7.0], [0.0, 0.0, 1.0, 1.0]])), {}
        yield ((np.array([np.nan, 0.0, 1.0]), np.array([0.5, np.nan, 0.5])), (-1.0, 2.0, 0.0, 1.0)), {}
        for dt in ("int64", "int32", "float32"):  # other coordinate dtypes, fractional bounds
            ce, cn = np.meshgrid(np.arange(-2, 7), np.arange(-1, 6))
            yield ((ce.astype(dt), cn.astype(dt)), (0.5, 4.75, 0.25, 3.5)), {}
            yield ((ce.ravel().astype(dt), cn.ravel().astype(dt)), (-1.5, 4.25, -0.75, 4.5)), {}

    def ensures(self, a, r):
        e, n = a.coordinates[0], a.coordinates[1]
        W, E, S_, N = a.region
        ok = isinstance(r, SymArr) and r.kind == "b" and r.ndim == e.ndim
        out = {"boolean_array_of_input_rank": ok}
        if not ok:
            return out
        out["same_shape_as_input"] = and_(*[x == y for x, y in zip(r.shape, e.shape)]) if r.ndim else True
        out["closed_box_predicate_elementwise"] = Forall(
            e.shape, lambda *i: iff(r.at(*i), and_(not_(e.nan_at(*i)), not_(n.nan_at(*i)), W <= e.at(*i), e.at(*i) <= E, S_ <= n.at(*i), n.at(*i) <= N))
        )
        return out


@register
class ScatterPoints(Contract):
    target = M + ":scatter_points"
    stubs = {"check_region": M + ":check_region"}
    cover_raise = True

    def configs(self, tier):
        return [{"seed": "int", "extra": None}, {"seed": "none", "extra": None}, {"seed": "int", "extra": "one"}, {"seed": "int", "extra": "two"}]

    def setup(self, B, cfg):
        seed = B.int("seed") if cfg["seed"] == "int" else None
        extra = {None: None, "one": B.real("x0"), "two": [B.real("x0"), B.real("x1")]}[cfg["extra"]]
        return (_region_of(B), B.int("size")), dict(random_state=seed, extra_coords=extra)

    def requires(self, a):
        return a.size >= 0

    def raises(self, a):
        w, e, s, n = a.region
        return [(ValueError, or_(w > e, s > n))]

    def havoc(self, a):
        outs = [havoc_array("scatE", (a.size,), "f"), havoc_array("scatN", (a.size,), "f")]
        for k in range(_n_extra(a.extra_coords)):
            outs.append(havoc_array("scatX%d" % k, (a.size,), "f"))
        return tuple(outs)

    def samples(self, rng, nrng, tier):
        for _ in range(60 if tier == "thorough" else 20):
            w, s_ = rng.uniform(-1e3, 1e3), rng.uniform(-1e3, 1e3)
            region = (w, w + rng.choice([0.0, 1e-9, 5.0]), s_, s_ + rng.choice([0.0, 3.0, 1e3]))
            yield (region, rng.choice([0, 1, 5, 200])), dict(random_state=rng.randint(0, 10**6), extra_coords=rng.choice([None, 3.0, [1.0, 2.0]]))

    def ensures(self, a, r):
        W, E, S_, N = a.region
        nx = _n_extra(a.extra_coords)
        ok = isinstance(r, tuple) and len(r) == 2 + nx and all(isinstance(x, SymArr) and x.ndim == 1 for x in r)
        out = {"tuple_of_2_plus_extras_1d": ok}
        if not ok:
            return out
        out["size_points"] = and_(*[x.shape[0] == a.size for x in r])
        out["easting_within_west_east"] = Forall((a.size,), lambda i: and_(W <= r[0].at(i), r[0].at(i) <= E))
        out["northing_within_south_north"] = Forall((a.size,), lambda i: and_(S_ <= r[1].at(i), r[1].at(i) <= N))
        for k, v in enumerate(_extra_values(a.extra_coords)):
            out["extra%d_constant" % k] = Forall((a.size,), lambda i, k=k, v=v: r[2 + k].at(i) == v)
        return out


def lemma_scatter_points_reproducible(region, size, seed, extra):
    """Self-composition on the REAL scatter_points: two calls with the same arguments."""
    import verde.coordinates as vc

    return vc.scatter_points(region, size, random_state=seed, extra_coords=extra), vc.scatter_points(region, size, random_state=seed, extra_coords=extra)


@register
class LemmaScatterReproducible(Contract):
    target = "contracts.coordinates_c13:lemma_scatter_points_reproducible"
    native_replay = False

    def configs(self, tier):
        return [{"extra": None}, {"extra": "one"}]

    def patch_modules(self, P):
        import verde.coordinates as vc
        from pyvc.contract import default_patches

        default_patches(P, vc)

    def setup(self, B, cfg):
        extra = {None: None, "one": B.real("x0")}[cfg["extra"]]
        return (_region_of(B), B.int("size"), B.int("seed"), extra), {}

    def requires(self, a):
        w, e, s, n = a.region
        return and_(a.size >= 0, w <= e, s <= n)

    def ensures(self, a, r):
        first, second = r
        out = {"history.same_number_of_arrays": len(first) == len(second)}
        for k, (x, y) in enumerate(zip(first, second)):
            out["history.array%d_identical" % k] = All(x.shape[0] == y.shape[0], Forall(x.shape, lambda i, x=x, y=y: x.at(i) == y.at(i)))
        return out


# ---------------------------------------------------------------------------- project_region


class SymProjection:
    """An arbitrary projection: two uninterpreted functions applied point-wise."""

    def __init__(self, tag="proj"):
        self.tag = tag

    def point(self, x, y):
        return spec_fn(self.tag + "_x", x, y), spec_fn(self.tag + "_y", x, y)

    def __call__(self, easting, northing, inverse=False):
        tag = self.tag + ("_inv" if inverse else "")
        if not isinstance(easting, SymArr):
            return spec_fn(tag + "_x", easting, northing), spec_fn(tag + "_y", easting, northing)
        es, ns = easting.snapshot(), northing.snapshot()
        shape = easting.shape
        px = new_array(shape, lambda idx: spec_fn(tag + "_x", es(*idx), ns(*idx)), "f")
        py = new_array(shape, lambda idx: spec_fn(tag + "_y", es(*idx), ns(*idx)), "f")
        return px, py


def _concrete_projection(kind):
    if kind == "affine":
        return lambda e, n: (2.0 * e + 10.0, -3.0 * n + 1.0)
    if kind == "swirl":
        return lambda e, n: (e * np.cos(n / 7.0) + 0.1 * n, n + np.sin(e / 5.0) * 3.0)
    return lambda e, n: (e**3 / 100.0, np.arctan(n))


@register
class ProjectRegion(Contract):
    target = "verde.projections:project_region"
    stubs = {"grid_coordinates": M + ":grid_coordinates"}

    def setup(self, B, cfg):
        return (_region_of(B), SymProjection()), {}

    def requires(self, a):
        w, e, s, n = a.region
        return and_(w <= e, s <= n)

    def havoc(self, a):
        c = ctx()
        return tuple(c.fresh(nm, "real") for nm in ("prW", "prE", "prS", "prN"))

    def samples(self, rng, nrng, tier):
        for kind in ("affine", "swirl", "cubic"):
            for _ in range(8 if tier == "thorough" else 3):
                w, s_ = rng.uniform(-50, 50), rng.uniform(-50, 50)
                yield ((w, w + rng.uniform(0, 30), s_, s_ + rng.uniform(0, 30)), _concrete_projection(kind)), {}

    def ensures(self, a, r):
        w, e, s, n = a.region
        ok = isinstance(r, tuple) and len(r) == 4
        out = {"returns_4_tuple": ok}
        if not ok:
            return out
        proj = a.projection

        def node(p):
            if is_sym(p):
                i, j = SymNum(p.t / 101, "int"), SymNum(p.t % 101, "int")
            else:
                i, j = p // 101, p % 101
            x = w + j * (e - w) / 100
            y = s + i * (n - s) / 100
            if isinstance(proj, SymProjection):
                return proj.point(x, y)
            px, py = proj(np.array([float(x)]), np.array([float(y)]))
            return float(px[0]), float(py[0])

        sc = 1.0
        out["west_east_bound_the_projected_101x101_nodes"] = Forall((101 * 101,), lambda p: and_(le(r[0], node(p)[0], sc), ge(r[1], node(p)[0], sc)))
        out["south_north_bound_the_projected_101x101_nodes"] = Forall((101 * 101,), lambda p: and_(le(r[2], node(p)[1], sc), ge(r[3], node(p)[1], sc)))
        out["west_attained"] = Exists((101 * 101,), lambda p: close(r[0], node(p)[0], sc))
        out["east_attained"] = Exists((101 * 101,), lambda p: close(r[1], node(p)[0], sc))
        out["south_attained"] = Exists((101 * 101,), lambda p: close(r[2], node(p)[1], sc))
        out["north_attained"] = Exists((101 * 101,), lambda p: close(r[3], node(p)[1], sc))
        return out


# ---------------------------------------------------------------------------- maxabs


@register
class MaxAbs(Contract):
    target = "verde.utils:maxabs"

    def configs(self, tier):
        out = []
        for nan in (True, False):
            out += [{"arrays": (1,), "nan": nan}, {"arrays": (1, 2), "nan": nan}, {"arrays": (2, 1, 1), "nan": nan}, {"arrays": (0,), "nan": nan}]
        return out

    def setup(self, B, cfg):
        args = []
        for k, rank in enumerate(cfg["arrays"]):
            if rank == 0:
                args.append(B.real("scalar%d" % k))
            else:
                args.append(B.array("arr%d" % k, tuple(B.dim("n%d_%d" % (k, d), 1) for d in range(rank))))
        return tuple(args), dict(nan=cfg["nan"])

    def samples(self, rng, nrng, tier):
        for _ in range(30):
            arrs = [nrng.uniform(-10, 10, (rng.randint(1, 4),) if rng.random() < 0.5 else (rng.randint(1, 3), rng.randint(1, 3))) for _ in range(rng.randint(1, 3))]
            yield tuple(arrs), dict(nan=rng.random() < 0.5)
        yield (np.array([1.0, -5.0]), 3.0), {}
        # integer dtypes: unsigned (no negation is meaningful), small signed (above the dtype minimum: F12), mixed with floats
        for dt in ("uint8", "uint16", "uint64", "int8", "int16", "int64"):
            info = np.iinfo(dt)
            lo, hi = max(info.min + 1, -1000), min(info.max, 1000)
            arrs = [nrng.randint(lo, hi + 1, rng.randint(1, 5)).astype(dt) for _ in range(rng.randint(1, 2))]
            if rng.random() < 0.4:
                arrs.append(nrng.uniform(-3, 3, 2))
            yield tuple(arrs), dict(nan=rng.random() < 0.5)

    def ensures(self, a, r):
        arrs = [x if isinstance(x, SymArr) else None for x in a.args]
        out = {}
        alts = []
        for k, x in enumerate(a.args):
            if isinstance(x, SymArr):
                out["bounds_every_abs_value_of_array%d" % k] = Forall(x.shape, lambda *i, x=x: and_(r >= x.at(*i), r >= -x.at(*i)))
            else:
                out["bounds_abs_of_scalar%d" % k] = and_(r >= x, r >= -x)
        # attained: some element of some array has |x| == r
        def attained():
            parts = []
            for x in a.args:
                if isinstance(x, SymArr):
                    parts.append(Exists(x.shape, lambda *i, x=x: or_(r == x.at(*i), r == -x.at(*i))))
                else:
                    parts.append(or_(r == x, r == -x))
            return parts

        out["attained_by_some_element"] = AnyOf(*attained())
        return out
