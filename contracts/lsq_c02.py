"""Sidecar contracts for property C02: least_squares and the fit methods that feed it."""
import numpy as np

from pyvc.arr import SymArr, as_array, flat_index, havoc_array, new_array
from pyvc.concrete import aliases, unwrap, wrap
from pyvc.contract import REGISTRY, Args, Contract, register
from pyvc.core import and_, ctx, div, implies, is_sym, ite, not_, or_
from pyvc.prelude_sk import SymLinearRegression, SymRidge, SymStandardScaler
from pyvc.spec import All, Forall, Imp, close

from .base_utils import _tup
from .blocks_c08 import BU, flat
from .coordinates_c07 import M
from .coordinates_c13 import _coords, _rand_coords
from .models_c03 import monomials, vpow
from .spline_c03 import kernel
from .vector_c03 import elastic_kernels

LS = "verde.base.least_squares"


def LSQ_NONSINGULAR():
    """Uninterpreted hypothesis 'the (square) least-squares system is nonsingular'."""
    import z3
    from pyvc.core import SymBool

    return SymBool(z3.Bool("lsq_system_is_nonsingular"))


def reference_lsq(J, d, w, damping):
    """Independent numpy solution of  min sum w (J p - d)^2 + damping * |S p|^2,  S = column std (0 -> 1)."""
    J = np.asarray(J, dtype=float)
    d = np.asarray(d, dtype=float).ravel()
    S = J.std(axis=0)
    S[S == 0] = 1.0
    X = J / S
    W = np.ones(d.size) if w is None else np.asarray(w, dtype=float).ravel()
    A = X.T @ (W[:, None] * X)
    b = X.T @ (W * d)
    if damping is not None:
        A = A + damping * np.eye(A.shape[0])
        q = np.linalg.solve(A, b)
    else:
        q = np.linalg.lstsq(np.sqrt(W)[:, None] * X, np.sqrt(W) * d, rcond=None)[0]
    return q / S, np.linalg.cond(np.sqrt(W)[:, None] * X)


@register
class LeastSquares(Contract):
    target = LS + ":least_squares"
    prelude = (("StandardScaler", SymStandardScaler), ("LinearRegression", SymLinearRegression), ("Ridge", SymRidge))

    def configs(self, tier):
        out = []
        for damping in (False, True):
            for weights in (False, True):
                for copy in (False, True):
                    out.append({"damping": damping, "weights": weights, "copy": copy, "drank": 1})
        out.append({"damping": True, "weights": True, "copy": False, "drank": 2})
        return out

    def setup(self, B, cfg):
        nd, npar = B.dim("ndata", 1), B.dim("nparams", 1)
        jac = B.array("jacobian", (nd, npar))
        data = B.array("data", (nd,)) if cfg["drank"] == 1 else B.array("data", (B.dim("d0", 1), B.dim("d1", 1)))
        w = B.array("weights", (nd,)) if cfg["weights"] else None
        return (jac, data, w), dict(damping=B.real("damping") if cfg["damping"] else None, copy_jacobian=cfg["copy"])

    def requires(self, a):
        return and_(flat(a.data).shape[0] == a.jacobian.shape[0], a.damping > 0 if a.damping is not None else True)

    def may_write(self, a):
        return [] if a.copy_jacobian else [a.jacobian]

    def expect_warning(self, a):
        return [("UserWarning", a.jacobian.shape[0] < a.jacobian.shape[1])]

    def havoc(self, a):
        r = havoc_array("lsq_params", (a.jacobian.shape[1],), "f")
        r.lsq_call = a
        return r

    def samples(self, rng, nrng, tier):
        for _ in range(40 if tier == "thorough" else 15):
            nd, npar = rng.randint(4, 12), rng.randint(1, 4)
            J = nrng.uniform(-3, 3, (nd, npar)) * nrng.uniform(0.1, 100, npar)
            d = nrng.uniform(-5, 5, nd)
            w = rng.choice([None, nrng.uniform(0.1, 3, nd), np.full(nd, rng.choice([0.01, 1.0, 250.0]))])
            yield (J.copy(), d, w), dict(damping=rng.choice([None, 1e-8, 1e-3, 1.0, 100.0]), copy_jacobian=rng.random() < 0.5)

    tol = (1e-6, 1e-8)

    def ensures(self, a, r):
        c = ctx()
        J0 = a.old.jacobian
        ok = isinstance(r, SymArr) and r.ndim == 1
        out = {"parameters_are_1d": ok}
        if not ok:
            return out
        out["one_parameter_per_column"] = r.shape[0] == J0.shape[1]
        if c.stub_mode:
            # callers read WHAT was solved off the recorded call. One mathematical fact about the optimum is
            # offered (ASSUMED, used by the exactness lemmas of C01): an undamped solve of a square,
            # nonsingular system reproduces the data exactly, J p = d.
            if a.damping is None and not c.concrete:
                from pyvc.sums import PartialSum

                J, d = a.jacobian, flat(a.data)
                ps = PartialSum("Jp", (J.shape[0],), J.shape[1], lambda p, t: J.at(p, t) * r.at(t))
                c.ghost.setdefault("lsq_ps", []).append(ps)
                out["ASSUMED.square_nonsingular_undamped_solve_is_exact"] = Imp(and_(J.shape[0] == J.shape[1], LSQ_NONSINGULAR()), Forall((J.shape[0],), lambda p: ps.total(p) == d.at(p)))
            return out
        if c.concrete:
            ref, cond = reference_lsq(unwrap(J0), unwrap(flat(a.data)), None if a.weights is None else unwrap(a.weights), a.damping)
            if cond < 1e6:
                scale = float(np.abs(ref).max() + 1e-30)
                out["equals_the_weighted_damped_optimum_in_unit_variance_column_scaling"] = all(abs(r.at(k) - ref[k]) <= 1e-6 * scale * max(cond, 1.0) for k in range(int(r.shape[0])))
            return out
        sc = c.ghost.get("sklearn.scaler", [])
        rg = c.ghost.get("sklearn.regressor", [])
        out["one_scaler_and_one_regression"] = len(sc) == 1 and len(rg) == 1
        if not out["one_scaler_and_one_regression"]:
            return out
        sc, rg = sc[0], rg[0]
        out["columns_scaled_by_their_std_without_centering"] = sc.with_std is True and sc.with_mean is False and sc.copy is a.copy_jacobian
        S_ = sc.scale_
        fitted = sc.fitted_on
        out["scaler_sees_the_given_jacobian"] = All(and_(fitted.shape[0] == J0.shape[0], fitted.shape[1] == J0.shape[1]), Forall(J0.shape, lambda i, k: fitted.at(i, k) == J0.at(i, k)))
        out["ols_iff_no_damping_else_ridge_with_alpha_equal_damping"] = (rg.KIND == "LinearRegression" and a.damping is None) or (rg.KIND == "Ridge" and a.damping is not None and rg.alpha is a.damping)
        out["no_intercept"] = rg.fit_intercept is False and not rg.extra
        X = rg.X_snapshot
        out["regression_design_is_the_scaled_jacobian"] = All(
            and_(X.shape[0] == J0.shape[0], X.shape[1] == J0.shape[1]), Forall(J0.shape, lambda i, k: X.at(i, k) * S_.at(k) == J0.at(i, k))
        )
        d = flat(a.data)
        out["regression_target_is_the_raveled_data"] = All(rg.y_snapshot.shape[0] == d.shape[0], Forall(d.shape, lambda i: rg.y_snapshot.at(i) == d.at(i)))
        if a.weights is None:
            out["no_sample_weights"] = rg.sample_weight is None
        else:
            wv = rg.w_snapshot
            out["sample_weights_are_the_given_weights"] = wv is not None and All(wv.shape[0] == a.weights.shape[0], Forall(a.weights.shape, lambda i: wv.at(i) == a.weights.at(i)))
        coef = rg.coef_
        out["parameters_are_coefficients_divided_by_the_column_scale"] = Forall(r.shape, lambda k: r.at(k) * S_.at(k) == coef.at(k))
        if a.copy_jacobian:
            out["callers_jacobian_untouched_when_copy_requested"] = Forall(J0.shape, lambda i, k: a.jacobian.at(i, k) == J0.at(i, k))
        return out


# ------------------------------------------------------------------ fit methods (wiring)


def _ls_call():
    g = ctx().ghost.get(LS + ":least_squares", [])
    return g[-1] if len(g) == 1 else None


def _raveled_weights_match(wgiven, warg):
    if wgiven is None:
        return warg is None
    if warg is None:
        return False
    f = flat(wgiven)
    return All(warg.ndim == 1 and warg.shape[0] == f.shape[0], Forall(f.shape, lambda i: warg.at(i) == f.at(i)))


def _data_match(dgiven, darg):
    f, g = flat(dgiven), flat(darg)
    return All(g.shape[0] == f.shape[0], Forall(f.shape, lambda i: g.at(i) == f.at(i)))


def _region_clauses(out, est, coords, raveled=False):
    """region_ is the tight bounding box of the data coordinates (clauses of get_region's contract).
    `raveled` only selects the index form in which the clause is phrased (flat or natural index)."""
    cc = (flat(coords[0]), flat(coords[1])) if raveled else (coords[0], coords[1])
    reg = REGISTRY[M + ":get_region"].ensures(Args({"coordinates": cc}), tuple(wrap(tuple(est.region_))))
    for k, f in reg.items():
        out["region_." + k] = f


@register
class TrendFit(Contract):
    target = "verde.trend:Trend.fit"
    stubs = {"check_fit_input": BU + ":check_fit_input", "n_1d_arrays": BU + ":n_1d_arrays", "get_region": M + ":get_region", "Trend.jacobian": "verde.trend:Trend.jacobian", "least_squares": LS + ":least_squares"}
    frame_attrs = {"region_", "coef_"}

    def configs(self, tier):
        return [{"degree": 1, "rank": 1, "weights": False}, {"degree": 2, "rank": 2, "weights": True}, {"degree": 0, "rank": 1, "weights": True}, {"degree": 3, "rank": 1, "weights": False, "extra": 1}]

    def setup(self, B, cfg):
        import verde

        est = verde.Trend.__new__(verde.Trend)
        est.degree = cfg["degree"]
        coords = _coords(B, cfg["rank"], cfg.get("extra", 0), minsize=1)
        return (est, coords, B.array("data", coords[0].shape)), dict(weights=B.array("weights", coords[0].shape) if cfg["weights"] else None)

    def samples(self, rng, nrng, tier):
        import verde

        for deg in range(0, 4):
            arrs = _rand_coords(rng, nrng, 2, 2, scale=2.0)
            while arrs[0].size < 12:
                arrs = _rand_coords(rng, nrng, 2, 2, scale=2.0)
            arrs = tuple(np.tile(x, (2, 3)) + nrng.uniform(-1, 1, (x.shape[0] * 2, x.shape[1] * 3)) for x in arrs)
            yield (verde.Trend(deg), arrs[:2], arrs[2]), dict(weights=rng.choice([None, np.abs(arrs[3]) + 0.1]))
        # integer and mixed dtypes (coordinates / data), with fractional float weights
        for deg, kinds in ((1, "iii"), (2, "ifi"), (1, "fii"), (1, "iif")):
            n = 30
            e, nn_ = nrng.permutation(60)[:n].astype(float), nrng.permutation(60)[:n].astype(float)
            if kinds[1] == "f":
                nn_ = nn_ + nrng.uniform(0.1, 0.9, n)
            if kinds[0] == "f":
                e = e + nrng.uniform(0.1, 0.9, n)
            d = np.round(3 + 2 * e - 5 * nn_ + nrng.normal(0, 2, n))
            cast = lambda x, k: x.astype("int64") if k == "i" else x  # noqa: E731
            yield (verde.Trend(deg), (cast(e, kinds[0]), cast(nn_, kinds[1])), cast(d, kinds[2])), dict(weights=nrng.uniform(0.2, 2.9, n))

    tol = (1e-6, 1e-8)

    def ensures(self, a, r):
        est = a.self
        out = {"returns_self": r is est, "fitted_attributes_present": hasattr(est, "coef_") and hasattr(est, "region_")}
        if not out["fitted_attributes_present"]:
            return out
        _region_clauses(out, est, a.coordinates, raveled=True)
        e, n = flat(a.coordinates[0]), flat(a.coordinates[1])
        combos = monomials(est.degree)
        c = ctx()
        if c.concrete:
            J = np.column_stack([unwrap(e) ** i * unwrap(n) ** j for i, j in combos])
            ref, cond = reference_lsq(J, unwrap(flat(a.data)), None if a.weights is None else unwrap(flat(a.weights)), None)
            coef = wrap(est.coef_)
            if cond < 1e6:
                out["coef_is_the_weighted_least_squares_optimum_of_the_polynomial_design"] = all(abs(coef.at(k) - ref[k]) <= 1e-6 * (np.abs(ref).max() + 1e-30) * max(cond, 1) for k in range(len(combos)))
            return out
        call = _ls_call()
        out["exactly_one_least_squares_solve"] = call is not None
        if call is None:
            return out
        la, lr = call
        out["coef_is_the_least_squares_solution"] = est.coef_ is lr
        J = la.jacobian
        out["design_matrix_holds_the_monomials_of_the_raveled_coordinates"] = All(
            and_(J.shape[0] == e.shape[0], J.shape[1] == len(combos)),
            *[Forall((e.shape[0],), lambda p, k=k, i=i, j=j: J.at(p, k) == vpow(e.at(p), i) * vpow(n.at(p), j)) for k, (i, j) in enumerate(combos)],
        )
        out["fitted_to_the_given_data"] = _data_match(a.data, la.data)
        out["with_the_given_weights"] = _raveled_weights_match(a.weights, la.weights)
        out["trend_is_never_damped"] = la.damping is None
        return out


def _force_coord_clauses(out, given, stored, coords):
    if given is None:
        e, n = flat(coords[0]), flat(coords[1])
        okf = isinstance(stored, tuple) and len(stored) == 2 and all(isinstance(wrap(x), SymArr) and wrap(x).ndim == 1 for x in stored)
        out["forces_at_the_data_points"] = okf
        if okf:
            fe, fn = wrap(stored[0]), wrap(stored[1])
            out["force_coordinates_are_the_raveled_data_coordinates"] = All(fe.shape[0] == e.shape[0], fn.shape[0] == n.shape[0], Forall(e.shape, lambda p: and_(fe.at(p) == e.at(p), fn.at(p) == n.at(p))))
            out["force_coordinates_are_copies"] = not aliases(fe, coords[0]) and not aliases(fn, coords[1])
    else:
        out["given_force_coordinates_are_used"] = stored is given


@register
class SplineFit(Contract):
    target = "verde.spline:Spline.fit"
    stubs = {"check_fit_input": BU + ":check_fit_input", "n_1d_arrays": BU + ":n_1d_arrays", "get_region": M + ":get_region", "Spline.jacobian": "verde.spline:Spline.jacobian", "least_squares": LS + ":least_squares"}
    inline = ("warn_weighted_exact_solution",)
    frame_attrs = {"region_", "force_coords_", "force_"}

    def configs(self, tier):
        out = []
        for weights in (False, True):
            for damping in (False, True):
                for fc in (False, True):
                    out.append({"rank": 1, "weights": weights, "damping": damping, "force_coords": fc})
        out.append({"rank": 2, "weights": True, "damping": True, "force_coords": False})
        out.append({"rank": 1, "weights": False, "damping": False, "force_coords": False, "extra": 1})
        return out

    def setup(self, B, cfg):
        import verde

        est = verde.Spline.__new__(verde.Spline)
        est.mindist, est.engine = B.real("mindist"), "auto"
        est.damping = B.real("damping") if cfg["damping"] else None
        nf = B.dim("nf", 1)
        est.force_coords = (B.array("fc_e", (nf,)), B.array("fc_n", (nf,))) if cfg["force_coords"] else None
        coords = _coords(B, cfg["rank"], cfg.get("extra", 0), minsize=1)
        return (est, coords, B.array("data", coords[0].shape)), dict(weights=B.array("weights", coords[0].shape) if cfg["weights"] else None)

    def requires(self, a):
        return and_(a.self.mindist >= 0, a.self.damping > 0 if a.self.damping is not None else True)

    def expect_warning(self, a):
        return [("UserWarning", a.weights is not None and a.self.damping is None)]

    def samples(self, rng, nrng, tier):
        import verde

        for _ in range(8):
            n = rng.randint(5, 12)
            arrs = tuple(nrng.uniform(-3, 3, n) for _ in range(4))
            est = verde.Spline(damping=rng.choice([None, 1e-3, 1.0]), force_coords=rng.choice([None, (nrng.uniform(-3, 3, 4), nrng.uniform(-3, 3, 4))]))
            yield (est, arrs[:2], arrs[2]), dict(weights=rng.choice([None, np.abs(arrs[3]) + 0.1, np.full(n, rng.choice([0.01, 250.0]))]))

    tol = (1e-5, 1e-7)

    def ensures(self, a, r):
        est = a.self
        out = {"returns_self": r is est, "fitted_attributes_present": all(hasattr(est, k) for k in ("force_", "region_", "force_coords_"))}
        if not out["fitted_attributes_present"]:
            return out
        _region_clauses(out, est, a.coordinates)
        _force_coord_clauses(out, est.force_coords, est.force_coords_, a.coordinates)
        e, n = flat(a.coordinates[0]), flat(a.coordinates[1])
        fe, fn = flat(wrap(est.force_coords_[0])), flat(wrap(est.force_coords_[1]))
        c = ctx()
        if c.concrete:
            J = np.array([[kernel(float(e.at(p)) - float(fe.at(t)), float(n.at(p)) - float(fn.at(t)), est.mindist) for t in range(int(fe.shape[0]))] for p in range(int(e.shape[0]))])
            ref, cond = reference_lsq(J, unwrap(flat(a.data)), None if a.weights is None else unwrap(flat(a.weights)), est.damping)
            force = wrap(est.force_)
            if cond < 1e5:
                out["force_is_the_weighted_damped_optimum_of_the_greens_function_design"] = all(abs(force.at(k) - ref[k]) <= 1e-5 * (np.abs(ref).max() + 1e-30) * max(cond, 1) for k in range(int(fe.shape[0])))
            return out
        call = _ls_call()
        out["exactly_one_least_squares_solve"] = call is not None
        if call is None:
            return out
        la, lr = call
        out["force_is_the_least_squares_solution"] = est.force_ is lr
        J = la.jacobian
        out["design_matrix_is_the_greens_function_between_data_points_and_forces"] = All(
            and_(J.shape[0] == e.shape[0], J.shape[1] == fe.shape[0]), Forall((e.shape[0], fe.shape[0]), lambda p, t: J.at(p, t) == kernel(e.at(p) - fe.at(t), n.at(p) - fn.at(t), est.mindist))
        )
        out["fitted_to_the_given_data"] = _data_match(a.data, la.data)
        out["with_the_given_weights"] = _raveled_weights_match(a.weights, la.weights)
        out["with_the_estimators_damping"] = la.damping is est.damping
        return out


@register
class VectorSplineFit(Contract):
    target = "verde.vector:VectorSpline2D.fit"
    # no reuse history: property C20 exempts exactly this memory ("the only memory being VectorSpline2D's documented reuse
    # of its first force locations") - a refit keeps the forces where the first fit put them
    reuse_variant = False
    stubs = {"check_fit_input": BU + ":check_fit_input", "n_1d_arrays": BU + ":n_1d_arrays", "get_region": M + ":get_region", "VectorSpline2D.jacobian": "verde.vector:VectorSpline2D.jacobian", "least_squares": LS + ":least_squares"}
    inline = ("warn_weighted_exact_solution",)
    frame_attrs = {"region_", "force_coords", "force_"}
    cover_raise = True

    def configs(self, tier):
        return [
            {"rank": 1, "weights": False, "damping": False, "force_coords": False},
            {"rank": 1, "weights": True, "damping": True, "force_coords": False},
            {"rank": 2, "weights": True, "damping": False, "force_coords": True},
            {"rank": 1, "weights": False, "damping": True, "force_coords": True},
            {"rank": 1, "weights": False, "damping": False, "force_coords": False, "ncomp": 3},
            {"rank": 1, "weights": False, "damping": False, "force_coords": False, "ncomp": 1},
            # components of different dtypes (an integer-valued east component next to a float north one, and so on)
            {"rank": 1, "weights": False, "damping": False, "force_coords": False, "dkinds": "if"},
            {"rank": 1, "weights": True, "damping": True, "force_coords": False, "dkinds": "fi"},
            {"rank": 2, "weights": False, "damping": False, "force_coords": False, "dkinds": "ii"},
        ]

    def setup(self, B, cfg):
        import verde

        est = verde.VectorSpline2D.__new__(verde.VectorSpline2D)
        est.poisson, est.mindist, est.engine = B.real("poisson"), B.real("mindist"), "auto"
        est.damping = B.real("damping") if cfg["damping"] else None
        nf = B.dim("nf", 1)
        est.force_coords = (B.array("fc_e", (nf,)), B.array("fc_n", (nf,))) if cfg["force_coords"] else None
        coords = _coords(B, cfg["rank"], 0, minsize=1)
        ncomp = cfg.get("ncomp", 2)
        data = tuple(B.array("data%d" % k, coords[0].shape, cfg.get("dkinds", "fff")[k]) for k in range(ncomp))
        w = tuple(B.array("w%d" % k, coords[0].shape) for k in range(ncomp)) if cfg["weights"] else None
        est._given_force_coords = est.force_coords
        return (est, coords, data), dict(weights=w)

    def requires(self, a):
        return and_(a.self.mindist > 0, a.self.damping > 0 if a.self.damping is not None else True)

    def raises(self, a):
        return [(ValueError, len(_tup(a.data)) != 2)]

    def expect_warning(self, a):
        if len(_tup(a.data)) != 2:
            return None
        return [("UserWarning", a.weights is not None and a.self.damping is None)]

    def samples(self, rng, nrng, tier):
        import verde

        for _ in range(10):
            n = rng.choice([4, 5, 6, 8, 9])
            arrs = tuple(nrng.uniform(-3, 3, n) for _ in range(6))
            est = verde.VectorSpline2D(poisson=rng.choice([0.5, -0.3, 1.0, -1.0]), mindist=rng.choice([0.5, 2.0]), damping=rng.choice([None, 1e-2]))
            est._given_force_coords = None
            if n % 2 == 0 and rng.random() < 0.6:  # gridded (2-D) inputs: components are raveled, THEN stacked
                arrs = tuple(x.reshape(2, -1) for x in arrs)
            elif n == 9:
                arrs = tuple(x.reshape(3, 3) for x in arrs)
            data = [arrs[2], arrs[3]]
            for k in (0, 1):  # integer-valued components given with an integer dtype (each one independently)
                if rng.random() < 0.35:
                    data[k] = np.round(10 * data[k]).astype(rng.choice(["int64", "int32"]))
            yield (est, arrs[:2], tuple(data)), dict(weights=rng.choice([None, (np.abs(arrs[4]) + 0.1, np.abs(arrs[5]) + 0.1)]))

    tol = (1e-5, 1e-7)

    def ensures(self, a, r):
        est = a.self
        out = {"returns_self": r is est, "fitted_attributes_present": all(hasattr(est, k) for k in ("force_", "region_")) and est.force_coords is not None}
        if not out["fitted_attributes_present"]:
            return out
        _region_clauses(out, est, a.coordinates)
        _force_coord_clauses(out, est._given_force_coords, est.force_coords, a.coordinates)
        e, n = flat(a.coordinates[0]), flat(a.coordinates[1])
        fe, fn = flat(wrap(est.force_coords[0])), flat(wrap(est.force_coords[1]))
        npts, nf = e.shape[0], fe.shape[0]
        d0, d1 = flat(a.data[0]), flat(a.data[1])
        c = ctx()
        if c.concrete:
            def q(p, t):
                return elastic_kernels(float(e.at(p)) - float(fe.at(t)), float(n.at(p)) - float(fn.at(t)), est.mindist, est.poisson)

            P, T = int(npts), int(nf)
            J = np.zeros((2 * P, 2 * T))
            for p in range(P):
                for t in range(T):
                    ee, nn, ne = q(p, t)
                    J[p, t], J[p + P, t + T], J[p, t + T], J[p + P, t] = ee, nn, ne, ne
            w = None if a.weights is None else np.concatenate([unwrap(flat(a.weights[0])), unwrap(flat(a.weights[1]))])
            ref, cond = reference_lsq(J, np.concatenate([unwrap(d0), unwrap(d1)]), w, est.damping)
            force = wrap(est.force_)
            if cond < 1e5:
                out["force_is_the_weighted_damped_optimum_of_the_coupled_design"] = all(abs(force.at(k) - ref[k]) <= 1e-5 * (np.abs(ref).max() + 1e-30) * max(cond, 1) for k in range(2 * T))
            return out
        call = _ls_call()
        out["exactly_one_least_squares_solve"] = call is not None
        if call is None:
            return out
        la, lr = call
        out["force_is_the_least_squares_solution"] = est.force_ is lr
        jg = c.ghost.get("verde.vector:VectorSpline2D.jacobian", [])
        out["design_matrix_is_the_jacobian_between_data_points_and_forces"] = len(jg) == 1 and la.jacobian is jg[0][1] and All(
            _data_match(a.coordinates[0], jg[0][0].coordinates[0]), _data_match(a.coordinates[1], jg[0][0].coordinates[1]), _data_match(fe, jg[0][0].force_coords[0]), _data_match(fn, jg[0][0].force_coords[1])
        )
        dv = flat(la.data)
        out["data_stacked_east_then_north"] = All(dv.shape[0] == 2 * npts, Forall((npts,), lambda p: and_(dv.at(p) == d0.at(p), dv.at(p + npts) == d1.at(p))))
        if a.weights is None:
            out["no_weights"] = la.weights is None
        else:
            wv = la.weights
            w0, w1 = flat(a.weights[0]), flat(a.weights[1])
            out["weights_stacked_in_the_same_order_as_the_data"] = wv is not None and All(wv.shape[0] == 2 * npts, Forall((npts,), lambda p: and_(wv.at(p) == w0.at(p), wv.at(p + npts) == w1.at(p))))
        out["with_the_estimators_damping"] = la.damping is est.damping
        return out
