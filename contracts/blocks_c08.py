"""Sidecar contracts for property C08 (block_split) and the helpers it shares with other
properties: n_1d_arrays, check_coordinates, verde.utils.kdtree."""
import numpy as np

from pyvc import spec as S
from pyvc.arr import SymArr, as_array, havoc_array, new_array, unflatten
from pyvc.lemmas import Lemma
from pyvc.contract import Contract, register
from pyvc.core import and_, ctx, iff, implies, is_sym, ite, not_, or_, sqdist
from pyvc.prelude_scipy import SymKDTree
from pyvc.spec import All, AnyOf, Exists, ExistsInt, Forall, Imp, close, ge, hint, le

from .coordinates_c07 import M, _LineArgs, _line_nodes_formula, _region_of, _scale, _spacing_pair
from .coordinates_c13 import _coords, _rand_coords

BU = "verde.base.utils"


def flat(arr):
    """C-order flattened view of an array (spec helper)."""
    a = as_array(arr)
    if a.ndim == 0:
        return a.reshape((1,))
    return a if a.ndim == 1 else a.ravel()


@register
class N1dArrays(Contract):
    functional = True
    """Functional contract: the first n arrays, each atleast_1d and raveled in C order."""

    target = BU + ":n_1d_arrays"

    def configs(self, tier):
        return [{"rank": 1, "count": 2, "n": 2}, {"rank": 2, "count": 3, "n": 2}, {"rank": 2, "count": 2, "n": 2}, {"rank": 0, "count": 2, "n": 2}, {"rank": 1, "count": 3, "n": 3}]

    def setup(self, B, cfg):
        if cfg["rank"] == 0:
            arrs = tuple(B.real("x%d" % k) for k in range(cfg["count"]))
        else:
            dims = tuple(B.dim("n%d" % k, 0) for k in range(cfg["rank"]))
            arrs = tuple(B.array("a%d" % k, dims) for k in range(cfg["count"]))
        return (arrs, cfg["n"]), {}

    def havoc(self, a):
        out = []
        for x in a.arrays[: a.n]:
            v = flat(x)
            sn = v.snapshot()
            out.append(new_array(v.shape, lambda idx, sn=sn: sn(*idx), v.kind))
        return tuple(out)

    def samples(self, rng, nrng, tier):
        for _ in range(20):
            arrs = _rand_coords(rng, nrng, rng.choice([1, 2]), rng.choice([0, 1]))
            if rng.random() < 0.3:
                arrs = tuple(np.asfortranarray(x) for x in arrs)
            yield (arrs, 2), {}
        yield ((1.0, 2.0), 2), {}

    def ensures(self, a, r):
        want = list(a.arrays[: a.n])
        ok = isinstance(r, tuple) and len(r) == len(want) and all(isinstance(x, SymArr) and x.ndim == 1 for x in r)
        out = {"tuple_of_first_n_as_1d": ok}
        if not ok:
            return out
        for k, (x, y) in enumerate(zip(want, r)):
            f = flat(x)
            out["array%d_is_c_order_ravel" % k] = All(y.shape[0] == f.shape[0], Forall(f.shape, lambda p, f=f, y=y: y.at(p) == f.at(p)))
        return out


@register
class CheckCoordinates(Contract):
    functional = True
    target = BU + ":check_coordinates"
    cover_raise = True

    def configs(self, tier):
        return [{"rank": 1, "count": 2, "same": True}, {"rank": 2, "count": 3, "same": True}, {"rank": 1, "count": 2, "same": False}, {"rank": 2, "count": 2, "same": False}, {"rank": (1, 2), "count": 2, "same": False}]

    def setup(self, B, cfg):
        arrs = []
        for k in range(cfg["count"]):
            rank = cfg["rank"] if isinstance(cfg["rank"], int) else cfg["rank"][k]
            if cfg["same"]:
                dims = tuple(B.dims["n%d" % d] if ("n%d" % d) in B.dims else B.dim("n%d" % d, 0) for d in range(rank))
            else:
                dims = tuple(B.dim("n%d_%d" % (k, d), 0) for d in range(rank))
            arrs.append(B.array("c%d" % k, dims))
        return (tuple(arrs),), {}

    def raises(self, a):
        first = a.coordinates[0]
        conds = []
        for x in a.coordinates[1:]:
            if x.ndim != first.ndim:
                return [(ValueError, True)]
            conds.append(not_(and_(*[p == q for p, q in zip(x.shape, first.shape)])) if x.ndim else False)
        return [(ValueError, or_(*conds) if conds else False)]

    def havoc(self, a):
        return a.coordinates

    def samples(self, rng, nrng, tier):
        yield ((np.zeros(3), np.zeros(3)),), {}
        yield ((np.zeros(3), np.zeros(4)),), {}
        yield ((np.zeros((2, 3)), np.zeros((2, 3)), np.zeros((2, 3))),), {}
        yield ((np.zeros((2, 3)), np.zeros((3, 2))),), {}
        yield ((np.zeros((2, 3)), np.zeros(6)),), {}

    def ensures(self, a, r):
        return {"returns_the_same_coordinates": r is a.coordinates}


@register
class KDTree(Contract):
    functional = True
    """verde.utils.kdtree: tree over the raveled coordinates, point j = (c0.flat[j], c1.flat[j], ...)."""

    target = "verde.utils:kdtree"
    stubs = {"n_1d_arrays": BU + ":n_1d_arrays"}
    prelude = (("cKDTree", SymKDTree), ("pyKDTree", None))

    def configs(self, tier):
        return [{"rank": 1, "count": 2}, {"rank": 2, "count": 2}, {"rank": 1, "count": 2, "use_pykdtree": False}]

    def setup(self, B, cfg):
        kw = {} if "use_pykdtree" not in cfg else {"use_pykdtree": cfg["use_pykdtree"]}
        return (_coords(B, cfg["rank"], cfg["count"] - 2, minsize=0),), kw

    def requires(self, a):
        first = a.coordinates[0]
        return and_(*[and_(*[p == q for p, q in zip(x.shape, first.shape)]) for x in a.coordinates[1:] if x.ndim == first.ndim])

    def havoc(self, a):
        cols = [flat(x) for x in a.coordinates]
        sn = [c.snapshot() for c in cols]
        n = cols[0].shape[0]
        d = len(cols)
        pts = new_array((n, d), lambda idx: _pick(sn, idx[1])(idx[0]), "f")
        return SymKDTree(pts)

    def ensures(self, a, r):
        ok = isinstance(r, SymKDTree) and r.m == len(a.coordinates)
        out = {"is_tree_over_len_coordinates_columns": ok}
        if not ok:
            return out
        cols = [flat(x) for x in a.coordinates]
        out["one_point_per_raveled_element"] = r.n == cols[0].shape[0]
        out["point_j_is_the_j_th_raveled_coordinate_tuple"] = Forall((r.n,), lambda j: and_(*[r.point(j)[d] == cols[d].at(j) for d in range(r.m)]))
        return out

    native_replay = False  # a real cKDTree is not a SymKDTree; covered by the block_split/neighbour samplers


def _pick(fns, j):
    if not is_sym(j):
        if not (0 <= j < len(fns)):
            return lambda *idx: 0.0  # out of range: never a valid element (guards of the facts exclude it)
        return fns[j]

    def f(*idx):
        r = fns[-1](*idx)
        for k in range(len(fns) - 2, -1, -1):
            r = ite(j == k, fns[k](*idx), r)
        return r

    return f


# ------------------------------------------------------------------------- block_split


def _ghost_grid_dims():
    c = ctx()
    out = []
    for a, r in c.ghost.get(M + ":grid_coordinates", []):
        if r[0].ndim == 2:
            out.append((r[0].shape[0], r[0].shape[1]))
        elif r[0].ndim == 1 and len(r) >= 2 and r[1].ndim == 1:
            out.append((r[1].shape[0], r[0].shape[0]))  # meshgrid=False: (easting line, northing line)
    return out


def _factorizations(nb):
    return [(d, nb // d) for d in range(1, nb + 1) if nb % d == 0]


@register
class BlockSplit(Contract):
    target = M + ":block_split"
    stubs = {
        "check_coordinates": BU + ":check_coordinates",
        "get_region": M + ":get_region",
        "grid_coordinates": M + ":grid_coordinates",
        "kdtree": "verde.utils:kdtree",
        "n_1d_arrays": BU + ":n_1d_arrays",
    }

    def configs(self, tier):
        out = []
        for rank in (1, 2):
            for region in (True, False):
                out.append({"rank": rank, "region": region, "mode": "shape", "adjust": "spacing"})
                for adjust in ("spacing", "region"):
                    out.append({"rank": rank, "region": region, "mode": "spacing_scalar", "adjust": adjust})
        out.append({"rank": 1, "region": True, "mode": "spacing_pair", "adjust": "spacing"})
        out.append({"rank": 1, "region": False, "mode": "spacing_pair", "adjust": "region", "extra": 1})
        # both, or neither, of shape and spacing: rejected, not guessed
        out += [{"rank": 1, "region": True, "mode": "both", "adjust": "spacing"}, {"rank": 1, "region": False, "mode": "both", "adjust": "region"}, {"rank": 1, "region": True, "mode": "neither", "adjust": "spacing"}]
        return out

    def setup(self, B, cfg):
        coords = _coords(B, cfg["rank"], cfg.get("extra", 0), minsize=1)
        region = _region_of(B) if cfg["region"] else None
        shape = spacing = None
        if cfg["mode"] in ("shape", "both"):
            shape = (B.int("n_north"), B.int("n_east"))
        if cfg["mode"] in ("spacing_scalar", "both"):
            spacing = B.real("spacing")
        elif cfg["mode"] == "spacing_pair":
            spacing = (B.real("sp_north"), B.real("sp_east"))
        return (coords,), dict(spacing=spacing, adjust=cfg["adjust"], region=region, shape=shape)

    def raises(self, a):
        return [(ValueError, (a.shape is None) == (a.spacing is None))]

    def requires(self, a):
        conds = [a.coordinates[0].size >= 1]
        if a.region is not None:
            w, e, s, n = a.region
            conds += [w <= e, s <= n]
        if a.shape is not None:
            conds += [a.shape[0] >= 1, a.shape[1] >= 1]
        sp = _spacing_pair(a.spacing)
        conds += [x > 0 for x in sp if x is not None]
        return and_(*conds)

    def havoc(self, a):
        c = ctx()
        nb = c.fresh("nblocks", "int")
        c.assume(nb >= 1)
        npts = flat(a.coordinates[0]).shape[0]
        return ((havoc_array("blkE", (nb,), "f"), havoc_array("blkN", (nb,), "f")), havoc_array("labels", (npts,), "i"))

    def samples(self, rng, nrng, tier):
        for _ in range(150 if tier == "thorough" else 40):
            rank = rng.choice([1, 2])
            coords = list(_rand_coords(rng, nrng, rank, 0, scale=10.0, offset=rng.choice([0.0, 1e5])))
            region = None
            if rng.random() < 0.6:
                off = coords[0].flat[0] - coords[0].flat[0] % 1  # keep the data roughly around the region
                region = (float(np.floor(coords[0].min())) + 1.0, float(np.ceil(coords[0].max())) - 1.0, float(np.floor(coords[1].min())) + 1.0, float(np.ceil(coords[1].max())) - 1.0)
                if region[0] > region[1] or region[2] > region[3]:
                    region = None
            if region is not None:
                # some points exactly on block edges / corners
                coords[0].flat[0] = region[0]
                coords[1].flat[0] = region[2]
            if rng.random() < 0.5:
                yield (tuple(coords),), dict(shape=(rng.randint(1, 4), rng.randint(1, 5)), region=region)
            else:
                yield (tuple(coords),), dict(spacing=rng.choice([1.0, 2.5, (3.0, 1.5), 50.0]), adjust=rng.choice(["spacing", "region"]), region=region)

        pts = (nrng.uniform(0, 10, 9), nrng.uniform(0, 10, 9))
        yield (pts,), dict(spacing=2.5, shape=(2, 3))
        yield (pts,), dict(spacing=2.5, shape=(2, 3), region=(0.0, 10.0, 0.0, 10.0), adjust="region")
        yield (pts,), dict()
        # few points over MANY blocks (more blocks than points, and more than 256 of them)
        for nblk, npt in ((20, 120), (17, 60)):
            yield ((nrng.uniform(0, nblk, npt), nrng.uniform(0, nblk, npt)),), dict(spacing=1.0, region=(0.0, float(nblk), 0.0, float(nblk)))
        # easting and northing of DIFFERENT dtypes (integer / float32 next to float64) and UTM-sized coordinates with
        # blocks of about a metre (points 0.1 - 0.4 off the block edges: nothing coarser than float64 survives)
        for k in range(24 if tier == "thorough" else 8):
            n = rng.randint(5, 40)
            kind = ["int_east", "int_north", "f32_east", "f32_north", "utm", "utm"][k % 6]
            spacing = rng.choice([1.0, 0.5, 2.5])
            if kind.startswith("int"):
                e, nn_ = nrng.uniform(0, 20, n), nrng.uniform(0, 20, n)
                if kind == "int_east":
                    e = np.round(e).astype(rng.choice(["int64", "int32"]))
                else:
                    nn_ = np.round(nn_).astype(rng.choice(["int64", "int32"]))
            else:
                e0, n0 = 500000.0, 7200000.0
                e = e0 + spacing * nrng.randint(0, 30, n) + nrng.uniform(0.1, 0.4, n) * spacing * nrng.choice([-1, 1], n)
                nn_ = n0 + spacing * nrng.randint(0, 30, n) + nrng.uniform(0.1, 0.4, n) * spacing * nrng.choice([-1, 1], n)
                if kind == "f32_east":
                    e = (e - e0).astype("float32")
                elif kind == "f32_north":
                    nn_ = (nn_ - n0).astype("float32")
            region = None if rng.random() < 0.5 else (float(np.floor(e.min())), float(np.floor(e.min())) + 40 * spacing, float(np.floor(nn_.min())), float(np.floor(nn_.min())) + 40 * spacing)
            yield ((e, nn_),), dict(spacing=spacing, region=region, adjust=rng.choice(["spacing", "region"]))

    def ensures(self, a, r):
        ok = isinstance(r, tuple) and len(r) == 2 and isinstance(r[0], tuple) and len(r[0]) == 2 and isinstance(r[1], SymArr)
        out = {"returns_block_coordinates_and_labels": ok}
        if not ok:
            return out
        (be, bn), labels = r
        e, n = flat(a.coordinates[0]), flat(a.coordinates[1])
        npts = e.shape[0]
        nb = be.shape[0]
        out["one_label_per_raveled_point"] = and_(labels.ndim == 1, labels.shape[0] == npts)
        out["block_coordinates_are_1d_same_size"] = and_(be.ndim == 1, bn.ndim == 1, bn.shape[0] == nb)
        out["labels_are_valid_block_indices"] = Forall((npts,), lambda p: and_(labels.at(p) >= 0, labels.at(p) < nb))
        # nearest-centre rule (covers the points outside the region: nearest border block)
        out["label_is_a_nearest_block_centre"] = Forall(
            (npts, nb),
            lambda p, j: le(sqdist((e.at(p), n.at(p)), (be.at(labels.at(p)), bn.at(labels.at(p)))), sqdist((e.at(p), n.at(p)), (be.at(j), bn.at(j))), _scale2(e, n, p)),
        )
        sp_n, sp_e = _spacing_pair(a.spacing)
        sh_n, sh_e = a.shape if a.shape is not None else (None, None)

        def layout(nn, ne):
            east_line = new_array((ne,), lambda idx: be.at(idx[0]), "f")
            north_line = new_array((nn,), lambda idx: bn.at(idx[0] * ne), "f")
            parts = {"blocks_form_nn_by_ne_grid": and_(nn >= 1, ne >= 1, nn * ne == nb)}
            parts["row_major_from_south_west.easting"] = Forall((nn, ne), lambda i, j: close(be.at(i * ne + j), be.at(j), 1.0) if not is_sym(i) else be.at(i * ne + j) == be.at(j))
            parts["row_major_from_south_west.northing"] = Forall((nn, ne), lambda i, j: close(bn.at(i * ne + j), bn.at(i * ne), 1.0) if not is_sym(i) else bn.at(i * ne + j) == bn.at(i * ne))
            if a.region is not None:
                w, e_, s, n_ = a.region
                for k, f in _line_nodes_formula(_LineArgs(w, e_, sh_e, sp_e, a.adjust, True), east_line).items():
                    parts["east_centres." + k] = f
                for k, f in _line_nodes_formula(_LineArgs(s, n_, sh_n, sp_n, a.adjust, True), north_line).items():
                    parts["north_centres." + k] = f
                # a point strictly inside block (i, j) gets label i*ne + j
                he, hn = be.at(0) - w, bn.at(0) - s

                def strictly_inside(p, i, j):
                    hint(p, i * ne + j)
                    inside = and_(_absv(e.at(p) - be.at(j)) < he, _absv(n.at(p) - bn.at(i * ne)) < hn)
                    margin = _margin(e.at(p), be.at(j), he, n.at(p), bn.at(i * ne), hn)
                    L = labels.at(p)
                    row, col = unflatten(L, (nn, ne))  # label = row*ne + col
                    # geometry is needed here: state the defining polynomials of the two squared distances
                    sqdist((e.at(p), n.at(p)), (be.at(L), bn.at(L)), define=True)
                    sqdist((e.at(p), n.at(p)), (be.at(i * ne + j), bn.at(i * ne + j)), define=True)
                    VORONOI_RECT.apply(W=w, S=s, he=he, hn=hn, x=e.at(p), y=n.at(p), i=i, j=j, qL=row, rL=col, cje=be.at(i * ne + j), cin=bn.at(i * ne + j), cLe=be.at(L), cLn=bn.at(L))
                    return implies(and_(inside, margin), and_(row == i, col == j))

                parts["point_strictly_inside_a_block_gets_its_label"] = Forall((npts, nn, ne), strictly_inside)
            return All(*[_named(k, v) for k, v in parts.items()])

        out["layout"] = ExistsInt(2, layout, witnesses=_ghost_grid_dims, candidates=lambda: _factorizations(int(nb)))
        return out


def _voronoi_statement(W, S, he, hn, x, y, i, j, qL, rL, cje, cin, cLe, cLn):
    prem = [
        cje == W + (2 * j + 1) * he,
        cLe == W + (2 * rL + 1) * he,
        cin == S + (2 * i + 1) * hn,
        cLn == S + (2 * qL + 1) * hn,
        abs(x - cje) < he,
        abs(y - cin) < hn,
        _d2(x, y, cLe, cLn) <= _d2(x, y, cje, cin),
    ]
    return prem, and_(qL == i, rL == j)


VORONOI_RECT = Lemma(
    "voronoi_rect",
    [(n, "real") for n in ("W", "S", "he", "hn", "x", "y", "cje", "cin", "cLe", "cLn")] + [(n, "int") for n in ("i", "j", "qL", "rL")],
    _voronoi_statement,
    doc="rectangular Voronoi cells: a point strictly inside the cell of centre (i,j) of an evenly spaced grid of centres is strictly closer to it than to any other centre, so a nearest centre (qL,rL) is (i,j)",
)


def _named(k, v):
    return v


def _d2(x, y, cx, cy):
    return (x - cx) * (x - cx) + (y - cy) * (y - cy)


def _absv(x):
    return abs(x)


def _scale2(e, n, p):
    """Scale of the round-off in a difference of two squared distances (concrete evaluation): the distances themselves
    are of the size d of the data extent, their operands of the size v of the coordinates, so the error is about
    eps * v * d - NOT v * v (at UTM-sized coordinates that would forgive whole blocks)."""
    if is_sym(e.at(0)):
        return 1.0
    v = max(abs(float(e.at(p))), abs(float(n.at(p))), 1.0)
    es = [float(e.at(i)) for i in range(int(e.shape[0]))]
    ns = [float(n.at(i)) for i in range(int(n.shape[0]))]
    d = max(max(es) - min(es), max(ns) - min(ns), 1.0)
    return 1e-5 * v * d  # times Tol.atol = 1e-9: about 100 eps * v * d


def _margin(x, cx, hx, y, cy, hy):
    """Concrete evaluation only: skip points within round-off of a block edge (either label is fine)."""
    if is_sym(x) or is_sym(cx) or is_sym(hx):
        return True
    tol = 1e-9 * max(abs(x), abs(cx), abs(y), abs(cy), 1.0)
    return (hx - abs(x - cx) > tol) and (hy - abs(y - cy) > tol)
