"""Sidecar contracts for property C03 (vector part): elastic Green's functions of Sandwell &
Wessel (2016), coupled prediction loop, 2x2 block Jacobian, VectorSpline2D.predict/jacobian."""
import math

import numpy as np

from pyvc.arr import SymArr, as_array, flat_index, havoc_array, new_array
from pyvc.concrete import wrap
from pyvc.contract import Contract, register
from pyvc.core import and_, ctx, div, implies, is_sym, ite, not_, or_
from pyvc.spec import All, Forall, close
from pyvc.sums import PartialSum, sum_is

from .blocks_c08 import BU, flat
from .coordinates_c13 import _coords, _rand_coords
from .spline_c03 import vlog, vsqrt

VC = "verde.vector"


def elastic_kernels(x, y, mindist, poisson):
    """(q_ee, q_nn, q_ne) for a point at offset (x, y) from a force: r = |(x,y)| + mindist,
    q_ee = (3-nu) ln r + (1+nu) y^2/r^2,  q_nn = (3-nu) ln r + (1+nu) x^2/r^2,  q_ne = -(1+nu) x y / r^2."""
    r = vsqrt(x * x + y * y) + mindist
    ln_r = (3 - poisson) * vlog(r)
    over_r2 = div(1 + poisson, r * r) if (is_sym(r) or is_sym(poisson)) else (1 + poisson) / (r * r)
    return ln_r + over_r2 * (y * y), ln_r + over_r2 * (x * x), -over_r2 * x * y


@register
class GreensFunc2D(Contract):
    functional = True
    target = VC + ":greens_func_2d"

    def configs(self, tier):
        return [{"rank": 1}, {"rank": 2}]

    def setup(self, B, cfg):
        dims = tuple(B.dim("n%d" % k, 0) for k in range(cfg["rank"]))
        return (B.array("de", dims), B.array("dn", dims), B.real("mindist"), B.real("poisson")), {}

    def requires(self, a):
        return a.mindist > 0

    def havoc(self, a):
        e, n = as_array(a.east), as_array(a.north)
        es, ns, md, nu = e.snapshot(), n.snapshot(), a.mindist, a.poisson
        return tuple(new_array(e.shape, (lambda idx, k=k: elastic_kernels(es(*idx), ns(*idx), md, nu)[k]), "f") for k in range(3))

    def samples(self, rng, nrng, tier):
        d = np.array([0.0, 1e-12, 1.0, math.e, 1e8, 0.5])
        for md in (1e-3, 1.0, 1e4):
            for nu in (-1.0, 0.0, 0.5, 1.0):
                yield (d, d[::-1].copy(), md, nu), {}

    tol = (1e-9, 1e-9)

    def ensures(self, a, r):
        e, n = a.east, a.north
        ok = isinstance(r, tuple) and len(r) == 3 and all(isinstance(x, SymArr) and x.ndim == e.ndim for x in r)
        out = {"three_arrays_of_the_input_rank": ok}
        if not ok:
            return out
        names = ("green_ee", "green_nn", "green_ne")

        def sc(*i):
            if is_sym(e.at(*i)):
                return 1.0
            return 1e3 * (1 + abs(math.log(math.hypot(float(e.at(*i)), float(n.at(*i))) + float(a.mindist))))

        for k in range(3):
            out["%s_same_shape" % names[k]] = and_(*[x == y for x, y in zip(r[k].shape, e.shape)])
            out["%s_is_the_sandwell_wessel_kernel" % names[k]] = Forall(e.shape, lambda *i, k=k: close(r[k].at(*i), elastic_kernels(e.at(*i), n.at(*i), a.mindist, a.poisson)[k], sc(*i)))
        return out


class _Predict2DSpec:
    @staticmethod
    def build(east, north, fe, fn, mindist, poisson, forces):
        e, n, fe, fn, f = flat(east), flat(north), flat(fe), flat(fn), flat(forces)
        nf = fe.shape[0]

        def k(p, t):
            return elastic_kernels(e.at(p) - fe.at(t), n.at(p) - fn.at(t), mindist, poisson)

        te = lambda p, t: k(p, t)[0] * f.at(t) + k(p, t)[2] * f.at(t + nf)
        tn = lambda p, t: k(p, t)[2] * f.at(t) + k(p, t)[1] * f.at(t + nf)
        return PartialSum("vec_east", (e.shape[0],), nf, te), PartialSum("vec_north", (e.shape[0],), nf, tn)


@register
class Predict2DNumpy(Contract):
    functional = True
    target = VC + ":predict_2d_numpy"
    dtype_variants = False  # private kernel: its callers hand it float64 arrays and buffers (their own integer-kind contracts, C04)
    stubs = {"greens_func_2d": VC + ":greens_func_2d"}

    def setup(self, B, cfg):
        npts, nf = B.dim("npoints", 0), B.dim("nforces", 0)
        args = (
            B.array("east", (npts,)), B.array("north", (npts,)), B.array("force_east", (nf,)), B.array("force_north", (nf,)),
            B.real("mindist"), B.real("poisson"), B.array("forces", (2 * nf,)), B.array("vec_east", (npts,)), B.array("vec_north", (npts,)),
        )
        return args, {}

    def requires(self, a):
        return and_(a.mindist > 0, a.forces.shape[0] == 2 * a.force_east.shape[0])

    def may_write(self, a):
        return [a.vec_east, a.vec_north]

    def spec(self, a):
        if not hasattr(a, "_ps"):
            a._ps = _Predict2DSpec.build(a.east, a.north, a.force_east, a.force_north, a.mindist, a.poisson, a.forces)
        return a._ps

    def loop_state(self, a):
        return [a.vec_east, a.vec_north]

    def loop_invariant(self, a, j, state):
        pe, pn = self.spec(a)
        ve, vn = state
        return All(Forall(ve.shape, lambda p: ve.at(p) == pe.at(p, j)), Forall(vn.shape, lambda p: vn.at(p) == pn.at(p, j)))

    def havoc(self, a):
        pe, pn = self.spec(a)
        a.vec_east[...] = new_array(a.vec_east.shape, lambda idx: pe.total(idx[0]), "f")
        a.vec_north[...] = new_array(a.vec_north.shape, lambda idx: pn.total(idx[0]), "f")
        return (a.vec_east, a.vec_north)

    def samples(self, rng, nrng, tier):
        for _ in range(12):
            npts, nf = rng.randint(1, 5), rng.randint(0, 4)
            yield (nrng.uniform(-3, 3, npts), nrng.uniform(-3, 3, npts), nrng.uniform(-3, 3, nf), nrng.uniform(-3, 3, nf), rng.choice([0.1, 2.0]), rng.choice([-1.0, 0.3, 0.5, 1.0]), nrng.uniform(-2, 2, 2 * nf), np.full(npts, 9.0), np.full(npts, -9.0)), {}

    tol = (1e-9, 1e-9)

    def ensures(self, a, r):
        pe, pn = self.spec(a)
        out = {"returns_the_two_buffers": isinstance(r, tuple) and len(r) == 2 and r[0] is a.vec_east and r[1] is a.vec_north}
        out["east_component_is_the_coupled_sum_over_forces"] = Forall(a.vec_east.shape, lambda p: close(a.vec_east.at(p), pe.total(p), 100.0))
        out["north_component_is_the_coupled_sum_over_forces"] = Forall(a.vec_north.shape, lambda p: close(a.vec_north.at(p), pn.total(p), 100.0))
        return out


def block_entry(e, n, fe, fn, md, nu, npts, nf, row, col):
    """Spec of the 2x2 block Jacobian (east rows/columns first, symmetric off-diagonal)."""
    sym_r = is_sym(row) or is_sym(npts)
    sym_c = is_sym(col) or is_sym(nf)
    p = ite(row < npts, row, row - npts) if sym_r else (row if row < npts else row - npts)
    t = ite(col < nf, col, col - nf) if sym_c else (col if col < nf else col - nf)
    q = elastic_kernels(e.at(p) - fe.at(t), n.at(p) - fn.at(t), md, nu)
    if not sym_r and not sym_c:
        top, left = row < npts, col < nf
        return q[0] if (top and left) else (q[1] if (not top and not left) else q[2])
    top, left = row < npts, col < nf
    return ite(and_(top, left), q[0], ite(and_(not_(top), not_(left)), q[1], q[2]))


def _block_clauses(jac, e, n, fe, fn, md, nu, npts, nf):
    """The 2x2 block layout, one clause per block (east rows / columns first)."""
    q = lambda p, t: elastic_kernels(e.at(p) - fe.at(t), n.at(p) - fn.at(t), md, nu)
    return {
        "upper_left_block_is_green_ee": Forall((npts, nf), lambda p, t: close(jac.at(p, t), q(p, t)[0], 1e3)),
        "lower_right_block_is_green_nn": Forall((npts, nf), lambda p, t: close(jac.at(p + npts, t + nf), q(p, t)[1], 1e3)),
        "upper_right_block_is_green_ne": Forall((npts, nf), lambda p, t: close(jac.at(p, t + nf), q(p, t)[2], 1e3)),
        "lower_left_block_is_green_ne": Forall((npts, nf), lambda p, t: close(jac.at(p + npts, t), q(p, t)[2], 1e3)),
    }


@register
class Jacobian2DNumpy(Contract):
    target = VC + ":jacobian_2d_numpy"
    dtype_variants = False  # private kernel: its callers hand it float64 arrays and buffers (their own integer-kind contracts, C04)
    stubs = {"greens_func_2d": VC + ":greens_func_2d"}

    def setup(self, B, cfg):
        npts, nf = B.dim("npoints", 0), B.dim("nforces", 0)
        return (B.array("east", (npts,)), B.array("north", (npts,)), B.array("force_east", (nf,)), B.array("force_north", (nf,)), B.real("mindist"), B.real("poisson"), B.array("jac", (2 * npts, 2 * nf))), {}

    def requires(self, a):
        return a.mindist > 0

    def may_write(self, a):
        return [a.jac]

    def havoc(self, a):
        e, n, fe, fn = a.east.copy(), a.north.copy(), a.force_east.copy(), a.force_north.copy()
        npts, nf, md, nu = a.east.shape[0], a.force_east.shape[0], a.mindist, a.poisson
        a.jac[...] = new_array(a.jac.shape, lambda idx: block_entry(e, n, fe, fn, md, nu, npts, nf, idx[0], idx[1]), "f")
        return a.jac

    def samples(self, rng, nrng, tier):
        for _ in range(10):
            npts, nf = rng.randint(1, 4), rng.randint(1, 4)
            e = nrng.uniform(-3, 3, npts)
            yield (e, nrng.uniform(-3, 3, npts), np.r_[e[:1], nrng.uniform(-3, 3, nf - 1)], nrng.uniform(-3, 3, nf), rng.choice([0.1, 2.0]), rng.choice([-1.0, 0.5, 1.0]), np.empty((2 * npts, 2 * nf))), {}

    tol = (1e-9, 1e-9)

    def ensures(self, a, r):
        npts, nf = a.east.shape[0], a.force_east.shape[0]
        out = {"returns_the_jacobian_buffer": r is a.jac}
        out.update(_block_clauses(a.jac, a.east, a.north, a.force_east, a.force_north, a.mindist, a.poisson, npts, nf))
        return out


def _vspline(B, fitted=True):
    import verde

    est = verde.VectorSpline2D.__new__(verde.VectorSpline2D)
    est.poisson, est.mindist, est.damping, est.engine = B.real("poisson"), B.real("mindist"), None, "auto"
    if fitted:
        nf = B.dim("nforces", 0)
        est.force_coords = (B.array("force_east", (nf,)), B.array("force_north", (nf,)))
        est.force_ = B.array("force", (2 * nf,))
        est.region_ = (B.real("fW"), B.real("fE"), B.real("fS"), B.real("fN"))
    else:
        est.force_coords = None
    return est


def _real_vspline(rng, nrng):
    import verde

    n = rng.randint(1, 5)
    est = verde.VectorSpline2D(poisson=rng.choice([-1.0, 0.5, 1.0]), mindist=rng.choice([0.1, 3.0]))
    est.force_coords = (nrng.uniform(-3, 3, n), nrng.uniform(-3, 3, n))
    est.force_ = nrng.uniform(-2, 2, 2 * n)
    est.region_ = (-3, 3, -3, 3)
    return est


@register
class VectorSplinePredict(Contract):
    target = VC + ":VectorSpline2D.predict"
    stubs = {"n_1d_arrays": BU + ":n_1d_arrays", "predict_2d_numpy": VC + ":predict_2d_numpy"}
    inline = ("parse_engine",)
    frame_attrs = set()
    cover_raise = True

    def configs(self, tier):
        return [{"rank": 1}, {"rank": 2}, {"rank": 1, "extra": 1}, {"rank": 1, "fitted": False}]

    def setup(self, B, cfg):
        est = _vspline(B, cfg.get("fitted", True))
        coords = _coords(B, cfg["rank"], cfg.get("extra", 0), names=("q_easting", "q_northing"), minsize=0)
        return (est, coords), {}

    def requires(self, a):
        est = a.self
        if not hasattr(est, "force_"):
            return est.mindist > 0
        return and_(est.mindist > 0, flat(wrap(est.force_)).shape[0] == 2 * flat(wrap(est.force_coords[0])).shape[0])

    def raises(self, a):
        from sklearn.exceptions import NotFittedError

        return [(NotFittedError, not hasattr(a.self, "force_"))]

    def samples(self, rng, nrng, tier):
        import verde

        for _ in range(10):
            yield (_real_vspline(rng, nrng), _rand_coords(rng, nrng, rng.choice([1, 2]), rng.choice([0, 1]), scale=3.0)), {}
        yield (verde.VectorSpline2D(), (np.zeros(2), np.zeros(2))), {}

    tol = (1e-9, 1e-9)

    def ensures(self, a, r):
        est = a.self
        q0 = a.coordinates[0]
        ok = isinstance(r, tuple) and len(r) == 2 and all(isinstance(x, SymArr) and x.ndim == q0.ndim for x in r)
        out = {"two_components_of_the_query_rank": ok}
        if not ok:
            return out
        pe, pn = _Predict2DSpec.build(a.coordinates[0], a.coordinates[1], wrap(est.force_coords[0]), wrap(est.force_coords[1]), est.mindist, est.poisson, wrap(est.force_))
        qshape = q0.shape
        for name, comp, ps in (("east", r[0], pe), ("north", r[1], pn)):
            out["%s_component_has_the_query_shape" % name] = and_(*[x == y for x, y in zip(comp.shape, qshape)])
            out["%s_component_is_the_coupled_elastic_sum_over_forces" % name] = Forall(qshape, lambda *ix, comp=comp, ps=ps: sum_is(comp.at(*ix), ps, (flat_index(ix, qshape),), 100.0))
        return out


@register
class VectorSplineJacobian(Contract):
    functional = True
    target = VC + ":VectorSpline2D.jacobian"
    stubs = {"n_1d_arrays": BU + ":n_1d_arrays", "jacobian_2d_numpy": VC + ":jacobian_2d_numpy"}
    inline = ("parse_engine",)
    frame_attrs = set()

    def configs(self, tier):
        return [{"rank": 1, "frank": 1}, {"rank": 2, "frank": 1}, {"rank": 1, "frank": 2}]

    def setup(self, B, cfg):
        est = _vspline(B, fitted=False)
        coords = _coords(B, cfg["rank"], 0, names=("q_easting", "q_northing"), minsize=0)
        fdims = tuple(B.dim("f%d" % k, 0) for k in range(cfg["frank"]))
        return (est, coords, (B.array("force_east", fdims), B.array("force_north", fdims))), {}

    def requires(self, a):
        return a.self.mindist > 0

    def havoc(self, a):
        e, n = flat(a.coordinates[0]).copy(), flat(a.coordinates[1]).copy()
        fe, fn = flat(a.force_coords[0]).copy(), flat(a.force_coords[1]).copy()
        npts, nf, md, nu = e.shape[0], fe.shape[0], a.self.mindist, a.self.poisson
        return new_array((2 * npts, 2 * nf), lambda idx: block_entry(e, n, fe, fn, md, nu, npts, nf, idx[0], idx[1]), "f")

    def samples(self, rng, nrng, tier):
        for _ in range(8):
            est = _real_vspline(rng, nrng)
            q = _rand_coords(rng, nrng, rng.choice([1, 2]), 0, scale=3.0)
            yield (est, q, (np.r_[q[0].ravel()[:1], est.force_coords[0]], np.r_[q[1].ravel()[:1], est.force_coords[1]])), {}

    tol = (1e-9, 1e-9)

    def ensures(self, a, r):
        e, n = flat(a.coordinates[0]), flat(a.coordinates[1])
        fe, fn = flat(a.force_coords[0]), flat(a.force_coords[1])
        npts, nf = e.shape[0], fe.shape[0]
        ok = isinstance(r, SymArr) and r.ndim == 2
        out = {"two_dimensional": ok}
        if not ok:
            return out
        out["shape_is_twice_points_by_twice_forces"] = and_(r.shape[0] == 2 * npts, r.shape[1] == 2 * nf)
        out.update(_block_clauses(r, e, n, fe, fn, a.self.mindist, a.self.poisson, npts, nf))
        return out
