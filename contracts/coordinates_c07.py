"""Sidecar contracts for verde.coordinates: regular coordinates (property C07).

Top-level postconditions are taken from the statement of C07; shapes and helper preconditions
from the code and its call sites.
"""
import numpy as np

from pyvc import spec as S
from pyvc.arr import SymArr, havoc_array, new_array
from pyvc.contract import Contract, register
from pyvc.core import and_, ctx, div, implies, is_sym, ite, not_, or_, spec_sqrt
from pyvc.spec import All, Exists, Forall, Imp, close, le

M = "verde.coordinates"


def _n_intervals_facts(n, start, stop, spacing):
    """n is the integer nearest to (stop-start)/spacing, at least one.

    |n - q| <= 1/2 where q = extent/spacing, unless q < 1/2 where n == 1.  Stated without
    division: |n*spacing - extent| <= spacing/2  or  (extent < spacing/2 and n == 1)."""
    ext = stop - start
    sc = _scale(start, stop, spacing)
    return and_(
        n >= 1,
        or_(
            and_(le(n * spacing - ext, spacing / 2, sc), le(ext - n * spacing, spacing / 2, sc)),
            and_(le(2 * ext, spacing, sc), n == 1),
        ),
    )


def _scale(*xs):
    """Magnitude used by the tolerant (concrete) comparisons; irrelevant symbolically."""
    if any(is_sym(x) for x in xs):
        return 1.0
    return max([abs(float(x)) for x in xs] + [1e-300])



def _lattice(tier):
    """Rational lattice of (start, stop, spacing): extent/spacing = k/8, k = 1..80 (all .5 ties)."""
    ks = range(1, 81) if tier == "thorough" else list(range(1, 81, 3)) + [4, 12, 20, 28, 36]
    for start in (-3.0, 0.0, 1e6):
        for spacing in (0.125, 1.0, 2.5):
            for k in ks:
                yield start, start + spacing * k / 8, spacing

@register
class SpacingToSize(Contract):
    target = M + ":spacing_to_size"


    def samples(self, rng, nrng, tier):
        for start, stop, spacing in _lattice(tier):
            for adjust in ("spacing", "region"):
                yield (start, stop, spacing, adjust), {}
        yield (0.0, 1.0, 0.3, "nonsense"), {}

    def configs(self, tier):
        return [{"adjust": "spacing"}, {"adjust": "region"}, {"adjust": "bogus"}]

    def setup(self, B, cfg):
        start, stop, spacing = B.real("start"), B.real("stop"), B.real("spacing")
        return (start, stop, spacing, cfg["adjust"]), {}

    def requires(self, a):
        return and_(a.spacing > 0, a.stop >= a.start)

    def raises(self, a):
        return [(ValueError, a.adjust not in ("spacing", "region"))]

    def havoc(self, a):
        c = ctx()
        return (c.fresh("size", "int"), c.fresh("stop", "real"))

    def ensures(self, a, r):
        size, stop2 = r
        n = size - 1
        out = {
            "n_is_nearest_integer_at_least_one": _n_intervals_facts(n, a.start, a.stop, a.spacing),
        }
        if a.adjust == "spacing":
            out["adjust_spacing_keeps_stop"] = stop2 == a.stop
        elif a.adjust == "region":
            out["adjust_region_moves_stop_to_whole_spacings"] = close(stop2, a.start + n * a.spacing, _scale(a.start, a.stop, a.spacing))
        return out


def _line_nodes_formula(a, values):
    """Every node of a line of regular coordinates, from the C07 statement, in *step form*:
    nodes are start + i*step (or the midpoints start + (2i+1)*step/2 for pixel registration);
    with adjust='spacing' (or a requested size) the bounds are hit exactly (n*step = extent), with
    adjust='region' the step is the requested spacing; n is the integer nearest extent/spacing."""
    start, stop = a.start, a.stop
    size = values.shape[0]
    sc = _scale(start, stop, 0 if a.spacing is None else a.spacing)
    parts = {}
    if a.spacing is not None:
        n = size if a.pixel_register else size - 1
        parts["intervals_nearest_to_extent_over_spacing"] = _n_intervals_facts(n, start, stop, a.spacing)
        hit_stop = a.adjust == "spacing"
    else:
        parts["node_count_is_requested_size"] = size == a.size
        n = a.size if a.pixel_register else a.size - 1
        hit_stop = True
    if a.pixel_register:
        h = values.at(0) - start  # half a step
        parts["pixel_nodes_are_interval_midpoints"] = Forall((size,), lambda i: close(values.at(i), start + (2 * i + 1) * h, sc))
        if hit_stop:
            parts["intervals_span_the_region_exactly"] = close(2 * h * n, stop - start, sc)
        else:
            parts["step_equals_spacing"] = close(2 * h, a.spacing, sc)
    else:
        two = (size >= 2) if is_sym(size) else (size >= 2)
        d = ite(two, values.at(1) - values.at(0), 0) if is_sym(size) else ((values.at(1) - values.at(0)) if size >= 2 else 0.0)
        parts["nodes_evenly_spaced_from_start"] = Forall((size,), lambda i: close(values.at(i), start + i * d, sc))
        if hit_stop:
            parts["last_node_hits_stop"] = implies(two, close(n * d, stop - start, sc))
        else:
            parts["step_equals_spacing"] = close(d, a.spacing, sc)
    if hit_stop:
        # C13: every node lies inside the requested [start, stop]. EXACT comparisons (no tolerance when the clause is
        # evaluated on native floats): a node one ulp beyond the bound is outside the region for verde.inside.
        parts["nodes_lie_within_start_and_stop"] = Imp(stop >= start, Forall((size,), lambda i: and_(start <= values.at(i), values.at(i) <= stop)))
        if not a.pixel_register:
            last = values.at(size - 1)
            parts["bounds_are_hit_exactly"] = and_(values.at(0) == start, implies(size >= 2, last == stop))
    return parts


def _line_nodes_closed_forms(a, values):
    """Consequences of the step form (closed forms without the step); proved for line_coordinates,
    not assumed by stubs (names start with 'derived.')."""
    start, stop = a.start, a.stop
    size = values.shape[0]
    parts = {}
    if a.spacing is not None and a.adjust == "region":
        sc = _scale(start, stop, a.spacing)
        if a.pixel_register:
            parts["derived.pixel_nodes_closed_form"] = Forall((size,), lambda i: close(values.at(i), start + (2 * i + 1) * a.spacing / 2, sc))
        else:
            parts["derived.nodes_closed_form"] = Forall((size,), lambda i: close(values.at(i), start + i * a.spacing, sc))
    else:
        n = size if a.pixel_register else size - 1
        nn = n if not is_sym(n) else 1
        sc = _scale(start, stop) * max(nn, 1) * 2
        if a.pixel_register:
            parts["derived.pixel_nodes_closed_form"] = Forall((size,), lambda i: close((values.at(i) - start) * n * 2, (2 * i + 1) * (stop - start), sc))
        else:
            parts["derived.nodes_closed_form"] = Forall((size,), lambda i: implies(size >= 2, close((values.at(i) - start) * n, i * (stop - start), sc)))
            parts["derived.single_node_is_start"] = implies(size == 1, close(values.at(0), start, _scale(start, stop)))
    return parts


@register
class LineCoordinates(Contract):
    target = M + ":line_coordinates"
    stubs = {"spacing_to_size": M + ":spacing_to_size"}


    def samples(self, rng, nrng, tier):
        for start, stop, spacing in _lattice(tier):
            for adjust in ("spacing", "region"):
                for pixel in (False, True):
                    yield (start, stop), dict(spacing=spacing, adjust=adjust, pixel_register=pixel)
        for start, stop in ((-3.0, 5.0), (0.0, 0.0), (1e6, 1e6 + 0.7), (-1e3, -1e3 + 1e-3)):
            for size in (1, 2, 3, 7, 100):
                for pixel in (False, True):
                    yield (start, stop), dict(size=size, pixel_register=pixel)
        yield (0.0, 1.0), dict(size=3, spacing=0.5)
        yield (0.0, 1.0), {}
        # arbitrary (non-round) float intervals: start + i*step arithmetic overshoots the bound by an ulp for ~1% of them
        for _ in range(3000 if tier == "thorough" else 600):
            start = rng.uniform(-100, 100)
            stop = start + rng.uniform(0.1, 100)
            if rng.random() < 0.5:
                yield (start, stop), dict(size=rng.randint(1, 60), pixel_register=rng.random() < 0.3)
            else:
                yield (start, stop), dict(spacing=(stop - start) / rng.uniform(0.6, 60), adjust="spacing", pixel_register=rng.random() < 0.3)

    def configs(self, tier):
        out = []
        for mode in ("spacing", "size", "both", "neither"):
            for pixel in (False, True):
                if mode == "spacing":
                    for adjust in ("spacing", "region"):
                        out.append({"mode": mode, "pixel": pixel, "adjust": adjust})
                else:
                    out.append({"mode": mode, "pixel": pixel, "adjust": "spacing"})
        return out

    def setup(self, B, cfg):
        start, stop = B.real("start"), B.real("stop")
        size = B.int("size") if cfg["mode"] in ("size", "both") else None
        spacing = B.real("spacing") if cfg["mode"] in ("spacing", "both") else None
        return (start, stop), dict(size=size, spacing=spacing, adjust=cfg["adjust"], pixel_register=cfg["pixel"])

    def requires(self, a):
        conds = [a.stop >= a.start]
        if a.spacing is not None:
            conds.append(a.spacing > 0)
        if a.size is not None:
            conds.append(a.size >= 1)
        return and_(*conds)

    def raises(self, a):
        both = a.size is not None and a.spacing is not None
        neither = a.size is None and a.spacing is None
        return [(ValueError, both or neither)]

    def havoc(self, a):
        c = ctx()
        if a.spacing is not None:
            n = c.fresh("nline", "int")
            c.assume(n >= 1)
        else:
            n = a.size
        return havoc_array("line", (n,), "f")

    def ensures(self, a, r):
        out = {"is_1d_float_array": isinstance(r, SymArr) and r.ndim == 1 and r.kind == "f"}
        if isinstance(r, SymArr) and r.ndim == 1:
            out.update(_line_nodes_formula(a, r))
            out.update(_line_nodes_closed_forms(a, r))
        return out


# ------------------------------------------------------------------ check_region (also C13)


def _region_of(B, prefix="r"):
    return [B.real(prefix + "W"), B.real(prefix + "E"), B.real(prefix + "S"), B.real(prefix + "N")]


@register
class CheckRegion(Contract):
    target = M + ":check_region"
    cover_raise = True


    def samples(self, rng, nrng, tier):
        for r in ([0, 1, 0, 1], (0, 0, 0, 0), (1, 0, 0, 1), (0, 1, 1, 0), (0, 1, 2), (0, 1, 2, 3, 4), (-5.5, -5.5, 2, 2.0), [3, 2, 2, 1], (), (0, 1), (0, 1, 2, 3, 4, 5), [0, 1, 0, 1, 0, 1, 0, 1], np.array([0.0, 1.0, 0.0, 1.0, -10.0, 0.0])):
            yield (r,), {}

    def configs(self, tier):
        return [{"len": 4, "cont": "list"}, {"len": 4, "cont": "tuple"}, {"len": 3}, {"len": 5}, {"len": 0}, {"len": 2}, {"len": 6}, {"len": 6, "cont": "tuple"}, {"len": 8}]

    def setup(self, B, cfg):
        vals = [B.real("b%d" % i) for i in range(cfg["len"])]
        return ((tuple(vals) if cfg.get("cont") == "tuple" else vals),), {}

    def raises(self, a):
        r = a.region
        if len(r) != 4:
            return [(ValueError, True)]
        w, e, s, n = r
        return [(ValueError, or_(w > e, s > n))]

    def havoc(self, a):
        return None

    def ensures(self, a, r):
        return {"returns_none": r is None}


# ------------------------------------------------------------------ grid_coordinates


def _n_extra(extra):
    if extra is None:
        return 0
    if isinstance(extra, (list, tuple)):
        return len(extra)
    if isinstance(extra, SymArr):
        return int(extra.shape[0]) if extra.ndim else 1
    return 1


def _extra_values(extra):
    if extra is None:
        return []
    if isinstance(extra, (list, tuple)):
        return list(extra)
    if isinstance(extra, SymArr):
        return [extra.at(i) for i in range(int(extra.shape[0]))] if extra.ndim else [extra.at()]
    return [extra]


def _spacing_pair(spacing):
    """(spacing_north, spacing_east) from a scalar or a (north, east) pair; None if malformed."""
    if spacing is None:
        return (None, None)
    if isinstance(spacing, (list, tuple)):
        if len(spacing) == 1:
            return (spacing[0], spacing[0])
        if len(spacing) == 2:
            return (spacing[0], spacing[1])
        return None
    if isinstance(spacing, SymArr):
        if spacing.ndim == 0:
            return (spacing.at(), spacing.at())
        n = int(spacing.shape[0])
        if n == 1:
            return (spacing.at(0), spacing.at(0))
        if n == 2:
            return (spacing.at(0), spacing.at(1))
        return None
    return (spacing, spacing)


class _LineArgs:
    def __init__(self, start, stop, size, spacing, adjust, pixel_register):
        self.start, self.stop, self.size, self.spacing = start, stop, size, spacing
        self.adjust, self.pixel_register = adjust, pixel_register


@register
class GridCoordinates(Contract):
    target = M + ":grid_coordinates"
    stubs = {"check_region": M + ":check_region", "line_coordinates": M + ":line_coordinates"}


    def samples(self, rng, nrng, tier):
        n = 300 if tier == "thorough" else 60
        for _ in range(n):
            w = rng.choice([-3.0, 0.0, 1e6, rng.uniform(-100, 100)])
            s_ = rng.choice([-5.0, 0.0, -1e5, rng.uniform(-100, 100)])
            region = (w, w + rng.choice([0.0, 1.0, 7.3, rng.uniform(0.1, 50)]), s_, s_ + rng.choice([0.0, 2.0, 3.9, rng.uniform(0.1, 50)]))
            pixel = rng.random() < 0.5
            mesh = rng.random() < 0.7
            extra = rng.choice([None, 7.5, [1.0, -2.0]]) if mesh else None
            if rng.random() < 0.5:
                yield (region,), dict(shape=(rng.randint(1, 6), rng.randint(1, 6)), pixel_register=pixel, meshgrid=mesh, extra_coords=extra)
            else:
                sp = rng.choice([0.5, 1.0, (0.7, 1.3), [2.0], (100.0, 0.01 + rng.random())])
                yield (region,), dict(spacing=sp, adjust=rng.choice(["spacing", "region"]), pixel_register=pixel, meshgrid=mesh, extra_coords=extra)
        for _ in range(1500 if tier == "thorough" else 300):
            w, s_ = rng.uniform(-100, 100), rng.uniform(-100, 100)
            region = (w, w + rng.uniform(0.1, 100), s_, s_ + rng.uniform(0.1, 100))
            if rng.random() < 0.5:
                yield (region,), dict(shape=(rng.randint(1, 40), rng.randint(1, 40)), pixel_register=rng.random() < 0.3)
            else:
                yield (region,), dict(spacing=(region[3] - region[2]) / rng.uniform(0.6, 40), adjust="spacing", pixel_register=rng.random() < 0.3)
        yield ((0.0, 1.0, 0.0, 1.0),), dict(shape=(2, 2), spacing=0.5)
        yield ((0.0, 1.0, 0.0, 1.0),), {}
        yield ((2.0, 1.0, 0.0, 1.0),), dict(shape=(2, 2))
        yield ((0.0, 1.0, 0.0, 1.0),), dict(spacing=(0.1, 0.2, 0.3))
        yield ((0.0, 1.0, 0.0, 1.0),), dict(shape=(2, 3), meshgrid=False, extra_coords=1.0)

    def configs(self, tier):
        out = []
        for mode in ("shape", "spacing_scalar", "spacing_pair"):
            for pixel in (False, True):
                adjusts = ("spacing", "region") if mode != "shape" else ("spacing",)
                for adjust in adjusts:
                    for mesh in (True, False):
                        for extra in ((None, "one", "two") if mesh and not pixel else (None,)):
                            out.append({"mode": mode, "pixel": pixel, "adjust": adjust, "meshgrid": mesh, "extra": extra})
        out += [
            {"mode": "both", "pixel": False, "adjust": "spacing", "meshgrid": True, "extra": None},
            {"mode": "neither", "pixel": False, "adjust": "spacing", "meshgrid": True, "extra": None},
            {"mode": "spacing_triple", "pixel": False, "adjust": "spacing", "meshgrid": True, "extra": None},
            {"mode": "shape", "pixel": False, "adjust": "spacing", "meshgrid": False, "extra": "one"},
            {"mode": "spacing_list1", "pixel": False, "adjust": "spacing", "meshgrid": True, "extra": None},
        ]
        return out

    def setup(self, B, cfg):
        region = _region_of(B)
        shape = spacing = None
        m = cfg["mode"]
        if m in ("shape", "both"):
            shape = (B.int("n_north"), B.int("n_east"))
        if m in ("spacing_scalar", "both"):
            spacing = B.real("spacing")
        elif m == "spacing_pair":
            spacing = (B.real("sp_north"), B.real("sp_east"))
        elif m == "spacing_triple":
            spacing = (B.real("sp0"), B.real("sp1"), B.real("sp2"))
        elif m == "spacing_list1":
            spacing = [B.real("sp0")]
        extra = {None: None, "one": B.real("x0"), "two": [B.real("x0"), B.real("x1")]}[cfg["extra"]]
        return (region,), dict(shape=shape, spacing=spacing, adjust=cfg["adjust"], pixel_register=cfg["pixel"], extra_coords=extra, meshgrid=cfg["meshgrid"])

    def requires(self, a):
        conds = []
        if a.shape is not None:
            conds += [a.shape[0] >= 1, a.shape[1] >= 1]
        sp = _spacing_pair(a.spacing)
        if sp is not None:
            conds += [s > 0 for s in sp if s is not None]
        elif isinstance(a.spacing, (list, tuple)):
            conds += [s > 0 for s in a.spacing]
        return and_(*conds) if conds else True

    def raises(self, a):
        w, e, s, n = a.region
        out = [(ValueError, or_(w > e, s > n))]
        both = a.shape is not None and a.spacing is not None
        neither = a.shape is None and a.spacing is None
        bad_spacing = a.shape is None and a.spacing is not None and _spacing_pair(a.spacing) is None
        bad_extra = a.extra_coords is not None and not a.meshgrid
        out.append((ValueError, both or neither or bad_spacing or bad_extra))
        return out

    def havoc(self, a):
        c = ctx()
        if a.shape is not None:
            nn, ne = a.shape
        else:
            nn, ne = c.fresh("gn", "int"), c.fresh("ge", "int")
            c.assume(and_(nn >= 1, ne >= 1))
        if a.meshgrid:
            outs = [havoc_array("gridE", (nn, ne), "f"), havoc_array("gridN", (nn, ne), "f")]
            for k in range(_n_extra(a.extra_coords)):
                outs.append(havoc_array("gridX%d" % k, (nn, ne), "f"))
            return tuple(outs)
        return (havoc_array("gridE", (ne,), "f"), havoc_array("gridN", (nn,), "f"))

    def ensures(self, a, r):
        w, e, s, n = a.region
        nx = _n_extra(a.extra_coords)
        out = {"returns_tuple_of_2_plus_extras": isinstance(r, tuple) and len(r) == 2 + nx and all(isinstance(x, SymArr) for x in r)}
        if not out["returns_tuple_of_2_plus_extras"]:
            return out
        E, N = r[0], r[1]
        sp_n, sp_e = _spacing_pair(a.spacing)
        sh_n, sh_e = a.shape if a.shape is not None else (None, None)
        east_args = _LineArgs(w, e, sh_e, sp_e, a.adjust, a.pixel_register)
        north_args = _LineArgs(s, n, sh_n, sp_n, a.adjust, a.pixel_register)
        if a.meshgrid:
            out["rank2_same_shape"] = E.ndim == 2 and N.ndim == 2 and and_(E.shape[0] == N.shape[0], E.shape[1] == N.shape[1])
            if not (E.ndim == 2 and N.ndim == 2):
                return out
            out["easting_varies_along_columns_only"] = Forall(E.shape, lambda i, j: E.at(i, j) == E.at(0, j))
            out["northing_varies_along_rows_only"] = Forall(N.shape, lambda i, j: N.at(i, j) == N.at(i, 0))
            east_line, north_line = E[0, :], N[:, 0]
        else:
            out["rank1_vectors"] = E.ndim == 1 and N.ndim == 1
            if not (E.ndim == 1 and N.ndim == 1):
                return out
            east_line, north_line = E, N
        for k, f in _line_nodes_formula(east_args, east_line).items():
            out["east." + k] = f
        for k, f in _line_nodes_formula(north_args, north_line).items():
            out["north." + k] = f
        for k, v in enumerate(_extra_values(a.extra_coords)):
            X = r[2 + k]
            out["extra%d_constant_same_shape" % k] = All(
                X.ndim == 2 and and_(X.shape[0] == E.shape[0], X.shape[1] == E.shape[1]),
                Forall(E.shape, lambda i, j, X=X, v=v: X.at(i, j) == v),
            )
        return out


# ------------------------------------------------------------------ shape_to_spacing


@register
class ShapeToSpacing(Contract):
    target = M + ":shape_to_spacing"


    def samples(self, rng, nrng, tier):
        for _ in range(200 if tier == "thorough" else 40):
            w, s_ = rng.uniform(-1e3, 1e3), rng.uniform(-1e3, 1e3)
            region = (w, w + rng.uniform(0, 100), s_, s_ + rng.uniform(0, 100))
            pixel = rng.random() < 0.5
            lo = 1 if pixel else 2
            yield (region, (rng.randint(lo, 50), rng.randint(lo, 50))), dict(pixel_register=pixel)

    def configs(self, tier):
        return [{"pixel": False}, {"pixel": True}]

    def setup(self, B, cfg):
        return (_region_of(B), (B.int("n_north"), B.int("n_east"))), dict(pixel_register=cfg["pixel"])

    def requires(self, a):
        lo = 1 if a.pixel_register else 2
        return and_(a.shape[0] >= lo, a.shape[1] >= lo)

    def havoc(self, a):
        c = ctx()
        return (c.fresh("spn", "real"), c.fresh("spe", "real"))

    def ensures(self, a, r):
        w, e, s, n = a.region
        k = 0 if a.pixel_register else 1
        ok = isinstance(r, tuple) and len(r) == 2
        out = {"returns_pair": ok}
        if ok:
            sc = _scale(w, e, s, n)
            out["north_spacing_times_intervals_is_extent"] = close(r[0] * (a.shape[0] - k), n - s, sc)
            out["east_spacing_times_intervals_is_extent"] = close(r[1] * (a.shape[1] - k), e - w, sc)
        return out


# ------------------------------------------------------------------ profile_coordinates


@register
class ProfileCoordinates(Contract):
    target = M + ":profile_coordinates"
    cover_raise = True


    def samples(self, rng, nrng, tier):
        for _ in range(200 if tier == "thorough" else 40):
            p1 = (rng.uniform(-1e3, 1e3), rng.uniform(-1e3, 1e3))
            p2 = rng.choice([p1, (p1[0], p1[1] + 3.0), (p1[0] - 2.0, p1[1]), (rng.uniform(-1e3, 1e3), rng.uniform(-1e3, 1e3))])
            yield (p1, p2, rng.choice([1, 2, 3, 10, 51])), dict(extra_coords=rng.choice([None, 4.0, [1.0, 2.0]]))
        yield ((0.0, 0.0), (1.0, 1.0), 0), {}
        yield ((0.0, 0.0), (1.0, 1.0), -2), {}
        # end points that are rows of integer arrays (numpy fixed-width integers: UTM metres, pixel numbers) and Python ints
        for dt, span in (("int64", 10**6), ("int32", 10**5), ("int32", 300), ("int64", 4 * 10**9), (None, 10**7)):
            pts = nrng.randint(-span, span, (2, 2)).astype(dt) if dt else [[rng.randint(-span, span) for _ in range(2)] for _ in range(2)]
            yield (tuple(pts[0]), tuple(pts[1]), rng.choice([2, 3, 11])), {}

    def configs(self, tier):
        return [{"extra": None}, {"extra": "one"}, {"extra": "two"}]

    def setup(self, B, cfg):
        p1 = (B.real("p1e"), B.real("p1n"))
        p2 = (B.real("p2e"), B.real("p2n"))
        extra = {None: None, "one": B.real("x0"), "two": [B.real("x0"), B.real("x1")]}[cfg["extra"]]
        return (p1, p2, B.int("size")), dict(extra_coords=extra)

    def raises(self, a):
        return [(ValueError, a.size <= 0)]

    def havoc(self, a):
        n = a.size
        coords = [havoc_array("profE", (n,), "f"), havoc_array("profN", (n,), "f")]
        for k in range(_n_extra(a.extra_coords)):
            coords.append(havoc_array("profX%d" % k, (n,), "f"))
        return (tuple(coords), havoc_array("profD", (n,), "f"))

    def ensures(self, a, r):
        nx = _n_extra(a.extra_coords)
        ok = isinstance(r, tuple) and len(r) == 2 and isinstance(r[0], tuple) and len(r[0]) == 2 + nx and isinstance(r[1], SymArr)
        out = {"returns_coordinates_and_distances": ok}
        if not ok:
            return out
        (pe, pn), dist = r[0][:2], r[1]
        dx, dy = a.point2[0] - a.point1[0], a.point2[1] - a.point1[1]
        size = a.size
        sc = _scale(a.point1[0], a.point1[1], a.point2[0], a.point2[1])
        scn = sc * (size if not is_sym(size) else 1)
        out["size_points"] = and_(pe.shape[0] == size, pn.shape[0] == size, dist.shape[0] == size)
        out["distances_even_from_first_point"] = Forall(
            (size,),
            lambda i: and_(
                dist.at(i) >= 0,
                ite(size == 1, dist.at(i) == 0, close(dist.at(i) * dist.at(i) * (size - 1) * (size - 1), i * i * (dx * dx + dy * dy), scn * scn)),
            ),
        )
        out["points_even_on_segment"] = Forall(
            (size,),
            lambda i: ite(
                size == 1,
                and_(close(pe.at(i), a.point1[0], sc), close(pn.at(i), a.point1[1], sc)),
                and_(close((pe.at(i) - a.point1[0]) * (size - 1), i * dx, scn), close((pn.at(i) - a.point1[1]) * (size - 1), i * dy, scn)),
            ),
        )
        for k, v in enumerate(_extra_values(a.extra_coords)):
            X = r[0][2 + k]
            out["extra%d_constant" % k] = All(X.shape[0] == size, Forall((size,), lambda i, X=X, v=v: X.at(i) == v))
        return out


# ------------------------------------------------------------------ lemmas (consequences of contracts only)


def lemma_shape_to_spacing_inverts_shape(region, shape, pixel_register):
    spacing = shape_to_spacing(region, shape, pixel_register=pixel_register)  # noqa: F821 (stub)
    return grid_coordinates(region, spacing=spacing, pixel_register=pixel_register)  # noqa: F821 (stub)


@register
class LemmaShapeToSpacing(Contract):
    """shape_to_spacing inverts the shape: gridding with the derived spacing gives that shape."""

    target = "contracts.coordinates_c07:lemma_shape_to_spacing_inverts_shape"
    stubs = {"shape_to_spacing": M + ":shape_to_spacing", "grid_coordinates": M + ":grid_coordinates"}
    native_replay = False

    def configs(self, tier):
        return [{"pixel": False}, {"pixel": True}]

    def setup(self, B, cfg):
        return (_region_of(B), (B.int("n_north"), B.int("n_east")), cfg["pixel"]), {}

    def requires(self, a):
        w, e, s, n = a.region
        lo = 1 if a.pixel_register else 2
        # non-degenerate region (a zero extent has no positive spacing)
        return and_(a.shape[0] >= lo, a.shape[1] >= lo, e > w, n > s)

    def ensures(self, a, r):
        E = r[0]
        return {"grid_has_the_original_shape": and_(E.shape[0] == a.shape[0], E.shape[1] == a.shape[1])}
