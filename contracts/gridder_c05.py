"""Sidecar contracts for property C05: BaseGridder.grid / profile / scatter and helpers.
The real methods run on an ABSTRACT gridder (predict = uninterpreted function per component)."""
import numpy as np

from pyvc.arr import SymArr, as_array, flat_index, havoc_array, new_array
from pyvc.concrete import unwrap, wrap
from pyvc.contract import REGISTRY, Args, Contract, register
from pyvc.core import and_, ctx, implies, is_sym, not_, or_, spec_fn
from pyvc.prelude_pd import SymDataFrame
from pyvc.spec import All, Forall, close

from .compose_c06 import AbstractGridder
from .coordinates_c07 import M, _LineArgs, _extra_values, _line_nodes_formula, _n_extra, _region_of, _spacing_pair
from .coordinates_c13 import SymProjection, _concrete_projection
from .grids_c18 import UT, df_view, ds_view

BC = "verde.base.base_classes"
import verde


class ConcreteAsymmetric(verde.base.BaseGridder):
    """A real gridder with a known asymmetric analytic prediction (bounded stage)."""

    def __init__(self, ncomp=1):
        super().__init__()
        self.ncomp = ncomp
        self.region_ = (-2.0, 5.0, 10.0, 14.0)

    @staticmethod
    def f(k, e, n):
        return (k + 1) * (2.0 * e - 3.0 * n * n + 0.1 * e * n) + 7.0 * k

    def predict(self, coordinates):
        e, n = np.asarray(coordinates[0], dtype=float), np.asarray(coordinates[1], dtype=float)
        out = tuple(self.f(k, e, n) for k in range(self.ncomp))
        return out[0] if self.ncomp == 1 else out


def P(est, k, x, y):
    if isinstance(est, AbstractGridder):
        return est.value(k, x, y)
    if type(est).__name__ == "CheckerBoard":
        import math

        from .models_c03 import vcos, vsin

        w, e, s, n = est.region
        we = est.w_east if est.w_east is not None else (e - w) / 2
        wn = est.w_north if est.w_north is not None else (n - s) / 2
        return est.amplitude * vsin((2 * math.pi / we) * x) * vcos((2 * math.pi / wn) * y)
    return est.f(k, x, y)


def proj_point(proj, x, y, inverse=False):
    if proj is None:
        return x, y
    if isinstance(proj, SymProjection):
        tag = proj.tag + ("_inv" if inverse else "")
        return spec_fn(tag + "_x", x, y), spec_fn(tag + "_y", x, y)
    px, py = proj(np.array([float(x)]), np.array([float(y)]), **({"inverse": True} if inverse else {}))
    return float(px[0]), float(py[0])


class InvertibleProjection:
    """concrete invertible projection accepting inverse=True (affine, or non-linear in the northing like Mercator)"""

    def __init__(self, kind="affine"):
        self.kind = kind

    def __call__(self, e, n, inverse=False):
        e, n = np.asarray(e, dtype=float), np.asarray(n, dtype=float)
        if self.kind == "nonlinear":
            if inverse:
                return (e - 10.0) / 2.0 - 0.3 * np.arcsinh(n), np.arcsinh(n)
            return 2.0 * (e + 0.3 * n) + 10.0, np.sinh(n)
        if inverse:
            return (e - 10.0) / 2.0, (n + 1.0) / -3.0
        return 2.0 * e + 10.0, -3.0 * n - 1.0


DEFAULT_NAMES = [("scalars",), ("east_component", "north_component"), ("east_component", "north_component", "vertical_component")]


@register
class GetInstanceRegion(Contract):
    target = BC + ":get_instance_region"
    functional = True
    cover_raise = True

    def configs(self, tier):
        return [{"given": True, "fitted": True}, {"given": False, "fitted": True}, {"given": False, "fitted": False}, {"given": True, "fitted": False}]

    def setup(self, B, cfg):
        est = AbstractGridder("r", 1)
        if cfg["fitted"]:
            est.region_ = tuple(B.real("i" + k) for k in "WESN")
        return (est, _region_of(B) if cfg["given"] else None), {}

    def raises(self, a):
        has = "region_" in vars(a.instance) or hasattr(type(a.instance), "region_")  # (a property is not evaluated here)
        return [(ValueError, a.region is None and not has)]

    @staticmethod
    def _fitted_region(inst):
        # region_ may be a property that validates the region (CheckerBoard): run it as program code
        c = ctx()
        saved, c.in_spec = c.in_spec, 0
        try:
            return inst.region_
        finally:
            c.in_spec = saved

    def havoc(self, a):
        return a.region if a.region is not None else self._fitted_region(a.instance)

    def ensures(self, a, r):
        return {"given_region_else_the_fitted_one": r is (a.region if a.region is not None else self._fitted_region(a.instance))}


@register
class ProjectCoordinates(Contract):
    target = BC + ":project_coordinates"
    functional = True

    def configs(self, tier):
        return [{"extra": 0, "inverse": False}, {"extra": 2, "inverse": False}, {"extra": 1, "inverse": True}]

    def setup(self, B, cfg):
        n = B.dim("n", 0)
        coords = tuple(B.array("c%d" % k, (n,)) for k in range(2 + cfg["extra"]))
        return (coords, SymProjection()), ({"inverse": True} if cfg["inverse"] else {})

    def havoc(self, a):
        pe, pn = a.projection(*a.coordinates[:2], **a.kwargs)
        return (pe, pn) + tuple(a.coordinates[2:])

    def ensures(self, a, r):
        inv = bool(a.kwargs.get("inverse", False))
        e, n = a.coordinates[0], a.coordinates[1]
        ok = isinstance(r, tuple) and len(r) == len(a.coordinates)
        out = {"same_number_of_coordinates": ok}
        if ok:
            out["first_two_coordinates_projected_pointwise"] = Forall(e.shape, lambda *ix: and_(r[0].at(*ix) == proj_point(a.projection, e.at(*ix), n.at(*ix), inv)[0], r[1].at(*ix) == proj_point(a.projection, e.at(*ix), n.at(*ix), inv)[1]))
            out["extra_coordinates_untouched"] = all(x is y for x, y in zip(r[2:], a.coordinates[2:]))
        return out


def _names_for(ncomp, data_names):
    if data_names is None:
        return DEFAULT_NAMES[ncomp - 1]
    return (data_names,) if isinstance(data_names, str) else tuple(data_names)


def _extra_names(nx, base="extra_coord"):
    return [base if i == 0 else "%s_%d" % (base, i) for i in range(nx)]


@register
class GridderGrid(Contract):
    target = BC + ":BaseGridder.grid"
    stubs = {
        "grid_coordinates": M + ":grid_coordinates",
        "get_instance_region": BC + ":get_instance_region",
        "project_coordinates": BC + ":project_coordinates",
        "make_xarray_grid": UT + ":make_xarray_grid",
        "get_ndim_horizontal_coords": UT + ":get_ndim_horizontal_coords",
        "meshgrid_from_1d": UT + ":meshgrid_from_1d",
        "check_meshgrid": UT + ":check_meshgrid",
    }
    inline = ("check_data", "_get_dims", "_get_data_names", "_get_extra_coords_names", "check_data_names")
    frame_attrs = set()
    cover_raise = True

    def configs(self, tier):
        out = []
        for mode in ("shape", "spacing"):
            for region in (True, False):
                out.append({"mode": mode, "region": region, "ncomp": 1})
        out += [
            {"mode": "shape", "region": True, "ncomp": 2, "proj": True},
            {"mode": "spacing", "region": True, "ncomp": 3, "pixel": True, "adjust": "region"},
            {"mode": "shape", "region": True, "ncomp": 1, "extra": "one", "dims": ("lat", "lon"), "names": "topo"},
            {"mode": "shape", "region": True, "ncomp": 2, "extra": "two", "names": ["a", "b"]},
            {"mode": "coords1d", "ncomp": 1},
            {"mode": "coords2d", "ncomp": 1, "proj": True},
            {"mode": "coords1d", "ncomp": 1, "conflict": "shape"},
            {"mode": "coords1d", "ncomp": 1, "conflict": "region"},
            {"mode": "shape", "region": True, "ncomp": 2, "names": ["only_one"]},
        ]
        return out

    def setup(self, B, cfg):
        est = AbstractGridder("grd", cfg["ncomp"])
        est.nfit_ = 1
        est.region_ = tuple(B.real("f" + k) for k in "WESN")
        kw = {}
        if cfg["mode"] in ("shape", "spacing"):
            kw["region"] = _region_of(B) if cfg["region"] else None
            if cfg["mode"] == "shape":
                kw["shape"] = (B.int("n_north"), B.int("n_east"))
            else:
                kw["spacing"] = B.real("spacing")
            if cfg.get("pixel"):
                kw["pixel_register"] = True
            if cfg.get("adjust"):
                kw["adjust"] = cfg["adjust"]
            if cfg.get("extra"):
                kw["extra_coords"] = {"one": B.real("x0"), "two": [B.real("x0"), B.real("x1")]}[cfg["extra"]]
        else:
            nn, ne = B.dim("nn", 1), B.dim("ne", 1)
            if cfg["mode"] == "coords1d":
                kw["coordinates"] = (B.array("e1", (ne,)), B.array("n1", (nn,)))
            else:
                kw["coordinates"] = (B.array("E2", (nn, ne)), B.array("N2", (nn, ne)))
            if cfg.get("conflict") == "shape":
                kw["shape"] = (3, 3)
            if cfg.get("conflict") == "region":
                kw["region"] = _region_of(B)
        if cfg.get("proj"):
            kw["projection"] = SymProjection()
        if cfg.get("dims"):
            kw["dims"] = cfg["dims"]
        if cfg.get("names"):
            kw["data_names"] = cfg["names"]
        return (est,), kw

    def requires(self, a):
        conds = []
        if a.region is not None:
            w, e, s, n = a.region
            conds += [w <= e, s <= n]
        elif a.coordinates is None:
            w, e, s, n = a.self.region_
            conds += [w <= e, s <= n]
        if a.shape is not None and a.coordinates is None:
            conds += [a.shape[0] >= 1, a.shape[1] >= 1]
        if a.spacing is not None:
            conds += [a.spacing > 0]
        return and_(*conds) if conds else True

    def raises(self, a):
        out = []
        conflict = a.coordinates is not None and (a.spacing is not None or a.shape is not None or a.region is not None)
        out.append((ValueError, conflict))
        if not conflict:
            if a.coordinates is not None and as_array(a.coordinates[0]).ndim == 2:
                from .grids_c18 import is_meshgrid_pair
                from pyvc.contract import RaiseCond

                pos, neg = is_meshgrid_pair(as_array(a.coordinates[0]), as_array(a.coordinates[1]))
                out.append((ValueError, RaiseCond(neg, pos)))
            ncomp = a.self.ncomp
            bad_names = a.data_names is not None and len(_names_for(ncomp, a.data_names)) != ncomp
            neither = a.coordinates is None and a.shape is None and a.spacing is None
            out.append((ValueError, bad_names or neither))
        return out

    def samples(self, rng, nrng, tier):
        for _ in range(20 if tier == "thorough" else 8):
            est = ConcreteAsymmetric(rng.randint(1, 3))
            kw = {}
            mode = rng.choice(["shape", "spacing", "coords1d", "coords2d"])
            if mode in ("shape", "spacing"):
                if rng.random() < 0.6:
                    kw["region"] = (rng.uniform(-5, 0), rng.uniform(1, 5), rng.uniform(-3, 0), rng.uniform(0.5, 9))
                if mode == "shape":
                    kw["shape"] = (rng.randint(1, 4), rng.randint(2, 6))
                else:
                    kw["spacing"] = rng.choice([0.7, 1.0, (0.5, 1.3)])
                    kw["adjust"] = rng.choice(["spacing", "region"])
                kw["pixel_register"] = rng.random() < 0.4
                if rng.random() < 0.3:
                    kw["extra_coords"] = rng.choice([5.0, [1.0, 2.0]])
            else:
                e1, n1 = np.sort(nrng.uniform(-5, 5, rng.randint(2, 5))), np.sort(nrng.uniform(-5, 5, rng.randint(1, 4)))
                # explicit axes in ANY order: rasters usually run north -> south; value[i, j] must stay at (easting[j], northing[i])
                orient = rng.choice(["asc", "desc_n", "desc_e", "desc_both", "shuffled"])
                if orient in ("desc_n", "desc_both"):
                    n1 = n1[::-1].copy()
                if orient in ("desc_e", "desc_both"):
                    e1 = e1[::-1].copy()
                if orient == "shuffled":
                    e1, n1 = nrng.permutation(e1), nrng.permutation(n1)
                kw["coordinates"] = (e1, n1) if mode == "coords1d" else tuple(np.meshgrid(e1, n1))
            if rng.random() < 0.4:
                kw["projection"] = _concrete_projection(rng.choice(["affine", "swirl"]))
            if rng.random() < 0.3:
                kw["dims"] = ("lat", "lon")
            yield (est,), kw

    tol = (1e-9, 1e-9)

    def ensures(self, a, r):
        est = a.self
        out = {"is_a_dataset": hasattr(r, "data_vars")}
        if not out["is_a_dataset"]:
            return out
        v = ds_view(r)
        dims = tuple(a.dims) if a.dims is not None else ("northing", "easting")
        oke = dims[1] in v["coords"] and tuple(v["coords"][dims[1]][0]) == (dims[1],) and dims[0] in v["coords"] and tuple(v["coords"][dims[0]][0]) == (dims[0],)
        out["dims_are_northing_easting_or_as_requested"] = oke
        if not oke:
            return out
        ce, cn = v["coords"][dims[1]][1], v["coords"][dims[0]][1]
        if a.coordinates is None:
            reg = a.region if a.region is not None else est.region_
            w, e, s, n = reg
            kw = a.kwargs
            adjust, pixel = kw.get("adjust", "spacing"), kw.get("pixel_register", False)
            sp_n, sp_e = _spacing_pair(a.spacing)
            sh_n, sh_e = a.shape if a.shape is not None else (None, None)
            for k, f in _line_nodes_formula(_LineArgs(w, e, sh_e, sp_e, adjust, pixel), ce).items():
                out["easting_axis_is_that_of_grid_coordinates." + k] = f
            for k, f in _line_nodes_formula(_LineArgs(s, n, sh_n, sp_n, adjust, pixel), cn).items():
                out["northing_axis_is_that_of_grid_coordinates." + k] = f
            extra_vals = _extra_values(kw.get("extra_coords"))
        else:
            c0, c1 = as_array(a.coordinates[0]), as_array(a.coordinates[1])
            e1, n1 = (c0[0, :], c1[:, 0]) if c0.ndim == 2 else (c0, c1)
            out["easting_axis_is_the_given_easting"] = All(ce.shape[0] == e1.shape[0], Forall(e1.shape, lambda j: ce.at(j) == e1.at(j)))
            out["northing_axis_is_the_given_northing"] = All(cn.shape[0] == n1.shape[0], Forall(n1.shape, lambda i: cn.at(i) == n1.at(i)))
            extra_vals = []
        if a.coordinates is not None and as_array(a.coordinates[0]).ndim == 2:
            # predictions are taken at the GIVEN 2-D coordinates (a meshgrid up to numpy.allclose tolerance)
            g0, g1 = as_array(a.coordinates[0]), as_array(a.coordinates[1])
            at = lambda i, j: (g0.at(i, j), g1.at(i, j))
        else:
            at = lambda i, j: (ce.at(j), cn.at(i))
        names = _names_for(est.ncomp, a.data_names)
        out["variable_names_follow_the_argument_or_the_documented_defaults"] = list(v["vars"].keys()) == list(names)
        shape = (cn.shape[0], ce.shape[0])
        meta = "Generated by {}".format(repr(est))
        out["dataset_carries_the_gridders_description"] = v["attrs"].get("metadata") == meta
        for k, name in enumerate(names):
            if name not in v["vars"]:
                continue
            vd, arr = v["vars"][name]
            out["variable_%s_dims" % name] = tuple(vd) == dims
            out["variable_%s_carries_the_gridders_description" % name] = v["var_attrs"][name].get("metadata") == meta
            out["variable_%s_value_at_row_i_col_j_is_the_prediction_at_easting_j_northing_i" % name] = All(
                and_(arr.shape[0] == shape[0], arr.shape[1] == shape[1]),
                Forall(shape, lambda i, j, k=k, arr=arr: close(arr.at(i, j), P(est, k, *proj_point(a.projection, *at(i, j))), 1e3)),
            )
        xn = _extra_names(len(extra_vals))
        for name, val in zip(xn, extra_vals):
            ok = name in v["coords"] and tuple(v["coords"][name][0]) == dims
            out["extra_coordinate_%s_present_over_dims" % name] = ok
            if ok:
                arr = v["coords"][name][1]
                out["extra_coordinate_%s_is_the_constant" % name] = Forall(shape, lambda i, j, arr=arr, val=val: arr.at(i, j) == val)
        return out


@register
class GridderProfile(Contract):
    target = BC + ":BaseGridder.profile"
    stubs = {"profile_coordinates": M + ":profile_coordinates", "project_coordinates": BC + ":project_coordinates"}
    inline = ("check_data", "_get_dims", "_get_data_names", "_get_extra_coords_names", "check_data_names")
    frame_attrs = set()

    def configs(self, tier):
        return [{"ncomp": 1}, {"ncomp": 2, "proj": True}, {"ncomp": 1, "extra": "one", "dims": ("lat", "lon"), "names": "topo"}, {"ncomp": 3, "extra": "two"}]

    def setup(self, B, cfg):
        est = AbstractGridder("prf", cfg["ncomp"])
        est.nfit_ = 1
        kw = {}
        if cfg.get("proj"):
            kw["projection"] = SymProjection()
        if cfg.get("dims"):
            kw["dims"] = cfg["dims"]
        if cfg.get("names"):
            kw["data_names"] = cfg["names"]
        if cfg.get("extra"):
            kw["extra_coords"] = {"one": B.real("x0"), "two": [B.real("x0"), B.real("x1")]}[cfg["extra"]]
        return (est, (B.real("p1e"), B.real("p1n")), (B.real("p2e"), B.real("p2n")), B.int("size")), kw

    def requires(self, a):
        return a.size >= 1

    def samples(self, rng, nrng, tier):
        for _ in range(10 if tier == "thorough" else 5):
            kw = {}
            if rng.random() < 0.5:
                kw["projection"] = InvertibleProjection()
            if rng.random() < 0.3:
                kw["extra_coords"] = 3.0
            yield (ConcreteAsymmetric(rng.randint(1, 3)), (rng.uniform(-3, 0), rng.uniform(-3, 3)), (rng.uniform(1, 4), rng.uniform(-3, 3)), rng.choice([1, 2, 7])), kw
        for size in (2, 5, 9):  # a projection that is not affine: interior points must go through the INVERSE projection
            yield (ConcreteAsymmetric(rng.randint(1, 2)), (rng.uniform(-3, 0), rng.uniform(-2, -1)), (rng.uniform(1, 4), rng.uniform(1, 2.5)), size), {"projection": InvertibleProjection("nonlinear")}

    tol = (1e-8, 1e-8)

    def ensures(self, a, r):
        est = a.self
        cols = df_view(r)
        names = [k for k, _ in cols]
        dims = tuple(a.dims) if a.dims is not None else ("northing", "easting")
        dnames = list(_names_for(est.ncomp, a.data_names))
        xn = _extra_names(_n_extra(a.kwargs.get("extra_coords")))
        want = [dims[0], dims[1], "distance"] + xn + dnames
        out = {"columns_northing_easting_distance_extras_data": names == want}
        if names != want:
            return out
        cd = dict(cols)
        size = a.size
        out["size_rows"] = and_(*[c.shape[0] == size for _, c in cols])
        proj = a.projection
        q1 = proj_point(proj, a.point1[0], a.point1[1])
        q2 = proj_point(proj, a.point2[0], a.point2[1])
        dx, dy = q2[0] - q1[0], q2[1] - q1[1]
        sc = 1e3

        def on_segment(i):
            # the profile point i in (projected) Cartesian coordinates
            return q1[0], q1[1], dx, dy

        # distances measured from the first point, in projected units
        out["distance_column_is_evenly_spaced_cartesian_distance_from_the_first_point"] = Forall(
            (size,), lambda i: and_(cd["distance"].at(i) >= 0, implies(size >= 2, close(cd["distance"].at(i) * cd["distance"].at(i) * (size - 1) * (size - 1), i * i * (dx * dx + dy * dy), sc * sc)))
        )
        if proj is None:
            out["coordinates_evenly_spaced_on_the_segment"] = Forall(
                (size,), lambda i: implies(size >= 2, and_(close((cd[dims[1]].at(i) - q1[0]) * (size - 1), i * dx, sc), close((cd[dims[0]].at(i) - q1[1]) * (size - 1), i * dy, sc)))
            )
            for k, name in enumerate(dnames):
                out["data_%s_is_the_prediction_at_its_own_profile_point" % name] = Forall((size,), lambda i, k=k, name=name: close(cd[name].at(i), P(est, k, cd[dims[1]].at(i), cd[dims[0]].at(i)), sc))
        elif isinstance(proj, SymProjection):
            g = ctx().ghost.get(M + ":profile_coordinates", [])
            if len(g) == 1:
                pe, pn = g[0][1][0][0], g[0][1][0][1]
                out["end_points_projected_before_building_the_profile"] = and_(g[0][0].point1[0] == q1[0], g[0][0].point1[1] == q1[1], g[0][0].point2[0] == q2[0], g[0][0].point2[1] == q2[1])
                out["coordinates_mapped_back_with_the_inverse_projection"] = Forall(
                    (size,), lambda i: and_(cd[dims[1]].at(i) == proj_point(proj, pe.at(i), pn.at(i), True)[0], cd[dims[0]].at(i) == proj_point(proj, pe.at(i), pn.at(i), True)[1])
                )
                for k, name in enumerate(dnames):
                    out["data_%s_is_the_prediction_at_the_projected_profile_point" % name] = Forall((size,), lambda i, k=k, name=name: cd[name].at(i) == P(est, k, pe.at(i), pn.at(i)))
            else:
                out["one_profile_built"] = False
        else:
            # concrete invertible projection: predictions at the projected points, coordinates mapped back
            for k, name in enumerate(dnames):
                out["data_%s_is_the_prediction_at_the_projected_profile_point" % name] = Forall(
                    (size,), lambda i, k=k, name=name: close(cd[name].at(i), P(est, k, *proj_point(proj, cd[dims[1]].at(i), cd[dims[0]].at(i))), sc)
                )
            out["coordinates_evenly_spaced_on_the_projected_segment"] = Forall(
                (size,),
                lambda i: implies(
                    size >= 2,
                    and_(
                        close((proj_point(proj, cd[dims[1]].at(i), cd[dims[0]].at(i))[0] - q1[0]) * (size - 1), i * dx, sc),
                        close((proj_point(proj, cd[dims[1]].at(i), cd[dims[0]].at(i))[1] - q1[1]) * (size - 1), i * dy, sc),
                    ),
                ),
            )
        for name, val in zip(xn, _extra_values(a.kwargs.get("extra_coords"))):
            out["extra_column_%s_is_the_constant" % name] = Forall((size,), lambda i, name=name, val=val: cd[name].at(i) == val)
        return out


@register
class GridderScatter(Contract):
    target = BC + ":BaseGridder.scatter"
    stubs = {"scatter_points": M + ":scatter_points", "get_instance_region": BC + ":get_instance_region", "project_coordinates": BC + ":project_coordinates"}
    inline = ("check_data", "_get_dims", "_get_data_names", "_get_extra_coords_names", "check_data_names")
    frame_attrs = set()

    def configs(self, tier):
        return [{"ncomp": 1, "region": True}, {"ncomp": 2, "region": False, "proj": True}, {"ncomp": 1, "region": True, "extra": "one", "dims": ("lat", "lon")}]

    def setup(self, B, cfg):
        est = AbstractGridder("sct", cfg["ncomp"])
        est.nfit_ = 1
        est.region_ = tuple(B.real("f" + k) for k in "WESN")
        kw = dict(region=_region_of(B) if cfg["region"] else None, size=B.int("size"), random_state=B.int("seed"))
        if cfg.get("proj"):
            kw["projection"] = SymProjection()
        if cfg.get("dims"):
            kw["dims"] = cfg["dims"]
        if cfg.get("extra"):
            kw["extra_coords"] = B.real("x0")
        return (est,), kw

    def requires(self, a):
        w, e, s, n = a.region if a.region is not None else a.self.region_
        return and_(a.size >= 0, w <= e, s <= n)

    def expect_warning(self, a):
        return [("FutureWarning", True)]

    def samples(self, rng, nrng, tier):
        for _ in range(6):
            kw = dict(size=rng.choice([1, 5, 40]), random_state=rng.randint(0, 999))
            if rng.random() < 0.5:
                kw["region"] = (rng.uniform(-5, 0), rng.uniform(1, 5), rng.uniform(-3, 0), rng.uniform(0.5, 9))
            if rng.random() < 0.4:
                kw["projection"] = _concrete_projection("affine")
            yield (ConcreteAsymmetric(rng.randint(1, 2)),), kw

    tol = (1e-9, 1e-9)

    def ensures(self, a, r):
        est = a.self
        cols = df_view(r)
        names = [k for k, _ in cols]
        dims = tuple(a.dims) if a.dims is not None else ("northing", "easting")
        dnames = list(_names_for(est.ncomp, a.data_names))
        xn = _extra_names(_n_extra(a.kwargs.get("extra_coords")))
        want = [dims[0], dims[1]] + xn + dnames
        out = {"columns_northing_easting_extras_data": names == want}
        if names != want:
            return out
        cd = dict(cols)
        w, e, s, n = a.region if a.region is not None else (est.region if type(est).__name__ == "CheckerBoard" else est.region_)
        size = a.size
        out["size_rows"] = and_(*[c.shape[0] == size for _, c in cols])
        out["points_lie_in_the_region"] = Forall((size,), lambda i: and_(w <= cd[dims[1]].at(i), cd[dims[1]].at(i) <= e, s <= cd[dims[0]].at(i), cd[dims[0]].at(i) <= n))
        c = ctx()
        if c.concrete:
            ref = verde.scatter_points((float(w), float(e), float(s), float(n)), int(size), random_state=a.random_state, **a.kwargs)
            out["points_are_the_reproducible_scatter_points_of_the_region"] = bool(np.array_equal(unwrap(cd[dims[1]]), ref[0]) and np.array_equal(unwrap(cd[dims[0]]), ref[1]))
        else:
            g = c.ghost.get(M + ":scatter_points", [])
            ok = len(g) == 1
            out["points_are_the_scatter_points_of_the_region_size_and_seed"] = ok and g[0][0].size is a.size and g[0][0].random_state is a.random_state and all(x is y for x, y in zip(g[0][0].region, (w, e, s, n)))
            if ok:
                se, sn = g[0][1][0], g[0][1][1]
                out["coordinate_columns_are_those_points_unprojected"] = Forall((size,), lambda i: and_(cd[dims[1]].at(i) == se.at(i), cd[dims[0]].at(i) == sn.at(i)))
        for k, name in enumerate(dnames):
            out["data_%s_is_the_prediction_at_its_own_point" % name] = Forall((size,), lambda i, k=k, name=name: close(cd[name].at(i), P(est, k, *proj_point(a.projection, cd[dims[1]].at(i), cd[dims[0]].at(i))), 1e3))
        return out


@register
class CheckerBoardScatter(GridderScatter):
    """CheckerBoard overrides scatter (same contract, no deprecation warning, the region defaults to its own)."""

    target = "verde.synthetic:CheckerBoard.scatter"

    def patch_modules(self, P):
        # an override that delegates to BaseGridder.scatter runs the base class's module: same stubs there
        import verde.base.base_classes as bc
        import verde.synthetic as sy
        from pyvc.contract import default_patches

        default_patches(P, sy)
        default_patches(P, bc)

    def configs(self, tier):
        return [{"region": True}, {"region": False, "proj": True}, {"region": False, "extra": "one", "dims": ("lat", "lon")}, {"region": True, "data_names": "anomaly"}, {"region": False, "dims": ("lat", "lon"), "data_names": ("anomaly",)}]

    def setup(self, B, cfg):
        from .models_c03 import _checker

        est = _checker(B, "default")
        est.ncomp = 1
        kw = dict(region=_region_of(B) if cfg["region"] else None, size=B.int("size"), random_state=B.int("seed"))
        if cfg.get("proj"):
            kw["projection"] = SymProjection()
        if cfg.get("dims"):
            kw["dims"] = cfg["dims"]
        if cfg.get("data_names"):
            kw["data_names"] = cfg["data_names"]
        if cfg.get("extra"):
            kw["extra_coords"] = B.real("x0")
        return (est,), kw

    def requires(self, a):
        w, e, s, n = a.region if a.region is not None else a.self.region
        cw, ce, cs, cn = a.self.region
        return and_(a.size >= 0, w <= e, s <= n, cw < ce, cs < cn)

    def expect_warning(self, a):
        return None

    def samples(self, rng, nrng, tier):
        import verde.synthetic

        for _ in range(4):
            est = verde.synthetic.CheckerBoard(amplitude=rng.uniform(1, 50), region=(rng.uniform(-5, 0), rng.uniform(1, 5), rng.uniform(-3, 0), rng.uniform(0.5, 9)))
            est.ncomp = 1
            kw = dict(size=rng.choice([1, 10]), random_state=rng.randint(0, 99))
            if rng.random() < 0.6:
                kw.update(rng.choice([dict(dims=("latitude", "longitude")), dict(data_names="anomaly"), dict(dims=("y", "x"), data_names=["bouguer"])]))
            yield (est,), kw
