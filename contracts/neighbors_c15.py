"""Sidecar contracts for property C15: KNeighbors, median_distance, distance_mask."""
import itertools

import numpy as np

from pyvc import spec as S
from pyvc.arr import SymArr, as_array, flat_index, havoc_array, new_array
from pyvc.concrete import aliases, wrap
from pyvc.contract import REGISTRY, Args, Contract, register
from pyvc.core import and_, ctx, iff, implies, is_sym, ite, not_, or_, spec_sqrt
from pyvc.prelude_np import NP
from pyvc.prelude_scipy import SymKDTree
from pyvc.prelude_xr import SymDataArray, SymDataset
from pyvc.spec import All, AnyOf, Exists, ExistsInt, Forall, Imp, close, ge, hint, le
from pyvc.sums import v_mean, v_median

from .base_utils import _tup
from .blocks_c08 import BU, flat
from .coordinates_c07 import M
from .coordinates_c13 import SymProjection, _concrete_projection, _coords, _rand_coords

import math


def kd_points(tree):
    """(n, point(j) -> tuple) for a SymKDTree or a real scipy cKDTree."""
    if isinstance(tree, SymKDTree):
        return tree.n, tree.point
    data = np.asarray(tree.data)
    return data.shape[0], (lambda j: tuple(float(v) for v in data[int(j)]))


def d2(p, q):
    """squared distance from query/point p to data point q (same argument order as the kd-tree contract)"""
    from pyvc.core import sqdist

    return sqdist(tuple(p), tuple(q))


def vsqrt(x):
    return spec_sqrt(x) if is_sym(x) else math.sqrt(x)


def _ghost_kd_idx():
    """Witness for 'there is a neighbour table': the index array returned by the kd-tree query."""
    c = ctx()
    out = []
    for tree, nq, xq, k, idx in c.ghost.get("kd.query", []):
        out.append((idx,))
    return out[-1:]


def _brute_neighbours(points, queries, k, skip_self=False):
    """Concrete candidates: brute-force k nearest (queries with distance ties are left out -> None)."""
    P = np.array(points, dtype=float)
    tab = []
    for qi, q in enumerate(queries):
        dd = ((P - np.array(q)) ** 2).sum(axis=1)
        order = np.argsort(dd, kind="stable")
        if skip_self:
            order = order[order != qi]
        sel = order[:k]
        rest = order[k:]
        tie = len(rest) > 0 and abs(dd[rest[0]] - dd[sel[-1]]) <= 1e-12 * max(1.0, dd[sel[-1]])
        tab.append(None if tie else [int(v) for v in sel])
    return tab


class _Table:
    """Concrete neighbour table with the .at(q, c) interface; rows may be None (ties: skipped)."""

    def __init__(self, rows, k):
        self.rows, self.k = rows, k

    def at(self, q, c):
        return self.rows[int(q)][int(c)]

    def skip(self, q):
        return self.rows[int(q)] is None


def _skip(tab, q):
    return tab.skip(q) if isinstance(tab, _Table) else False


REDUCTIONS = {"mean": (NP.mean, np.mean, v_mean), "median": (NP.median, np.median, v_median), "min": (NP.min, np.min, None), "max": (NP.max, np.max, None)}


def _reduce_spec(name, vals):
    from pyvc.core import vmax, vmin

    if name == "mean":
        return v_mean(vals) if any(is_sym(v) for v in vals) else sum(vals) / len(vals)
    if name == "median":
        return v_median(vals) if any(is_sym(v) for v in vals) else float(np.median(vals))
    r = vals[0]
    for v in vals[1:]:
        r = (vmin if name == "min" else vmax)(r, v) if (is_sym(r) or is_sym(v)) else (min(r, v) if name == "min" else max(r, v))
    return r


def _reduction_name(fn):
    for name, (sym, real, _) in REDUCTIONS.items():
        if fn is real or fn == sym or getattr(fn, "__name__", "") in (name, "a" + name):
            return name
    return None


@register
class KNeighborsFit(Contract):
    target = "verde.neighbors:KNeighbors.fit"
    stubs = {"check_fit_input": BU + ":check_fit_input", "get_region": M + ":get_region", "kdtree": "verde.utils:kdtree"}
    frame_attrs = {"region_", "tree_", "data_"}

    def configs(self, tier):
        # k larger than the number of data points is not excluded: fit must then still leave the parameters alone
        return [{"rank": 1, "weights": False}, {"rank": 2, "weights": False}, {"rank": 1, "weights": True}, {"rank": 1, "weights": False, "extra": 1}, {"rank": 1, "weights": False, "k": 3}]

    def setup(self, B, cfg):
        import verde

        est = verde.KNeighbors(k=cfg.get("k", 1), reduction=NP.mean)
        coords = _coords(B, cfg["rank"], cfg.get("extra", 0), minsize=1)
        data = B.array("data", coords[0].shape)
        w = B.array("weights", coords[0].shape) if cfg["weights"] else None
        return (est, coords, data), dict(weights=w)

    def expect_warning(self, a):
        return [("UserWarning", a.weights is not None)]

    def samples(self, rng, nrng, tier):
        import verde

        for _ in range(10):
            arrs = _rand_coords(rng, nrng, rng.choice([1, 2]), 1)
            yield (verde.KNeighbors(), arrs[:2], arrs[2]), {}
        yield (verde.KNeighbors(k=5), (np.array([0.0, 1.0, 2.0]), np.array([0.0, 1.0, 0.5])), np.array([1.0, 2.0, 3.0])), {}

    def ensures(self, a, r):
        est = a.self
        out = {"returns_self": r is est}
        old = getattr(a, "old", None)
        if old is not None and hasattr(old, "self"):
            pass
        ok = all(hasattr(est, k) for k in ("region_", "tree_", "data_"))
        out["fitted_attributes_present"] = ok
        if not ok:
            return out
        reg = REGISTRY[M + ":get_region"].ensures(Args({"coordinates": a.coordinates[:2]}), tuple(wrap(tuple(est.region_))))
        for k, f in reg.items():
            out["region_." + k] = f
        e, n = flat(a.coordinates[0]), flat(a.coordinates[1])
        npts, point = kd_points(est.tree_)
        out["tree_over_all_raveled_points_in_order"] = All(npts == e.shape[0], Forall((e.shape[0],), lambda j: and_(point(j)[0] == e.at(j), point(j)[1] == n.at(j))))
        dat = wrap(est.data_)
        okd = isinstance(dat, SymArr) and dat.ndim == 1
        out["data_is_1d"] = okd
        if okd:
            fd = flat(a.data)
            out["data_is_raveled_copy_in_the_same_order"] = All(dat.shape[0] == fd.shape[0], Forall(fd.shape, lambda j: dat.at(j) == fd.at(j)))
            out["data_is_a_copy_not_a_view_of_the_input"] = not aliases(dat, a.data)
        return out


def _fitted_knn(B, k, reduction, n_name="n_data", dkind="f"):
    import verde

    est = verde.KNeighbors(k=k, reduction=REDUCTIONS[reduction][0])
    n = B.dim(n_name, 1)
    pts = B.array("data_points", (n, 2))
    est.tree_ = SymKDTree(pts)
    est.data_ = B.array("data_values", (n,), dkind)
    est.region_ = (B.real("fW"), B.real("fE"), B.real("fS"), B.real("fN"))
    return est


@register
class KNeighborsPredict(Contract):
    target = "verde.neighbors:KNeighbors.predict"
    stubs = {"n_1d_arrays": BU + ":n_1d_arrays"}
    frame_attrs = set()
    cover_raise = True

    def configs(self, tier):
        out = []
        for k, red in ((1, "mean"), (2, "mean"), (3, "mean"), (2, "median"), (2, "min"), (3, "max")):
            for rank in (1, 2):
                out.append({"k": k, "reduction": red, "rank": rank})
        out.append({"k": 1, "reduction": "mean", "rank": 1, "extra": 1})
        out.append({"k": 1, "reduction": "mean", "rank": 1, "fitted": False})
        # integer-valued data kept with an integer dtype: the mean / median of k >= 2 of them is generally fractional
        out += [{"k": 2, "reduction": "mean", "rank": 1, "dkind": "i"}, {"k": 2, "reduction": "median", "rank": 2, "dkind": "i"}, {"k": 3, "reduction": "max", "rank": 1, "dkind": "i"}]
        return out

    def setup(self, B, cfg):
        import verde

        if cfg.get("fitted", True):
            est = _fitted_knn(B, cfg["k"], cfg["reduction"], dkind=cfg.get("dkind", "f"))
        else:
            est = verde.KNeighbors(k=cfg["k"], reduction=NP.mean)
        coords = _coords(B, cfg["rank"], cfg.get("extra", 0), names=("q_easting", "q_northing"), minsize=0)
        return (est, coords), {}

    def requires(self, a):
        est = a.self
        if not hasattr(est, "tree_"):
            return True
        n, _ = kd_points(est.tree_)
        return and_(est.k >= 1, est.k <= n)

    def raises(self, a):
        from sklearn.exceptions import NotFittedError

        return [(NotFittedError, not hasattr(a.self, "tree_"))]

    def samples(self, rng, nrng, tier):
        import verde

        for _ in range(40 if tier == "thorough" else 14):
            n = rng.randint(3, 12)
            arrs = [nrng.uniform(-5, 5, n) for _ in range(3)]
            k = rng.randint(1, min(n, 4))
            name = rng.choice(["mean", "median", "min", "max"])
            est = verde.KNeighbors(k=k, reduction=REDUCTIONS[name][1]).fit((arrs[0], arrs[1]), arrs[2])
            q = _rand_coords(rng, nrng, rng.choice([1, 2]), 0, scale=6.0)
            yield (est, q), {}
        # data coordinates of mixed dtype (integer easting, float northing and the other way round): the neighbours are
        # the nearest in the EXACT coordinates
        for _ in range(3):
            n = rng.randint(5, 10)
            ie, fn = nrng.permutation(np.arange(n * 2))[:n], nrng.uniform(0, 2 * n, n)
            vals = nrng.uniform(-5, 5, n)
            q = (nrng.uniform(0, 2 * n, 7), nrng.uniform(0, 2 * n, 7))
            yield (verde.KNeighbors(k=rng.randint(1, 3)).fit((ie, fn), vals), q), {}
            yield (verde.KNeighbors(k=1).fit((fn, ie.astype("int32")), vals), q), {}
        for dt in ("int64", "int32", "float32", "uint8"):  # data values of other dtypes (counts, class codes, float32 grids)
            n = rng.randint(6, 12)
            vals = nrng.randint(0, 50, n).astype(dt)
            est = verde.KNeighbors(k=rng.randint(2, 4), reduction=rng.choice([np.mean, np.median])).fit((nrng.uniform(-5, 5, n), nrng.uniform(-5, 5, n)), vals)
            yield (est, _rand_coords(rng, nrng, rng.choice([1, 2]), 0, scale=6.0)), {}
        yield (verde.KNeighbors(), (np.zeros(2), np.zeros(2))), {}

    def ensures(self, a, r):
        est = a.self
        qe, qn = flat(a.coordinates[0]), flat(a.coordinates[1])
        ok = isinstance(r, SymArr) and r.ndim == a.coordinates[0].ndim
        out = {"prediction_has_the_query_rank": ok}
        if not ok:
            return out
        out["prediction_has_the_query_shape"] = and_(*[x == y for x, y in zip(r.shape, a.coordinates[0].shape)])
        n, point = kd_points(est.tree_)
        k = int(est.k)
        red = _reduction_name(est.reduction)
        if red is None:
            return out
        rf = flat(r)
        nq = qe.shape[0]
        dat = wrap(est.data_)

        def body(nbr):
            def row(q):
                if isinstance(nbr, _Table) and nbr.skip(q):
                    return [0] * k  # a query with a distance tie: skipped by every clause below (placeholders)
                return [nbr.at(q, c) for c in range(k)]

            parts = [
                Forall((nq,), lambda q: or_(_skip(nbr, q), and_(*[and_(0 <= j, j < n) for j in row(q)]))),
                Forall((nq,), lambda q: or_(_skip(nbr, q), and_(*[row(q)[s] != row(q)[t] for s in range(k) for t in range(s + 1, k)]))),
                # every other data point is at least as far as each of the k neighbours
                Forall(
                    (nq, n),
                    lambda q, j: or_(
                        _skip(nbr, q),
                        or_(*[j == t for t in row(q)]),
                        and_(*[le(d2((qe.at(q), qn.at(q)), point(t)), d2((qe.at(q), qn.at(q)), point(j))) for t in row(q)]),
                    ),
                ),
                Forall((nq,), lambda q: or_(_skip(nbr, q), close(rf.at(q), _reduce_spec(red, [dat.at(t) for t in row(q)]), 1.0))),
            ]
            return All(*parts)

        def candidates():
            pts = [point(j) for j in range(int(n))]
            qs = [(qe.at(q), qn.at(q)) for q in range(int(nq))]
            return [(_Table(_brute_neighbours(pts, qs, k), k),)]

        def witnesses():
            g = _ghost_kd_idx()
            if not g:
                return []
            idx = g[0][0]
            if idx.ndim == 1:
                idx = idx.reshape((idx.shape[0], 1))
            return [(idx,)]

        out["value_is_reduction_of_exactly_the_k_nearest_data_values"] = ExistsInt(1, body, witnesses=witnesses, candidates=candidates)
        return out


@register
class MedianDistance(Contract):
    target = "verde.distances:median_distance"
    stubs = {"n_1d_arrays": BU + ":n_1d_arrays", "kdtree": "verde.utils:kdtree"}

    def configs(self, tier):
        out = []
        for k in (1, 2, 3):
            out.append({"rank": 1, "k": k, "proj": False})
        out += [{"rank": 2, "k": 1, "proj": False}, {"rank": 1, "k": 2, "proj": True}, {"rank": 2, "k": 2, "proj": True}]
        return out

    def setup(self, B, cfg):
        coords = _coords(B, cfg["rank"], 0, minsize=cfg["k"] + 1)
        return (coords,), dict(k_nearest=cfg["k"], projection=SymProjection() if cfg["proj"] else None)

    @staticmethod
    def _points(a):
        e, n = flat(a.coordinates[0]), flat(a.coordinates[1])
        proj = a.projection
        if proj is None:
            return e.shape[0], (lambda j: (e.at(j), n.at(j)))
        if isinstance(proj, SymProjection):
            return e.shape[0], (lambda j: proj.point(e.at(j), n.at(j)))

        def pt(j):
            x, y = proj(np.array([float(e.at(j))]), np.array([float(n.at(j))]))
            return float(x[0]), float(y[0])

        return e.shape[0], pt

    def requires(self, a):
        n, point = self._points(a)
        # pairwise distinct points (after the projection), and more than k_nearest of them
        return All(n >= a.k_nearest + 1, Forall((n, n), lambda p, j: implies(p != j, d2(point(p), point(j)) > 0)))

    def samples(self, rng, nrng, tier):
        for _ in range(40 if tier == "thorough" else 14):
            coords = _rand_coords(rng, nrng, rng.choice([1, 2]), 0, scale=10.0)
            while coords[0].size < 5:
                coords = _rand_coords(rng, nrng, 2, 0, scale=10.0)
            yield (coords,), dict(k_nearest=rng.randint(1, 3), projection=rng.choice([None, _concrete_projection("affine"), _concrete_projection("swirl")]))
        for _ in range(2):  # mixed dtypes
            n = rng.randint(6, 10)
            yield ((nrng.permutation(np.arange(n * 2))[:n], nrng.uniform(0, 2 * n, n)),), dict(k_nearest=rng.randint(1, 2))

    def ensures(self, a, r):
        ok = isinstance(r, SymArr) and r.ndim == a.coordinates[0].ndim
        out = {"result_has_the_input_rank": ok}
        if not ok:
            return out
        out["result_has_the_input_shape"] = and_(*[x == y for x, y in zip(r.shape, a.coordinates[0].shape)])
        n, point = self._points(a)
        k = int(a.k_nearest)
        rf = flat(r)

        cshape = a.coordinates[0].shape

        def body(nbr, off):
            def row(p):
                if isinstance(nbr, SymArr):
                    # instantiation hints: the kd-tree / distinctness facts at (p, p) and (p, neighbour t)
                    hint(p, p)
                    for t in range(k + off):
                        hint(p, nbr.at(p, t))
                if isinstance(nbr, _Table) and nbr.skip(p):
                    return [0] * k  # a query with a distance tie: skipped by every clause below (placeholders)
                return [nbr.at(p, c + off) for c in range(k)]

            def per_point(f):
                # quantify over the natural (multi-)index of the input; p is its C-order flat position
                return Forall(cshape, lambda *ix: f(flat_index(ix, cshape), ix))

            return All(
                per_point(lambda p, ix: or_(_skip(nbr, p), and_(*[and_(0 <= j, j < n, j != p) for j in row(p)]))),
                per_point(lambda p, ix: or_(_skip(nbr, p), and_(*[row(p)[s] != row(p)[t] for s in range(k) for t in range(s + 1, k)]))),
                Forall(
                    tuple(cshape) + (n,),
                    lambda *ixj: (lambda p, j: or_(_skip(nbr, p), j == p, or_(*[j == t for t in row(p)]), hint(p, j) and and_(*[le(d2(point(p), point(t)), d2(point(p), point(j))) for t in row(p)])))(
                        flat_index(ixj[:-1], cshape), ixj[-1]
                    ),
                ),
                per_point(lambda p, ix: or_(_skip(nbr, p), close(r.at(*ix), _reduce_spec("median", [vsqrt(d2(point(p), point(t))) for t in row(p)]), 1.0))),
            )

        def candidates():
            pts = [point(j) for j in range(int(n))]
            return [(_Table(_brute_neighbours(pts, pts, k, skip_self=True), k), 0)]

        def witnesses():
            g = _ghost_kd_idx()
            return [(g[0][0], 1)] if g else []

        out["median_distance_to_the_k_nearest_other_points"] = ExistsInt(2, body, witnesses=witnesses, candidates=candidates)
        return out


@register
class GetGridCoordinates(Contract):
    functional = True
    target = "verde.mask:_get_grid_coordinates"
    stubs = {"check_coordinates": BU + ":check_coordinates"}
    cover_raise = True

    def configs(self, tier):
        return [{"form": "coords", "rank": 1}, {"form": "coords", "rank": 2}, {"form": "grid"}, {"form": "none"}]

    def setup(self, B, cfg):
        if cfg["form"] == "coords":
            return (_coords(B, cfg["rank"], 0, names=("q_easting", "q_northing"), minsize=0), None), {}
        if cfg["form"] == "grid":
            return (None, _sym_grid(B)), {}
        return (None, None), {}

    def raises(self, a):
        return [(ValueError, a.coordinates is None and a.grid is None)]

    def havoc(self, a):
        if a.coordinates is not None:
            return (a.coordinates, a.coordinates[0].shape)
        e1, n1 = _grid_axes(a.grid)
        es, ns = e1.snapshot(), n1.snapshot()
        shape = (n1.shape[0], e1.shape[0])
        return ([new_array(shape, lambda idx: es(idx[1]), "f"), new_array(shape, lambda idx: ns(idx[0]), "f")], shape)

    def ensures(self, a, r):
        ok = isinstance(r, tuple) and len(r) == 2
        out = {"returns_coordinates_and_shape": ok}
        if not ok:
            return out
        coords, shape = r
        if a.coordinates is not None:
            out["given_coordinates_are_returned"] = coords is a.coordinates
            out["shape_is_the_coordinate_shape"] = len(shape) == a.coordinates[0].ndim and and_(*[x == y for x, y in zip(shape, a.coordinates[0].shape)])
        else:
            e1, n1 = _grid_axes(a.grid)
            out["shape_is_northing_by_easting"] = len(shape) == 2 and and_(shape[0] == n1.shape[0], shape[1] == e1.shape[0])
            E, N = coords[0], coords[1]
            out["meshgrid_of_the_grid_axes"] = All(
                Forall(E.shape, lambda i, j: E.at(i, j) == e1.at(j)),
                Forall(N.shape, lambda i, j: N.at(i, j) == n1.at(i)),
            )
        return out

    native_replay = False


def _sym_grid(B, dims=("northing", "easting")):
    nn, ne = B.dim("g_nn", 1), B.dim("g_ne", 1)
    coords = {dims[1]: B.array("g_easting", (ne,)), dims[0]: B.array("g_northing", (nn,))}
    data_vars = {"scalars": (dims, B.array("g_values", (nn, ne)))}
    return SymDataset(data_vars, coords)


def _grid_axes(grid):
    """(easting axis, northing axis) of a grid given as Dataset proxy or real xarray object."""
    if isinstance(grid, SymDataset):
        dims = [grid[v].dims for v in grid.data_vars][0]
        return grid.coords[dims[1]].values, grid.coords[dims[0]].values
    from pyvc.concrete import wrap

    dims = [grid[v].dims for v in grid.data_vars][0]
    return wrap(np.asarray(grid.coords[dims[1]].values, dtype=float)), wrap(np.asarray(grid.coords[dims[0]].values, dtype=float))


@register
class DistanceMask(Contract):
    target = "verde.mask:distance_mask"
    stubs = {"_get_grid_coordinates": "verde.mask:_get_grid_coordinates", "n_1d_arrays": BU + ":n_1d_arrays", "kdtree": "verde.utils:kdtree"}

    def configs(self, tier):
        return [
            {"form": "coords", "rank": 1, "drank": 1, "proj": False},
            {"form": "coords", "rank": 2, "drank": 1, "proj": False},
            {"form": "coords", "rank": 1, "drank": 2, "proj": True},
            {"form": "coords", "rank": 2, "drank": 1, "proj": True},
            {"form": "grid", "drank": 1, "proj": False},
            {"form": "grid", "drank": 1, "proj": True},
        ]

    def setup(self, B, cfg):
        data = _coords(B, cfg["drank"], 0, names=("d_easting", "d_northing"), minsize=1)
        kw = dict(projection=SymProjection() if cfg["proj"] else None)
        if cfg["form"] == "coords":
            kw["coordinates"] = _coords(B, cfg["rank"], 0, names=("q_easting", "q_northing"), minsize=0)
        else:
            kw["grid"] = _sym_grid(B)
        return (data, B.real("maxdist")), kw

    def requires(self, a):
        return a.maxdist >= 0

    def samples(self, rng, nrng, tier):
        import xarray as xr

        for _ in range(30 if tier == "thorough" else 10):
            data = _rand_coords(rng, nrng, rng.choice([1, 2]), 0, scale=10.0)
            proj = rng.choice([None, _concrete_projection("affine")])
            maxdist = rng.uniform(0.5, 6.0)
            if rng.random() < 0.5:
                yield (data, maxdist), dict(coordinates=_rand_coords(rng, nrng, rng.choice([1, 2]), 0, scale=12.0), projection=proj)
            else:
                east, north = np.linspace(-10, 10, rng.randint(2, 5)), np.linspace(-8, 12, rng.randint(2, 4))
                grid = xr.Dataset({"scalars": (("northing", "easting"), nrng.uniform(1, 2, (north.size, east.size)))}, coords={"easting": east, "northing": north})
                yield (data, maxdist), dict(grid=grid, projection=proj)
        # "no farther than maxdist" is INCLUSIVE: integer lattices, where many nearest distances equal maxdist exactly
        # (axis-aligned and 3-4-5 offsets), and maxdist = 0 with a query point on a data point
        dl = (np.array([0.0, 10.0, 3.0]), np.array([0.0, 0.0, 9.0]))
        qe, qn = np.meshgrid(np.arange(-6.0, 17.0), np.arange(-6.0, 15.0))
        for maxdist in (5.0, 2.0, 0.0):
            yield (dl, maxdist), dict(coordinates=(qe.ravel(), qn.ravel()))
            yield (dl, maxdist), dict(coordinates=(qe, qn))

    def ensures(self, a, r):
        de, dn = flat(a.data_coordinates[0]), flat(a.data_coordinates[1])
        nd = de.shape[0]
        proj = a.projection

        def P(x, y):
            if proj is None:
                return (x, y)
            if isinstance(proj, SymProjection):
                return proj.point(x, y)
            px, py = proj(np.array([float(x)]), np.array([float(y)]))
            return float(px[0]), float(py[0])

        def near(qx, qy, j):
            dd = d2(P(qx, qy), P(de.at(j), dn.at(j)))
            return le(vsqrt(dd), a.maxdist)

        def far_margin(qx, qy, j):
            """concrete only: ignore data points within round-off of the maxdist circle"""
            if is_sym(qx) or is_sym(a.maxdist):
                return True
            dd = math.sqrt(d2(P(qx, qy), P(de.at(j), dn.at(j))))
            return abs(dd - a.maxdist) > 1e-9 * max(1.0, a.maxdist)

        out = {}
        if a.grid is None:
            qe0 = a.coordinates[0]
            ok = isinstance(r, SymArr) and r.kind == "b" and r.ndim == qe0.ndim
            out["boolean_mask_of_the_query_rank"] = ok
            if not ok:
                return out
            out["mask_has_the_query_shape"] = and_(*[x == y for x, y in zip(r.shape, qe0.shape)])
            qE, qN = a.coordinates[0], a.coordinates[1]
            qshape = qE.shape

            def wherever(*ixj):
                ix, j = ixj[:-1], ixj[-1]
                hint(flat_index(ix, qshape), j)
                return implies(and_(near(qE.at(*ix), qN.at(*ix), j), far_margin(qE.at(*ix), qN.at(*ix), j)), r.at(*ix))

            out["true_wherever_some_data_point_is_within_maxdist"] = Forall(tuple(qshape) + (nd,), wherever)
            def nearest_witness(ix):
                g = _ghost_kd_idx()
                if not g or not any(is_sym(i) for i in ix):
                    return None
                return [(g[0][0].at(flat_index(ix, qshape)),)]

            out["true_only_where_some_data_point_is_within_maxdist"] = Forall(
                qshape,
                lambda *ix: Imp(r.at(*ix), Exists((nd,), lambda j: or_(near(qE.at(*ix), qN.at(*ix), j), not_(far_margin(qE.at(*ix), qN.at(*ix), j))), witnesses=nearest_witness(ix))),
            )
            return out
        # grid form
        e1, n1 = _grid_axes(a.grid)

        def grid_witness(i, j):
            g = _ghost_kd_idx()
            if not g or not is_sym(i):
                return None
            return [(g[0][0].at(flat_index((i, j), (n1.shape[0], e1.shape[0]))),)]

        names = list(a.grid.data_vars.keys()) if isinstance(a.grid, SymDataset) else list(a.grid.data_vars)
        ok = hasattr(r, "data_vars") and list(r.data_vars.keys() if isinstance(r, SymDataset) else r.data_vars) == names
        out["returns_a_grid_with_the_same_variables"] = ok
        if not ok:
            return out
        for v in names:
            vals = r[v].values if isinstance(r, SymDataset) else None
            if vals is None:
                from pyvc.concrete import wrap

                vals = wrap(np.asarray(r[v].values, dtype=float))
            src = a.grid[v].values if isinstance(a.grid, SymDataset) else None
            out["%s.shape_is_northing_by_easting" % v] = vals.ndim == 2 and and_(vals.shape[0] == n1.shape[0], vals.shape[1] == e1.shape[0])
            if vals.ndim != 2:
                continue
            out["%s.cells_near_data_keep_their_value" % v] = Forall(
                (n1.shape[0], e1.shape[0], nd),
                lambda i, j, t, vals=vals, src=src: implies(
                    and_(near(e1.at(j), n1.at(i), t), far_margin(e1.at(j), n1.at(i), t)),
                    and_(not_(vals.nan_at(i, j)), True if src is None else vals.at(i, j) == src.at(i, j)),
                ),
            )
            out["%s.cells_far_from_all_data_are_blanked" % v] = Forall(
                (n1.shape[0], e1.shape[0]),
                lambda i, j, vals=vals: Imp(
                    not_(vals.nan_at(i, j)),
                    Exists((nd,), lambda t: or_(near(e1.at(j), n1.at(i), t), not_(far_margin(e1.at(j), n1.at(i), t))), witnesses=grid_witness(i, j)),
                ),
            )
        return out
