"""Contracts for property C20 (roll-up): purity, repeatability, history freedom, clone/get_params,
rejection of inconsistent input. Most obligations are the frame / raises obligations of the
contracts of the other properties, re-discharged here; this module adds the history (poisoned
refit) and constructor round-trip contracts."""
import numpy as np

from pyvc.arr import SymArr, as_array, havoc_array, new_array
from pyvc.concrete import unwrap, wrap
from pyvc.contract import REGISTRY, Args, Contract, register
from pyvc.core import SymNum, Unsupported, and_, ctx, implies, is_sym, not_, or_
from pyvc.prelude_np import NP
from pyvc.spec import All, Forall

from .coordinates_c13 import _coords, _rand_coords
from .lsq_c02 import SplineFit, TrendFit, VectorSplineFit
from .models_c03 import ScipyFit
from .neighbors_c15 import KNeighborsFit

import verde


class PoisonUsed(Exception):
    pass


class Poison:
    """A fitted attribute left over from a PREVIOUS fit: any use of it is a history dependence."""

    def _boom(self, *a, **k):
        raise PoisonUsed("a result depends on a fitted attribute of a previous fit")

    __getattr__ = __getitem__ = __call__ = __iter__ = __len__ = __add__ = __radd__ = __mul__ = __rmul__ = __sub__ = __rsub__ = __truediv__ = __bool__ = __array__ = _boom


def _poisoned(cls, attrs, key):
    class Refit(cls):
        pass

    Refit.key = key
    Refit.samples = None
    Refit.cover_raise = False
    base_setup = cls.setup
    base_ensures = cls.ensures

    def setup(self, B, cfg):
        args, kwargs = base_setup(self, B, cfg)
        est = args[0]
        for k in attrs:
            setattr(est, k, Poison())
        return args, kwargs

    def ensures(self, a, r):
        out = {}
        est = a.self
        stale = [k for k in attrs if isinstance(getattr(est, k, None), Poison)]
        out["history.every_fitted_attribute_is_replaced_by_the_new_fit"] = not stale
        if stale:
            return out
        out["history.fit_result_independent_of_the_previous_fit"] = True
        try:
            out.update(base_ensures(self, a, r))
        except PoisonUsed:
            out["history.fit_result_independent_of_the_previous_fit"] = False
        return out

    Refit.setup, Refit.ensures = setup, ensures
    Refit.__name__ = "Refit" + cls.__name__
    return register(Refit)


RefitTrend = _poisoned(TrendFit, ("coef_", "region_"), "C20:refit:verde.trend:Trend.fit")
RefitSpline = _poisoned(SplineFit, ("force_", "force_coords_", "region_"), "C20:refit:verde.spline:Spline.fit")
# VectorSpline2D documents that force_coords, once set by the first fit, is reused: it is NOT poisoned
RefitVectorSpline = _poisoned(VectorSplineFit, ("force_", "region_"), "C20:refit:verde.vector:VectorSpline2D.fit")
RefitKNeighbors = _poisoned(KNeighborsFit, ("tree_", "data_", "region_"), "C20:refit:verde.neighbors:KNeighbors.fit")
RefitScipy = _poisoned(ScipyFit, ("interpolator_", "region_"), "C20:refit:verde.scipygridder:_BaseScipyGridder.fit")

ESTIMATORS = {
    "Spline": (lambda B: dict(mindist=B.real("mindist"), damping=B.real("damping"), force_coords=None, engine="auto")),
    "SplineCV": (lambda B: dict(mindists=None, dampings=(B.real("d0"), B.real("d1")), force_coords=None, engine="auto", cv=None, client=None, delayed=False, scoring="r2")),
    "VectorSpline2D": (lambda B: dict(poisson=B.real("poisson"), mindist=B.real("mindist"), damping=B.real("damping"), force_coords=None, engine="auto")),
    "Trend": (lambda B: dict(degree=3)),
    "KNeighbors": (lambda B: dict(k=B.int("k"), reduction=NP.median)),
    "Linear": (lambda B: dict(rescale=B.bool("rescale"))),
    "Cubic": (lambda B: dict(rescale=B.bool("rescale"))),
    "Chain": (lambda B: dict(steps=[("a", verde.Trend(1)), ("b", verde.Spline())])),
    "Vector": (lambda B: dict(components=[verde.Trend(1), verde.Trend(2)])),
    "BlockReduce": (lambda B: dict(reduction=NP.mean, spacing=B.real("spacing"), region=None, adjust="region", center_coordinates=True, shape=None, drop_coords=False)),
    "BlockMean": (lambda B: dict(spacing=B.real("spacing"), region=None, adjust="spacing", center_coordinates=False, uncertainty=True, shape=None, drop_coords=True)),
}


def estimator_roundtrip(cls, params):
    import warnings

    with warnings.catch_warnings():
        warnings.simplefilter("ignore")
        est = cls(**params)
        got = est.get_params(deep=False)
        twin = type(est)(**got)
    return est, got, twin


@register
class EstimatorRoundtrip(Contract):
    """Constructors only store their parameters: get_params returns exactly what was given and
    type(e)(**e.get_params()) has identical attributes (so sklearn.clone preserves behaviour)."""

    target = "contracts.purity_c20:estimator_roundtrip"
    native_replay = False

    def configs(self, tier):
        return [{"cls": k} for k in ESTIMATORS]

    def patch_modules(self, P):
        import sys

        from pyvc.contract import default_patches

        for name in ("verde.spline", "verde.vector", "verde.neighbors", "verde.scipygridder", "verde.model_selection", "verde.base.base_classes"):
            default_patches(P, sys.modules[name])

    def setup(self, B, cfg):
        import verde.synthetic

        cls = getattr(verde, cfg["cls"])
        return (cls, ESTIMATORS[cfg["cls"]](B)), {}

    def ensures(self, a, r):
        est, got, twin = r
        # (a None argument may be replaced by its documented default, e.g. SplineCV(mindists=None) -> [0]: the property asks
        # for identical BEHAVIOUR after get_params/clone, which the twin clause below decides)
        out = {"history.get_params_returns_every_constructor_argument_as_given": set(got) == set(a.params) and all(got[k] is a.params[k] or a.params[k] is None for k in a.params)}
        same = True
        for k, v in vars(est).items():
            if k not in vars(twin) or vars(twin)[k] is not v:
                same = False
        out["history.rebuilding_from_get_params_gives_identical_attributes"] = same and set(vars(est)) == set(vars(twin))
        fitted = [k for k in vars(est) if k.endswith("_") and not k.startswith("_")]
        out["history.constructor_sets_no_fitted_state"] = not fitted
        return out
