"""Sidecar contracts for property C17: longitude_continuity and its range checks."""
import numpy as np
import z3

from pyvc import known
from pyvc.arr import SymArr, havoc_array
from pyvc.contract import Contract, RaiseCond, register
from pyvc.core import SymNum, and_, ctx, floor_int, iff, implies, is_sym, ite, mod, not_, or_
from pyvc.spec import All, AnyOf, Exists, Forall, Imp, close, ge, le

from .coordinates_c07 import M


def fmod360(x):
    """x mod 360 in [0, 360) (floor modulo), for symbolic or concrete x."""
    if is_sym(x):
        return mod(x, 360)
    return x % 360


def is_multiple_of_360(x):
    if is_sym(x):
        return fmod360(x) == 0
    r = x % 360  # concrete evaluation: tolerate float round-off
    return min(r, 360 - r) <= 1e-9


def _abs(x):
    return abs(x)


def full_globe(W, E):
    return _abs(E - W) == 360


def arc_width(W, E):
    """Eastward angle from W to E (a full-globe input is 360)."""
    return ite(full_globe(W, E), 360, fmod360(E - W))


def representable(W, E):
    """The arc from W eastwards to E can be written with W0 <= E0 in [0,360] or in [-180,180]."""
    d = arc_width(W, E)
    return or_(fmod360(W) + d <= 360, fmod360(W + 180) - 180 + d <= 180)


def east_on_seam(W, E):
    """Carve-out of known finding F1: the east bound sits on the seam of the chosen convention."""
    w3, e3 = fmod360(W), fmod360(E)
    return and_(
        not_(full_globe(W, E)),
        or_(
            and_(e3 == 0, w3 != 0),  # east bound on 0/360 while west is not
            and_(w3 > e3, e3 == 180),  # [-180,180) chosen and the east bound is +-180
        ),
    )


def _lon_lat(B, rank, extra=0):
    dims = tuple(B.dim("n%d" % k, 0) for k in range(rank))
    return [B.array("longitude", dims), B.array("latitude", dims)] + [B.array("extra%d" % k, dims) for k in range(extra)]


@register
class LongitudeContinuity(Contract):
    target = M + ":longitude_continuity"
    stubs = {"_check_geographic_region": M + ":_check_geographic_region", "_check_geographic_coordinates": M + ":_check_geographic_coordinates"}
    cover_raise = True

    def configs(self, tier):
        out = [{"coords": None}, {"coords": 1, "extra": 0}, {"coords": 2, "extra": 0}, {"coords": 1, "extra": 1}, {"coords": None, "valid": False}, {"coords": 1, "extra": 0, "valid": False}]
        # the region given as an ndarray (C20: it must not be written to; the frame obligation sees an aliased write)
        out += [{"coords": None, "region": "array"}, {"coords": 1, "extra": 0, "region": "array"}]
        return out

    def setup(self, B, cfg):
        region = [B.real("W"), B.real("E"), B.real("S"), B.real("N")]
        if cfg.get("region") == "array":
            arr = B.array("region", (4,))
            B.assume(and_(*[arr.at(k) == region[k] for k in range(4)]))
            self._region_values = region
            region_arg = arr
        else:
            self._region_values = None
            region_arg = region
        coords = None if cfg["coords"] is None else _lon_lat(B, cfg["coords"], cfg.get("extra", 0))
        self._valid = cfg.get("valid", True)
        if self._valid:
            W, E, S_, N = region
            B.assume(and_(W >= -180, W <= 360, E >= -180, E <= 360, S_ >= -90, S_ <= 90, N >= -90, N <= 90, _abs(E - W) <= 360))
            if coords is not None:
                lon, lat = coords[0], coords[1]
                B.assume(Forall(lon.shape, lambda *i: and_(lon.at(*i) >= -180, lon.at(*i) <= 360, lat.at(*i) >= -90, lat.at(*i) <= 90)))
        return (coords, region_arg), {}

    @staticmethod
    def _r4(a):
        """The four bounds AS GIVEN (entry values, also when the region is an array the code could write to)."""
        reg = a.region
        if isinstance(reg, SymArr):
            old = getattr(a, "old", None)
            reg = old.region if old is not None and isinstance(getattr(old, "region", None), SymArr) else reg
            return [reg.at(k) for k in range(4)]
        return list(reg[:4])

    def requires(self, a):
        W, E = self._r4(a)[:2]
        gap = _abs(_abs(E - W) - 360)
        # widths within 0.01 degree of, but not equal to, a full circle are excluded (approximate full-globe test)
        near_full = and_(gap <= 0.01, gap != 0)
        return and_(not_(near_full), or_(representable(W, E), not_(self._region_ok(a))))

    @staticmethod
    def _region_ok(a):
        W, E, S_, N = LongitudeContinuity._r4(a)
        return and_(W >= -180, W <= 360, E >= -180, E <= 360, S_ >= -90, S_ <= 90, N >= -90, N <= 90, _abs(E - W) <= 360)

    def raises(self, a):
        out = [(ValueError, not_(self._region_ok(a)))]
        if a.coordinates:
            lon, lat = a.coordinates[0], a.coordinates[1]
            # out-of-range coordinates are rejected (existential over the arrays)
            out.append((ValueError, _coords_out_of_range(lon, lat)))
        return out

    def samples(self, rng, nrng, tier):
        step = 5 if tier == "thorough" else 15
        lons = np.array([-180.0, -179.99, -90.0, -10.0, -0.001, 0.0, 0.001, 10.0, 90.0, 179.5, 180.0, 180.5, 270.0, 350.0, 359.999, 360.0])
        lats = np.linspace(-90, 90, lons.size)
        for W in range(-180, 361, step):
            for E in range(-180, 361, step):
                yield ((lons, lats), [float(W), float(E), -45.0, 60.0]), {}
        for _ in range(200 if tier == "thorough" else 40):
            W, E = rng.uniform(-180, 360), rng.uniform(-180, 360)
            yield ((lons + 0.0, lats), [W, E, -90.0, 90.0]), {}
            yield (None, [W, E, -90.0, 90.0]), {}
        for W, E in ((350.0, 10.0), (-70.0, -60.0), (-180.0, 180.0), (340.5, 20.25), (10.0, 20.0)):
            yield (None, np.array([W, E, -10.0, 10.0])), {}  # region as an ndarray: must come back untouched
            yield ((lons + 0.0, lats), np.array([W, E, -10.0, 10.0])), {}
        yield (None, [0.0, 400.0, 0.0, 1.0]), {}
        yield (None, [-181.0, 0.0, 0.0, 1.0]), {}
        yield (None, [0.0, 10.0, -91.0, 1.0]), {}
        yield ((np.array([361.0]), np.array([0.0])), [0.0, 10.0, 0.0, 1.0]), {}
        yield ((np.array([0.0]), np.array([-90.5])), [0.0, 10.0, 0.0, 1.0]), {}
        yield ((np.array([float("nan"), 400.0]), np.zeros(2)), [-20.0, 20.0, -20.0, 20.0]), {}
        yield ((np.array([5.0, 6.0]), np.array([float("nan"), 100.0])), [-20.0, 20.0, -20.0, 20.0]), {}

    def ensures(self, a, r):
        W, E, S_, N = self._r4(a)
        has_coords = bool(a.coordinates)
        if has_coords:
            ok = isinstance(r, tuple) and len(r) == 2 and isinstance(r[0], SymArr) and isinstance(r[1], SymArr)
            out = {"returns_coordinates_and_region": ok}
            if not ok:
                return out
            coords, region = r
        else:
            ok = isinstance(r, SymArr)
            out = {"returns_region": ok}
            if not ok:
                return out
            coords, region = None, r
        out["region_has_4_bounds"] = region.ndim == 1 and region.shape[0] == 4
        if isinstance(a.region, SymArr):
            out["the_given_region_array_is_not_modified"] = and_(*[a.region.at(k) == v for k, v in enumerate((W, E, S_, N))])
        if not out["region_has_4_bounds"]:
            return out
        W2, E2 = region.at(0), region.at(1)
        glob = full_globe(W, E)
        width = arc_width(W, E)
        out["latitudes_untouched"] = and_(region.at(2) == S_, region.at(3) == N)
        out["west_le_east"] = W2 <= E2
        out["full_globe_becomes_0_360"] = implies(glob, and_(W2 == 0, E2 == 360))
        out["bounds_congruent_mod_360"] = implies(not_(glob), and_(is_multiple_of_360(W2 - W), is_multiple_of_360(E2 - E)))
        out["width_is_eastward_angle_from_W_to_E"] = close(E2 - W2, width, 360.0)
        if coords is not None:
            lon, lat = a.coordinates[0], a.coordinates[1]
            nco = len(a.coordinates)
            out["coordinates_stacked_same_shape"] = coords.ndim == lon.ndim + 1 and coords.shape[0] == nco and and_(*[x == y for x, y in zip(coords.shape[1:], lon.shape)])
            if coords.ndim != lon.ndim + 1:
                return out
            for k in range(1, nco):
                src = a.coordinates[k]
                out["coordinate%d_untouched" % k] = Forall(lon.shape, lambda *i, k=k, src=src: coords.at(k, *i) == src.at(*i))
            out["longitudes_congruent_mod_360"] = Forall(lon.shape, lambda *i: is_multiple_of_360(coords.at(0, *i) - lon.at(*i)))
            out["longitudes_in_the_convention_of_the_region"] = Forall(
                lon.shape,
                lambda *i: or_(
                    and_(W2 >= 0, E2 <= 360, coords.at(0, *i) >= 0, coords.at(0, *i) < 360),
                    and_(W2 >= -180, E2 <= 180, coords.at(0, *i) >= -180, coords.at(0, *i) < 180),
                ),
            )
            def membership(*i):
                body = iff(and_(W2 <= coords.at(0, *i), coords.at(0, *i) <= E2), fmod360(lon.at(*i) - W) <= width)
                if known.active("F1b"):
                    # known finding F1b: exactly the point lon = E (mod 360) with E on a seam
                    return implies(not_(and_(east_on_seam(W, E), is_multiple_of_360(lon.at(*i) - E))), body)
                return body

            out["inside_iff_angularly_within_original_arc"] = Forall(lon.shape, membership)
        return out


def _coords_out_of_range(lon, lat):
    bad = lambda *i: or_(lon.at(*i) > 360, lon.at(*i) < -180, lat.at(*i) > 90, lat.at(*i) < -90)
    return RaiseCond(Exists(lon.shape, bad), Forall(lon.shape, lambda *i: not_(bad(*i))))


@register
class CheckGeographicCoordinates(Contract):
    target = M + ":_check_geographic_coordinates"
    cover_raise = True

    def configs(self, tier):
        return [{"rank": 1, "extra": 0}, {"rank": 2, "extra": 0}, {"rank": 1, "extra": 1}]

    def setup(self, B, cfg):
        return (_lon_lat(B, cfg["rank"], cfg["extra"]),), {}

    def raises(self, a):
        return [(ValueError, _coords_out_of_range(a.coordinates[0], a.coordinates[1]))]

    def havoc(self, a):
        return None

    def ensures(self, a, r):
        return {"returns_none": r is None}

    def samples(self, rng, nrng, tier):
        for lon, lat in [([0.0, 360.0], [0.0, 90.0]), ([0.0, 360.1], [0.0, 90.0]), ([-180.0], [-90.0]), ([-180.5], [0.0]), ([10.0], [90.01]), ([10.0, 20.0], [0.0, -90.01])]:
            yield ((np.array(lon), np.array(lat)),), {}
        # missing values (NaN) next to out-of-range ones: still rejected; NaN alone is no reason to reject
        nan = float("nan")
        for lon, lat in [([nan, 400.0], [0.0, 0.0]), ([nan, -200.0, 10.0], [0.0, nan, 0.0]), ([10.0, nan], [nan, 100.0]), ([10.0, 20.0], [-95.0, nan]), ([nan, 10.0], [0.0, nan]), ([nan], [nan])]:
            yield ((np.array(lon), np.array(lat)),), {}
        yield ((np.array([[nan, 361.0], [0.0, 1.0]]), np.zeros((2, 2))),), {}


@register
class CheckGeographicRegion(Contract):
    target = M + ":_check_geographic_region"
    cover_raise = True

    def setup(self, B, cfg):
        return ([B.real("W"), B.real("E"), B.real("S"), B.real("N")],), {}

    def raises(self, a):
        return [(ValueError, not_(LongitudeContinuity._region_ok(a)))]

    def havoc(self, a):
        return None

    def ensures(self, a, r):
        return {"returns_none": r is None}

    def samples(self, rng, nrng, tier):
        for reg in ([0, 360, -90, 90], [-180, 180, 0, 0], [-180.1, 0, 0, 1], [0, 360.5, 0, 1], [0, 10, -90.5, 0], [0, 10, 0, 91], [-180, 200, 0, 1], [-170, 200, 0, 1], [200, -170, 0, 1]):
            yield ([float(x) for x in reg],), {}
