"""Sidecar contracts for property C03 (biharmonic spline part): Green's function, prediction
loop, Jacobian, Spline.predict / Spline.jacobian."""
import math

import numpy as np

from pyvc.arr import SymArr, as_array, flat_index, havoc_array, new_array
from pyvc.concrete import wrap
from pyvc.contract import Contract, register
from pyvc.core import and_, ctx, implies, is_sym, ite, not_, or_, spec_log, spec_sqrt
from pyvc.prelude_np import NP
from pyvc.spec import All, Forall, close
from pyvc.sums import PartialSum, sum_is

from .blocks_c08 import BU, flat
from .coordinates_c13 import _coords, _rand_coords

SP = "verde.spline"


def vsqrt(x):
    return spec_sqrt(x) if is_sym(x) else math.sqrt(x)


def vlog(x):
    return spec_log(x) if is_sym(x) else math.log(x)


def g_biharmonic(r):
    """The documented Green's function g(r) = r^2 (ln r - 1), g(0) = 0."""
    if not is_sym(r):
        return 0.0 if r == 0 else r * r * (math.log(r) - 1)
    return ite(r == 0, 0, r * r * (vlog(r) - 1))


def kernel(de, dn, mindist):
    return g_biharmonic(vsqrt(de * de + dn * dn) + mindist)


@register
class GreensFuncNumpy(Contract):
    functional = True
    target = SP + ":greens_func_numpy"

    def configs(self, tier):
        return [{"rank": 1}, {"rank": 2}]

    def setup(self, B, cfg):
        dims = tuple(B.dim("n%d" % k, 0) for k in range(cfg["rank"]))
        return (B.array("de", dims), B.array("dn", dims), B.real("mindist")), {}

    def requires(self, a):
        return a.mindist >= 0

    def havoc(self, a):
        e, n = as_array(a.east), as_array(a.north)
        es, ns, md = e.snapshot(), n.snapshot(), a.mindist
        return new_array(e.shape, lambda idx: kernel(es(*idx), ns(*idx), md), "f")

    def samples(self, rng, nrng, tier):
        # the dangerous distances: 0, 1e-12, 1-ulp, 1, e, 1e8
        d = np.array([0.0, 1e-12, 1 - 2**-53, 1.0, math.e, 1e8, 0.5, 2.0])
        for md in (0.0, 1e-3, 1.0, 150.0, 1e3):  # x**x leaves float64 from x ~ 143.3
            yield (d, np.zeros_like(d), md), {}
            yield (np.zeros_like(d), -d, md), {}
        for _ in range(10):
            sh = (rng.randint(1, 4), rng.randint(1, 4))
            yield (nrng.uniform(-3, 3, sh), nrng.uniform(-3, 3, sh), rng.choice([0.0, 0.1])), {}

    tol = (1e-9, 1e-9)

    def ensures(self, a, r):
        e, n = a.east, a.north
        ok = isinstance(r, SymArr) and r.ndim == e.ndim and r.kind == "f"
        out = {"float_array_of_the_input_rank": ok}
        if not ok:
            return out
        out["same_shape"] = and_(*[x == y for x, y in zip(r.shape, e.shape)])

        def scale(*i):
            if is_sym(e.at(*i)):
                return 1.0
            v = math.hypot(float(e.at(*i)), float(n.at(*i))) + float(a.mindist)
            return max(1.0, v * v * (abs(math.log(v)) + 1)) if v > 0 else 1.0

        out["value_is_g_of_distance_plus_mindist_with_g0_equal_0"] = Forall(e.shape, lambda *i: close(r.at(*i), kernel(e.at(*i), n.at(*i), a.mindist), scale(*i)))
        return out


class _PredictSpec:
    """PS(p, j) = sum_{t<j} g(|x_p - f_t| + mindist) * force_t   (shared by invariant, post and stub)."""

    @staticmethod
    def build(east, north, fe, fn, mindist, forces):
        e, n, fe, fn, f = flat(east), flat(north), flat(fe), flat(fn), flat(forces)
        term = lambda p, t: kernel(e.at(p) - fe.at(t), n.at(p) - fn.at(t), mindist) * f.at(t)
        return PartialSum("spline", (e.shape[0],), f.shape[0], term)


@register
class PredictNumpy(Contract):
    functional = True
    target = SP + ":predict_numpy"
    dtype_variants = False  # private kernel: its callers hand it float64 arrays and buffers (their own integer-kind contracts, C04)
    stubs = {"greens_func_numpy": SP + ":greens_func_numpy"}

    def setup(self, B, cfg):
        npts, nf = B.dim("npoints", 0), B.dim("nforces", 0)
        args = (B.array("east", (npts,)), B.array("north", (npts,)), B.array("force_east", (nf,)), B.array("force_north", (nf,)), B.real("mindist"), B.array("forces", (nf,)), B.array("result", (npts,)))
        return args, {}

    def requires(self, a):
        return a.mindist >= 0

    def may_write(self, a):
        return [a.result]

    def spec(self, a):
        if not hasattr(a, "_ps"):
            a._ps = _PredictSpec.build(a.east, a.north, a.force_east, a.force_north, a.mindist, a.forces)
        return a._ps

    def loop_state(self, a):
        return [a.result]

    def loop_invariant(self, a, j, state):
        ps = self.spec(a)
        (result,) = state
        return Forall(result.shape, lambda p: result.at(p) == ps.at(p, j))

    def havoc(self, a):
        ps = self.spec(a)
        a.result[...] = new_array(a.result.shape, lambda idx: ps.total(idx[0]), "f")
        return a.result

    def samples(self, rng, nrng, tier):
        for _ in range(15):
            npts, nf = rng.randint(1, 6), rng.randint(0, 5)
            yield (nrng.uniform(-3, 3, npts), nrng.uniform(-3, 3, npts), nrng.uniform(-3, 3, nf), nrng.uniform(-3, 3, nf), rng.choice([0.0, 0.5]), nrng.uniform(-2, 2, nf), np.full(npts, 7.0)), {}

    tol = (1e-9, 1e-9)

    def ensures(self, a, r):
        ps = self.spec(a)
        out = {"returns_the_result_buffer": r is a.result}
        out["result_is_sum_over_forces_of_force_times_g"] = Forall(a.result.shape, lambda p: close(a.result.at(p), ps.total(p), 100.0))
        return out


@register
class JacobianNumpy(Contract):
    functional = True
    target = SP + ":jacobian_numpy"
    dtype_variants = False  # private kernel: its callers hand it float64 arrays and buffers (their own integer-kind contracts, C04)
    stubs = {"greens_func_numpy": SP + ":greens_func_numpy"}

    def setup(self, B, cfg):
        npts, nf = B.dim("npoints", 0), B.dim("nforces", 0)
        return (B.array("east", (npts,)), B.array("north", (npts,)), B.array("force_east", (nf,)), B.array("force_north", (nf,)), B.real("mindist"), B.array("jac", (npts, nf))), {}

    def requires(self, a):
        return a.mindist >= 0

    def may_write(self, a):
        return [a.jac]

    def havoc(self, a):
        e, n, fe, fn, md = a.east.snapshot(), a.north.snapshot(), a.force_east.snapshot(), a.force_north.snapshot(), a.mindist
        a.jac[...] = new_array(a.jac.shape, lambda idx: kernel(e(idx[0]) - fe(idx[1]), n(idx[0]) - fn(idx[1]), md), "f")
        return a.jac

    def samples(self, rng, nrng, tier):
        for _ in range(10):
            npts, nf = rng.randint(1, 5), rng.randint(1, 5)
            e = nrng.uniform(-3, 3, npts)
            yield (e, nrng.uniform(-3, 3, npts), np.r_[e[:1], nrng.uniform(-3, 3, nf - 1)], nrng.uniform(-3, 3, nf), rng.choice([0.0, 0.5]), np.empty((npts, nf))), {}
        # "the spline matrices depend only on coordinate differences": the same configurations far from the origin
        # (offsets and separations exactly representable, so the differences - and hence the entries - are exact)
        for off in (2.0**20, 2.0**23, -(2.0**22)):
            npts, nf = rng.randint(2, 5), rng.randint(2, 5)
            e, n_ = off + nrng.randint(-40, 40, npts) * 0.25, 3 * off + nrng.randint(-40, 40, npts) * 0.25
            fe, fn = off + nrng.randint(-40, 40, nf) * 0.25, 3 * off + nrng.randint(-40, 40, nf) * 0.25
            yield (e, n_, fe, fn, 0.0, np.empty((npts, nf))), {}

    tol = (1e-9, 1e-9)

    def ensures(self, a, r):
        out = {"returns_the_jacobian_buffer": r is a.jac}
        out["entry_p_t_is_g_of_distance_between_point_p_and_force_t"] = Forall(
            a.jac.shape, lambda p, t: close(a.jac.at(p, t), kernel(a.east.at(p) - a.force_east.at(t), a.north.at(p) - a.force_north.at(t), a.mindist), 100.0)
        )
        return out


def _spline(B, fitted=True, nf_name="nforces"):
    import verde

    est = verde.Spline.__new__(verde.Spline)
    est.mindist = B.real("mindist")
    est.damping = None
    est.force_coords = None
    est.engine = "auto"
    if fitted:
        nf = B.dim(nf_name, 0)
        est.force_coords_ = (B.array("force_east", (nf,)), B.array("force_north", (nf,)))
        est.force_ = B.array("force", (nf,))
        est.region_ = (B.real("fW"), B.real("fE"), B.real("fS"), B.real("fN"))
    return est


def _real_spline(rng, nrng, n=None):
    import verde

    n = n or rng.randint(2, 6)
    est = verde.Spline()
    est.mindist = rng.choice([0, 0, 0.3, 2.0])  # the (deprecated but supported) mindist parameter
    est.force_coords_ = (nrng.uniform(-3, 3, n), nrng.uniform(-3, 3, n))
    est.force_ = nrng.uniform(-2, 2, n)
    est.region_ = (-3, 3, -3, 3)
    return est


@register
class SplinePredict(Contract):
    target = SP + ":Spline.predict"
    stubs = {"n_1d_arrays": BU + ":n_1d_arrays", "predict_numpy": SP + ":predict_numpy"}
    inline = ("parse_engine",)
    frame_attrs = set()
    cover_raise = True

    def configs(self, tier):
        return [{"rank": 1}, {"rank": 2}, {"rank": 1, "extra": 1}, {"rank": 1, "fitted": False}]

    def setup(self, B, cfg):
        est = _spline(B, cfg.get("fitted", True))
        coords = _coords(B, cfg["rank"], cfg.get("extra", 0), names=("q_easting", "q_northing"), minsize=0)
        return (est, coords), {}

    def requires(self, a):
        return a.self.mindist >= 0

    def raises(self, a):
        from sklearn.exceptions import NotFittedError

        return [(NotFittedError, not hasattr(a.self, "force_"))]

    def samples(self, rng, nrng, tier):
        import verde

        for _ in range(12):
            yield (_real_spline(rng, nrng), _rand_coords(rng, nrng, rng.choice([1, 2]), rng.choice([0, 1]), scale=3.0)), {}
        yield (verde.Spline(), (np.zeros(2), np.zeros(2))), {}

    tol = (1e-9, 1e-9)

    def ensures(self, a, r):
        est = a.self
        q0 = a.coordinates[0]
        ok = isinstance(r, SymArr) and r.ndim == q0.ndim
        out = {"prediction_has_the_query_rank": ok}
        if not ok:
            return out
        out["prediction_has_the_query_shape"] = and_(*[x == y for x, y in zip(r.shape, q0.shape)])
        fe, fn = wrap(est.force_coords_[0]), wrap(est.force_coords_[1])
        ps = _PredictSpec.build(a.coordinates[0], a.coordinates[1], fe, fn, est.mindist, wrap(est.force_))
        qshape = q0.shape
        out["value_is_sum_over_forces_of_force_times_g_of_distance"] = Forall(qshape, lambda *ix: sum_is(r.at(*ix), ps, (flat_index(ix, qshape),), 100.0))
        return out


@register
class SplineJacobian(Contract):
    functional = True
    target = SP + ":Spline.jacobian"
    stubs = {"n_1d_arrays": BU + ":n_1d_arrays", "jacobian_numpy": SP + ":jacobian_numpy"}
    inline = ("parse_engine",)
    frame_attrs = set()

    def configs(self, tier):
        return [{"rank": 1, "frank": 1}, {"rank": 2, "frank": 1}, {"rank": 1, "frank": 2}]

    def setup(self, B, cfg):
        est = _spline(B, fitted=False)
        coords = _coords(B, cfg["rank"], 0, names=("q_easting", "q_northing"), minsize=0)
        fdims = tuple(B.dim("f%d" % k, 0) for k in range(cfg["frank"]))
        force_coords = (B.array("force_east", fdims), B.array("force_north", fdims))
        return (est, coords, force_coords), {}

    def requires(self, a):
        return a.self.mindist >= 0

    def havoc(self, a):
        e, n = flat(a.coordinates[0]), flat(a.coordinates[1])
        fe, fn = flat(a.force_coords[0]), flat(a.force_coords[1])
        md = a.self.mindist
        return new_array((e.shape[0], fe.shape[0]), lambda idx: kernel(e.at(idx[0]) - fe.at(idx[1]), n.at(idx[0]) - fn.at(idx[1]), md), "f")

    def samples(self, rng, nrng, tier):
        for _ in range(10):
            est = _real_spline(rng, nrng)
            q = _rand_coords(rng, nrng, rng.choice([1, 2]), 0, scale=3.0)
            fc = (np.r_[q[0].ravel()[:1], est.force_coords_[0]], np.r_[q[1].ravel()[:1], est.force_coords_[1]])  # one coincident point
            yield (est, q, fc), {}
        for off in (2.0**21, 2.0**23):  # far from the origin: entries depend on coordinate differences only
            est = _real_spline(rng, nrng)
            q = (off + nrng.randint(-40, 40, 5) * 0.25, -2 * off + nrng.randint(-40, 40, 5) * 0.25)
            fc = (off + nrng.randint(-40, 40, 4) * 0.25, -2 * off + nrng.randint(-40, 40, 4) * 0.25)
            yield (est, q, fc), {}

    tol = (1e-9, 1e-9)

    def ensures(self, a, r):
        e, n = flat(a.coordinates[0]), flat(a.coordinates[1])
        fe, fn = flat(a.force_coords[0]), flat(a.force_coords[1])
        ok = isinstance(r, SymArr) and r.ndim == 2
        out = {"two_dimensional": ok}
        if not ok:
            return out
        out["shape_is_points_by_forces"] = and_(r.shape[0] == e.shape[0], r.shape[1] == fe.shape[0])
        out["entry_p_t_is_g_of_distance_between_point_p_and_force_t"] = Forall(
            r.shape, lambda p, t: close(r.at(p, t), kernel(e.at(p) - fe.at(t), n.at(p) - fn.at(t), a.self.mindist), 100.0)
        )
        return out


# ------------------------------------------------------------------ large predictions (BOUNDED; sizes the symbolic stage cannot distinguish)


def large_prediction(kind, n_queries, n_forces, seed):
    """Real Spline / VectorSpline2D with hand-set forces predicting at MANY points (queries x forces up to a few 1e7): an
    implementation that works through the forces or the points in blocks has its block boundaries somewhere in there.
    Returns (prediction components, query coordinates, force coordinates, forces, mindist, poisson)."""
    import verde

    rng = np.random.RandomState(seed)
    fe, fn = rng.uniform(-50, 50, n_forces), rng.uniform(-50, 50, n_forces)
    qe, qn = rng.uniform(-60, 60, n_queries), rng.uniform(-60, 60, n_queries)
    mindist, poisson = 0.5, 0.3
    if kind == "spline":
        est = verde.Spline(mindist=mindist)
        est.force_coords_ = (fe, fn)
        est.force_ = rng.uniform(-1, 1, n_forces)
        est.region_ = (-50.0, 50.0, -50.0, 50.0)
        pred = (est.predict((qe, qn)),)
    else:
        est = verde.VectorSpline2D(mindist=mindist, poisson=poisson, force_coords=(fe, fn))
        est.force_ = rng.uniform(-1, 1, 2 * n_forces)
        est.region_ = (-50.0, 50.0, -50.0, 50.0)
        pred = tuple(est.predict((qe, qn)))
    return pred, (qe, qn), (fe, fn), est.force_, mindist, poisson


@register
class LargePrediction(Contract):
    """Run-time contract (BOUNDED): every force contributes to every prediction point, whatever the sizes."""

    target = "contracts.spline_c03:large_prediction"
    cover_return = False
    layout_variants = False
    history_variants = False
    dtype_variants = False

    def configs(self, tier):
        return []

    def samples(self, rng, nrng, tier):
        yield ("spline", 45000, 320, rng.randint(0, 999)), {}
        yield ("spline", 200 * 250, 300, rng.randint(0, 999)), {}
        yield ("vector", 30000, 170, rng.randint(0, 999)), {}
        if tier == "thorough":
            yield ("spline", 1000, 12000, rng.randint(0, 999)), {}
            yield ("spline", 2**20, 33, rng.randint(0, 999)), {}

    def ensures(self, a, r):
        pred, (qe, qn), (fe, fn), force, mindist, poisson = r
        pred = [np.asarray(getattr(p, "np_ref", None) if getattr(p, "np_ref", None) is not None else _unwrap(p), dtype=float) for p in pred]
        qe, qn, fe, fn, force = (np.asarray(_unwrap(x), dtype=float) for x in (qe, qn, fe, fn, force))
        # the LAST and a few random forces switched off one at a time must each change the prediction by exactly their
        # own term (linearity in the forces: pred = sum_j f_j * g_j) - checked on a sub-sample of the queries against
        # the closed formula, force by force (no blocks, no vectorised sum over forces)
        idx = np.unique(np.concatenate([np.arange(0, qe.size, max(qe.size // 97, 1)), [qe.size - 1]]))
        want = [np.zeros(idx.size) for _ in pred]
        nf = fe.size
        for j in range(nf):
            de, dn = qe[idx] - fe[j], qn[idx] - fn[j]
            if len(pred) == 1:
                d = np.sqrt(de**2 + dn**2) + mindist
                want[0] += force[j] * d**2 * (np.log(d) - 1)
            else:
                d = np.sqrt(de**2 + dn**2) + mindist
                lg = np.log(d)
                gee = (3 - poisson) * lg + (1 + poisson) * dn**2 / d**2
                gnn = (3 - poisson) * lg + (1 + poisson) * de**2 / d**2
                gne = -(1 + poisson) * de * dn / d**2
                want[0] += gee * force[j] + gne * force[nf + j]
                want[1] += gne * force[j] + gnn * force[nf + j]
        out = {}
        for k, (p, w) in enumerate(zip(pred, want)):
            scale = float(np.abs(w).max()) + 1.0
            out["component%d_is_the_sum_over_ALL_forces_at_every_sampled_point" % k] = bool(p.shape == qe.shape and np.allclose(p[idx], w, rtol=0, atol=1e-8 * scale * nf))
        return out


def _unwrap(x):
    from pyvc.concrete import unwrap

    return unwrap(x)
