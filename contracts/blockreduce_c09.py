"""Sidecar contracts for properties C09 / C10: BlockReduce.filter, BlockMean.filter, attach_weights."""
import numpy as np

from pyvc.arr import SymArr, as_array, havoc_array, new_array
from pyvc.concrete import unwrap, wrap
from pyvc.contract import REGISTRY, Args, Contract, register
from pyvc.core import and_, ctx, div, iff, implies, is_sym, not_, or_
from pyvc.prelude_groupby import GroupSeries, NUMPY_REDUCTIONS, agg_term, structure_of
from pyvc.prelude_np import NP
from pyvc.spec import All, AnyOf, Exists, Forall, Imp, close

from .base_utils import _tup
from .blocks_c08 import BU, flat
from .coordinates_c07 import M
from .coordinates_c13 import _coords, _rand_coords

BR = "verde.blockreduce"

REDS = {"mean": (np.mean, "mean"), "median": (np.median, "median"), "sum": (np.sum, "sum"), "min": (np.min, "min"), "average": (np.average, "mean")}


def _block_split_ghost():
    g = ctx().ghost.get(M + ":block_split", [])
    return g[-1] if len(g) == 1 else None


def _concrete_blocks(a_coords, est):
    """Independent block assignment for the run-time contract: labels via verde.block_split (proved under C08)."""
    import verde

    coords = tuple(unwrap(flat(c)) for c in a_coords[:2])
    (be, bn), labels = verde.block_split(coords, spacing=est.spacing, shape=est.shape, adjust=est.adjust, region=est.region)
    return be, bn, labels


def _reduce_concrete(kind, vals, w=None):
    if kind in ("mean",) and w is None:
        return float(np.mean(vals))
    if kind == "median":
        return float(np.median(vals))
    if kind == "sum":
        return float(np.sum(vals))
    if kind == "min":
        return float(np.min(vals))
    if kind in ("average", "mean"):
        return float(np.average(vals, weights=w))
    raise ValueError(kind)


def _kind_of(fn):
    for name, (f, kind) in REDS.items():
        if fn is f:
            return name, kind
    return None, None


@register
class BlockReduceFilter(Contract):
    target = BR + ":BlockReduce.filter"
    stubs = {"check_fit_input": BU + ":check_fit_input", "block_split": M + ":block_split"}
    inline = ("attach_weights", "_block_coordinates")
    frame_attrs = set()

    def configs(self, tier):
        out = []
        for red in ("mean", "median", "sum"):
            out.append({"red": red, "ncomp": 1, "weights": False, "rank": 1})
        out += [
            {"red": "average", "ncomp": 1, "weights": True, "rank": 1},
            {"red": "average", "ncomp": 2, "weights": True, "rank": 2},
            {"red": "mean", "ncomp": 3, "weights": False, "rank": 2},
            {"red": "mean", "ncomp": 1, "weights": False, "rank": 1, "center": True},
            {"red": "median", "ncomp": 2, "weights": False, "rank": 1, "extra": 1, "drop": False},
            {"red": "min", "ncomp": 1, "weights": False, "rank": 1, "extra": 1, "drop": True},
        ]
        return out

    def setup(self, B, cfg):
        import verde

        est = verde.BlockReduce.__new__(verde.BlockReduce)
        est.reduction = REDS[cfg["red"]][0]
        est.shape, est.spacing, est.region, est.adjust = None, B.real("spacing"), None, "spacing"
        est.center_coordinates = cfg.get("center", False)
        est.drop_coords = cfg.get("drop", True)
        coords = _coords(B, cfg["rank"], cfg.get("extra", 0), minsize=1)
        data = tuple(B.array("data%d" % k, coords[0].shape) for k in range(cfg["ncomp"]))
        w = tuple(B.array("w%d" % k, coords[0].shape) for k in range(cfg["ncomp"])) if cfg["weights"] else None
        if cfg["ncomp"] == 1:
            data, w = data[0], (w[0] if w else None)
        return (est, coords, data), dict(weights=w)

    def requires(self, a):
        return a.self.spacing > 0

    def samples(self, rng, nrng, tier):
        import verde

        for _ in range(40 if tier == "thorough" else 12):
            rank = rng.choice([1, 2])
            nextra = rng.choice([0, 1])
            ncomp = rng.randint(1, 3)
            arrs = _rand_coords(rng, nrng, rank, nextra + 2 * ncomp, scale=5.0)
            coords = arrs[: 2 + nextra]
            data = tuple(arrs[2 + nextra : 2 + nextra + ncomp])
            weighted = rng.random() < 0.4
            w = tuple(np.abs(x) + 0.1 for x in arrs[2 + nextra + ncomp :]) if weighted else None
            red = "average" if weighted else rng.choice(["mean", "median", "sum", "min"])
            est = verde.BlockReduce(REDS[red][0], spacing=rng.choice([1.0, 2.5, (3.0, 1.5)]), center_coordinates=rng.random() < 0.3, drop_coords=rng.random() < 0.5, adjust=rng.choice(["spacing", "region"]))
            if ncomp == 1:
                data, w = data[0], (w[0] if w else None)
            yield (est, tuple(coords), data), dict(weights=w)
        # integer (and float32) coordinates / data: pandas keeps the integer dtype under sum / min, so anything
        # written back into the reduced columns (the block centres) has to survive that dtype
        for _ in range(16 if tier == "thorough" else 6):
            n = rng.randint(3, 12)
            ck = rng.choice(["i", "i", "f4", "mixed"])
            e, nn_ = nrng.randint(-20, 20, n), nrng.randint(-20, 20, n)
            if ck == "f4":
                e, nn_ = (e + 0.25).astype("float32"), (nn_ - 0.5).astype("float32")
            elif ck == "mixed":
                nn_ = nn_ + 0.125
            coords = (e, nn_) + ((nrng.randint(0, 9, n),) if rng.random() < 0.5 else ())
            data = nrng.randint(-9, 9, n) if rng.random() < 0.6 else nrng.uniform(-9, 9, n)
            red = rng.choice(["sum", "min", "mean", "median"])
            est = verde.BlockReduce(REDS[red][0], spacing=rng.choice([3.0, 5, (7, 3)]), center_coordinates=rng.random() < 0.7, drop_coords=rng.random() < 0.5, adjust=rng.choice(["spacing", "region"]))
            yield (est, coords, data), dict(weights=None)
        # a sparse cloud: far fewer points than blocks, and more than 256 blocks (block labels beyond small integer types)
        for npt, side in ((120, 20), (60, 17)):
            est = verde.BlockReduce(REDS[rng.choice(["mean", "median", "sum"])][0], spacing=1.0, region=(0.0, float(side), 0.0, float(side)), center_coordinates=rng.random() < 0.5)
            yield (est, (nrng.uniform(0, side, npt), nrng.uniform(0, side, npt)), nrng.uniform(-5, 5, npt)), dict(weights=None)

    tol = (1e-9, 1e-9)

    def ensures(self, a, r):
        est = a.self
        c = ctx()
        din = _tup(a.data)
        win = _tup(a.weights) if a.weights is not None else None
        ncomp = len(din)
        ok = isinstance(r, tuple) and len(r) == 2 and isinstance(r[0], tuple)
        out = {"returns_coordinates_and_data": ok}
        if not ok:
            return out
        rc, rd = r
        rdata = rd if isinstance(rd, tuple) else (rd,)
        out["data_unpacked_for_one_component"] = isinstance(rd, tuple) == (ncomp > 1) and len(rdata) == ncomp
        ncoord = 2 if est.drop_coords else len(a.coordinates)
        out["extra_coordinates_reduced_unless_dropped"] = len(rc) == ncoord
        if len(rdata) != ncomp or len(rc) != ncoord:
            return out
        name, kind = _kind_of(est.reduction)
        if c.concrete:
            be, bn, labels = _concrete_blocks(a.coordinates, est)
            uniq = sorted(set(labels.tolist()))
            out["one_entry_per_non_empty_block"] = all(int(x.shape[0]) == len(uniq) for x in rdata + tuple(rc))
            if not out["one_entry_per_non_empty_block"] or name is None:
                return out
            good = True
            for g, lab in enumerate(uniq):
                m = labels == lab
                for k in range(ncomp):
                    w = unwrap(flat(win[k]))[m] if win is not None else None
                    want = _reduce_concrete(name, unwrap(flat(din[k]))[m], w)
                    if not abs(rdata[k].at(g) - want) <= 1e-9 * max(1.0, abs(want)):
                        good = False
                for d in range(ncoord):
                    if est.center_coordinates and d < 2:
                        want = float((be, bn)[d][lab])
                    else:
                        want = _reduce_concrete(name if name != "average" else "mean", unwrap(flat(a.coordinates[d]))[m])
                    if not abs(rc[d].at(g) - want) <= 1e-9 * max(1.0, abs(want)):
                        good = False
            out["ascending_block_order_with_the_reduction_of_exactly_the_member_values_and_their_own_weights"] = good
            if name == "sum":
                out["sum_outputs_add_up_to_the_input_total"] = all(abs(sum(rdata[k].at(g) for g in range(len(uniq))) - float(unwrap(flat(din[k])).sum())) <= 1e-8 * (1 + abs(float(unwrap(flat(din[k])).sum()))) for k in range(ncomp))
            return out
        bs = _block_split_ghost()
        out["blocks_from_one_block_split_of_the_coordinates"] = bs is not None
        if bs is None or kind is None:
            return out
        bargs, (blocks, labels) = bs
        out["block_split_with_the_estimators_settings"] = bargs.spacing is est.spacing and bargs.shape is est.shape and bargs.adjust is est.adjust and bargs.region is est.region and bargs.coordinates is a.coordinates
        gs = structure_of(labels)
        G = gs.G
        out["one_entry_per_non_empty_block"] = and_(*[x.ndim == 1 and x.shape[0] == G for x in rdata + tuple(rc)])
        for k in range(ncomp):
            d = flat(din[k])
            if win is None:
                spec = lambda g, d=d: agg_term(kind, gs, g, lambda p: d.at(p))
            else:
                wk = flat(win[k])
                spec = lambda g, d=d, wk=wk: agg_term("average", gs, g, lambda p: d.at(p), lambda p: wk.at(p))
            out["component%d_is_the_reduction_of_exactly_its_blocks_values_with_their_own_weights" % k] = Forall((G,), lambda g, k=k, spec=spec: rdata[k].at(g) == spec(g))
        for d_ in range(ncoord):
            cd = flat(a.coordinates[d_])
            if est.center_coordinates and d_ < 2:
                bc = blocks[d_]
                out["coordinate%d_is_the_centre_of_that_very_block" % d_] = Forall((G,), lambda g, d_=d_, bc=bc: rc[d_].at(g) == bc.at(gs.key(g)))
            else:
                out["coordinate%d_is_the_unweighted_reduction_of_the_member_coordinates" % d_] = Forall((G,), lambda g, d_=d_, cd=cd: rc[d_].at(g) == agg_term(kind, gs, g, lambda p: cd.at(p)))
        return out


@register
class BlockMeanFilter(Contract):
    target = BR + ":BlockMean.filter"
    stubs = {"check_fit_input": BU + ":check_fit_input", "block_split": M + ":block_split", "variance_to_weights": "verde.utils:variance_to_weights"}
    inline = ("attach_weights", "_block_coordinates", "_blocked_mean_uncertainty", "_blocked_mean_variance", "_blocked_mean_variance_weighted")
    frame_attrs = set()
    cover_raise = True

    def configs(self, tier):
        return [
            {"ncomp": 1, "weights": False, "uncertainty": False, "rank": 1},
            {"ncomp": 2, "weights": False, "uncertainty": False, "rank": 2},
            {"ncomp": 1, "weights": True, "uncertainty": True, "rank": 1},
            {"ncomp": 2, "weights": True, "uncertainty": True, "rank": 1},
            {"ncomp": 1, "weights": True, "uncertainty": False, "rank": 1},
            {"ncomp": 2, "weights": True, "uncertainty": False, "rank": 1},
            {"ncomp": 1, "weights": True, "uncertainty": True, "rank": 2},
            {"ncomp": 1, "weights": False, "uncertainty": True, "rank": 1},
        ]

    def setup(self, B, cfg):
        import verde

        est = verde.BlockMean.__new__(verde.BlockMean)
        est.reduction = np.average
        est.shape, est.spacing, est.region, est.adjust = None, B.real("spacing"), None, "spacing"
        est.center_coordinates, est.drop_coords, est.uncertainty = False, True, cfg["uncertainty"]
        coords = _coords(B, cfg["rank"], 0, minsize=1)
        data = tuple(B.array("data%d" % k, coords[0].shape) for k in range(cfg["ncomp"]))
        w = tuple(B.array("w%d" % k, coords[0].shape) for k in range(cfg["ncomp"])) if cfg["weights"] else None
        if cfg["ncomp"] == 1:
            data, w = data[0], (w[0] if w else None)
        return (est, coords, data), dict(weights=w)

    def requires(self, a):
        conds = [a.self.spacing > 0]
        if a.weights is not None:
            for w in _tup(a.weights):
                conds.append(Forall(w.shape, lambda *i, w=w: w.at(*i) > 0))
        return All(*conds)

    def raises(self, a):
        return [(ValueError, a.weights is None and a.self.uncertainty)]

    def samples(self, rng, nrng, tier):
        import verde

        for _ in range(30 if tier == "thorough" else 10):
            ncomp = rng.randint(1, 3)
            n = rng.randint(6, 30)
            arrs = [nrng.uniform(-5, 5, n) for _ in range(2 + 2 * ncomp)]
            if rng.random() < 0.4:  # gridded (2-D) inputs - the bounded stage also evaluates them in other memory layouts
                sh = (rng.randint(2, 4), rng.randint(3, 6))
                arrs = [nrng.uniform(-5, 5, sh) for _ in range(2 + 2 * ncomp)]
            data = tuple(arrs[2 : 2 + ncomp])
            weighted = rng.random() < 0.6
            w = tuple(np.abs(x) + 0.1 for x in arrs[2 + ncomp :]) if weighted else None
            est = verde.BlockMean(spacing=rng.choice([2.0, 4.0]), uncertainty=weighted and rng.random() < 0.5)
            if ncomp == 1:
                data, w = data[0], (w[0] if w else None)
            yield (est, (arrs[0], arrs[1]), data), dict(weights=w)
        # weights (and data) of an integer dtype - counts, whole-number 1/sigma**2 - for both weighting rules
        for unc in (True, False, True):
            n = rng.randint(8, 25)
            ncomp = rng.randint(1, 2)
            data = tuple(nrng.randint(-9, 9, n).astype(rng.choice(["int64", "float64"])) for _ in range(ncomp))
            w = tuple(nrng.randint(1, 6, n).astype(rng.choice(["int64", "int32"])) for _ in range(ncomp))
            if ncomp == 1:
                data, w = data[0], w[0]
            yield (verde.BlockMean(spacing=rng.choice([2.0, 4.0]), uncertainty=unc), (nrng.uniform(-5, 5, n), nrng.uniform(-5, 5, n)), data), dict(weights=w)
        yield (verde.BlockMean(spacing=1.0, uncertainty=True), (np.zeros(3), np.zeros(3)), np.ones(3)), {}

    tol = (1e-9, 1e-9)

    def ensures(self, a, r):
        est = a.self
        c = ctx()
        din = _tup(a.data)
        win = _tup(a.weights) if a.weights is not None else None
        ncomp = len(din)
        ok = isinstance(r, tuple) and len(r) == 3
        out = {"returns_coordinates_mean_weights": ok}
        if not ok:
            return out
        rc, rm, rw = r
        means = rm if isinstance(rm, tuple) else (rm,)
        wts = rw if isinstance(rw, tuple) else (rw,)
        out["unpacked_for_one_component"] = (isinstance(rm, tuple) == (ncomp > 1)) and len(means) == ncomp and len(wts) == ncomp
        if len(means) != ncomp or len(wts) != ncomp:
            return out
        if c.concrete:
            be, bn, labels = _concrete_blocks(a.coordinates, est)
            uniq = sorted(set(labels.tolist()))
            G = len(uniq)
            out["one_entry_per_non_empty_block"] = all(int(x.shape[0]) == G for x in means + wts)
            if not out["one_entry_per_non_empty_block"]:
                return out
            good_mean, good_w = True, True
            for k in range(ncomp):
                d = unwrap(flat(din[k]))
                w = unwrap(flat(win[k])) if win is not None else None
                var = []
                for g, lab in enumerate(uniq):
                    m = labels == lab
                    mu = float(np.average(d[m], weights=None if w is None else w[m]))
                    if abs(means[k].at(g) - mu) > 1e-9 * max(1, abs(mu)):
                        good_mean = False
                    if w is None:
                        var.append(float(np.var(d[m])))
                    elif est.uncertainty:
                        var.append(1.0 / float(w[m].sum()))
                    else:
                        var.append(float(np.average((d[m] - mu) ** 2, weights=w[m])))
                var = np.array(var)
                pos = var > 1e-15
                want = np.ones(G)
                if pos.any():
                    want[pos] = var[pos].min() / var[pos]
                got = np.array([wts[k].at(g) for g in range(G)])
                if not np.allclose(got, want, rtol=1e-7, atol=1e-12):
                    good_w = False
                if not (np.all(got > 0) and np.all(got <= 1 + 1e-12) and np.any(np.isclose(got, 1.0))):
                    good_w = False
            out["mean_is_the_weighted_mean_of_exactly_the_block_members"] = good_mean
            out["weights_follow_the_documented_rule_in_the_unit_interval_with_a_one"] = good_w
            return out
        bs = _block_split_ghost()
        out["blocks_from_one_block_split_of_the_coordinates"] = bs is not None
        if bs is None:
            return out
        bargs, (blocks, labels) = bs
        gs = structure_of(labels)
        G = gs.G
        vg = c.ghost.get("verde.utils:variance_to_weights", [])
        # (variance array, weights array) pairs in call order: one call per component, or one call with all of them in a
        # tuple / list (variance_to_weights converts each array of a tuple separately - its own contract)
        pairs = []
        for va, vr in vg:
            if isinstance(va.variance, (tuple, list)):
                res = vr if isinstance(vr, tuple) else (vr,)
                pairs += list(zip(va.variance, res)) if len(res) == len(va.variance) else [None]
            else:
                pairs.append((va.variance, vr))
        ok_pairs = len(pairs) == ncomp and None not in pairs
        out["each_components_variance_goes_through_variance_to_weights_once"] = ok_pairs
        if not ok_pairs:
            return out
        for k in range(ncomp):
            d = flat(din[k])
            var, vr = pairs[k]
            var = flat(var)
            out["component%d_weights_are_variance_to_weights_of_its_variance" % k] = wts[k] is vr or All(wts[k].shape[0] == G, Forall((G,), lambda g, k=k, vr=vr: wts[k].at(g) == flat(vr).at(g)))
            if win is None:
                mu = lambda g, d=d: agg_term("mean", gs, g, lambda p: d.at(p))
                vv = lambda g, d=d: agg_term("var_ddof0", gs, g, lambda p: d.at(p))
                rule = "block_variance"
            else:
                wk = flat(win[k])
                mu = lambda g, d=d, wk=wk: agg_term("average", gs, g, lambda p: d.at(p), lambda p: wk.at(p))
                if est.uncertainty:
                    vv = lambda g, wk=wk: div(1, agg_term("sum", gs, g, lambda p: wk.at(p)))
                    rule = "one_over_sum_of_input_weights"
                else:
                    vv = lambda g, d=d, wk=wk, mu=mu: agg_term("average", gs, g, lambda p: (d.at(p) - mu(g)) * (d.at(p) - mu(g)), lambda p: wk.at(p))
                    rule = "weighted_variance_about_the_weighted_mean"
            out["component%d_mean_is_the_weighted_mean_of_exactly_its_block" % k] = All(means[k].shape[0] == G, Forall((G,), lambda g, k=k, mu=mu: means[k].at(g) == mu(g)))
            out["component%d_variance_rule_is_%s" % (k, rule)] = All(var.shape[0] == G, Forall((G,), lambda g, var=var, vv=vv: var.at(g) == vv(g)))
        return out
