"""Sidecar contracts for verde.base.utils helpers shared by many properties."""
import numpy as np

from pyvc.arr import SymArr, as_array, havoc_array, new_array
from pyvc.concrete import wrap
from pyvc.contract import Contract, register
from pyvc.core import and_, ctx, iff, implies, is_sym, ite, not_, or_
from pyvc.spec import All, Forall

from .blocks_c08 import BU, flat
from .coordinates_c13 import _coords, _rand_coords


def _tup(x):
    return x if isinstance(x, tuple) else (x,)


def shapes_equal(a, b):
    if a.ndim != b.ndim:
        return False
    return and_(*[p == q for p, q in zip(a.shape, b.shape)]) if a.ndim else True


def ravel_copy(x):
    v = flat(x)
    sn = v.snapshot()
    return new_array(v.shape, lambda idx: sn(*idx), v.kind)


@register
class CheckFitInput(Contract):
    functional = True
    target = BU + ":check_fit_input"
    stubs = {"check_coordinates": BU + ":check_coordinates"}
    inline = ("check_data",)
    cover_raise = True

    def configs(self, tier):
        out = []
        for rank in (1, 2):
            for ncomp in (1, 2):
                for w in ("none", "match", "tuple_none"):
                    for unpack in (True, False):
                        out.append({"rank": rank, "ncomp": ncomp, "weights": w, "unpack": unpack, "same": True})
        out += [
            {"rank": 1, "ncomp": 1, "weights": "none", "unpack": True, "same": False},
            {"rank": 1, "ncomp": 2, "weights": "match", "unpack": True, "same": False},
            # rank 2: equal sizes do not imply equal shapes (transposed data must be rejected)
            {"rank": 2, "ncomp": 1, "weights": "none", "unpack": True, "same": False},
            {"rank": 2, "ncomp": 2, "weights": "match", "unpack": False, "same": False},
            {"rank": 1, "ncomp": 2, "weights": "one_for_two", "unpack": True, "same": True},
            {"rank": 1, "ncomp": 1, "weights": "wrong_size", "unpack": True, "same": True},
            {"rank": 2, "ncomp": 1, "weights": "wrong_size", "unpack": True, "same": True},
        ]
        return out

    def setup(self, B, cfg):
        rank, ncomp = cfg["rank"], cfg["ncomp"]
        coords = _coords(B, rank, 0, minsize=0)
        dims = coords[0].shape
        ddims = dims if cfg["same"] else tuple(B.dim("m%d" % k, 0) for k in range(rank))
        data = tuple(B.array("data%d" % k, ddims) for k in range(ncomp))
        w = cfg["weights"]
        if w == "none":
            weights = None
        elif w == "tuple_none":
            weights = tuple(None for _ in range(ncomp))
        elif w == "match":
            weights = tuple(B.array("w%d" % k, ddims) for k in range(ncomp))
        elif w == "one_for_two":
            weights = (B.array("w0", ddims),)
        else:
            weights = tuple(B.array("w%d" % k, tuple(B.dim("wn%d" % j, 0) for j in range(rank))) for k in range(ncomp))
        if ncomp == 1:
            data = data[0]
            if isinstance(weights, tuple) and w != "tuple_none":
                weights = weights[0]
        return (coords, data, weights), dict(unpack=cfg["unpack"])

    def requires(self, a):
        # the code calls .size on every weight when at least one is not None: mixed None / array weights are outside the contract
        w = _tup(a.weights)
        if any(x is None for x in w) and not all(x is None for x in w):
            return False
        return True

    def raises(self, a):
        coords, data, weights = a.coordinates, _tup(a.data), _tup(a.weights)
        conds = []
        first = coords[0]
        conds.append(or_(*[not_(shapes_equal(x, first)) for x in coords[1:]]) if len(coords) > 1 else False)
        conds.append(or_(*[not_(shapes_equal(d, first)) for d in data]))
        if any(x is not None for x in weights):
            if len(weights) != len(data):
                conds.append(True)
            else:
                from pyvc import known

                if known.active("F8"):
                    # known finding F8 (C20): only the SIZES are compared, so equal-size weights of a different
                    # shape are accepted and raveled; the carve-out is exactly that input class
                    conds.append(or_(*[w.size != d.size for w in weights for d in data]))
                else:
                    conds.append(or_(*[not_(shapes_equal(w, d)) for w in weights for d in data]))
        return [(ValueError, or_(*conds))]

    def havoc(self, a):
        data, weights = _tup(a.data), _tup(a.weights)
        if any(x is not None for x in weights):
            weights = tuple(ravel_copy(w) for w in weights)
        else:
            weights = tuple([None] * len(data))
        if a.unpack:
            if len(weights) == 1:
                weights = weights[0]
            if len(data) == 1:
                data = data[0]
        return (a.coordinates, data, weights)

    def samples(self, rng, nrng, tier):
        for _ in range(40):
            rank = rng.choice([1, 2])
            ncomp = rng.choice([1, 2, 3])
            arrs = _rand_coords(rng, nrng, rank, ncomp * 2)
            coords, data, weights = arrs[:2], arrs[2 : 2 + ncomp], arrs[2 + ncomp :]
            mode = rng.choice(["none", "ok", "ok", "bad_data", "bad_count"])
            if ncomp == 1:
                d, w = data[0], weights[0]
            else:
                d, w = tuple(data), tuple(weights)
            if mode == "none":
                w = None
            elif mode == "bad_data":
                d = np.zeros(99) if ncomp == 1 else (np.zeros(99),) + tuple(data[1:])
            elif mode == "bad_count" and ncomp > 1:
                w = tuple(weights[:-1])
            yield (tuple(coords), d, w), dict(unpack=rng.random() < 0.5)
        # weights as a pandas Series whose index is NOT 0..n-1 in order (a column of a sorted / shuffled table): what
        # comes back must be a plain, positionally indexed 1-D array
        import pandas as pd

        for _ in range(4):
            n = rng.randint(3, 9)
            e, nn, dd, ww = (nrng.uniform(-3, 3, n) for _ in range(4))
            yield ((e, nn), dd, pd.Series(np.abs(ww) + 0.1, index=nrng.permutation(n))), dict(unpack=True)

    def ensures(self, a, r):
        ok = isinstance(r, tuple) and len(r) == 3
        out = {"returns_triple": ok}
        if not ok:
            return out
        coords, data, weights = r
        din, win = _tup(a.data), _tup(a.weights)
        out["coordinates_returned_unchanged"] = coords is a.coordinates
        dout = data if isinstance(data, tuple) else (data,)
        out["data_components_are_the_given_arrays"] = len(dout) == len(din) and all(x is y for x, y in zip(dout, din))
        out["data_unpacked_iff_single_and_unpack"] = isinstance(data, tuple) == (not (a.unpack and len(din) == 1))
        wout = weights if isinstance(weights, tuple) else (weights,)
        out["weights_unpacked_iff_single_and_unpack"] = isinstance(weights, tuple) == (not (a.unpack and len(wout) == 1))
        if all(x is None for x in win):
            out["no_weights_gives_one_none_per_component"] = len(wout) == len(din) and all(x is None for x in wout)
        else:
            okw = len(wout) == len(win) and all(isinstance(x, SymArr) and x.ndim == 1 for x in wout)
            out["weights_are_1d"] = okw
            if okw:
                for k, (x, y) in enumerate(zip(win, wout)):
                    f = flat(wrap(np.asarray(x)) if type(x).__name__ == "Series" else x)
                    out["weight%d_is_c_order_ravel_of_its_own_component" % k] = All(y.shape[0] == f.shape[0], Forall(f.shape, lambda p, f=f, y=y: y.at(p) == f.at(p)))
        return out
