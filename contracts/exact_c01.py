"""Contracts for property C01: exact interpolation.

Deductive part (over the reals): lemmas executed on the REAL fit/predict methods with their callees
replaced by contracts.  Numerical part (tolerance proportional to the conditioning): bounded only."""
import numpy as np

from pyvc import spec as S
from pyvc.arr import SymArr, as_array, flat_index, havoc_array, new_array
from pyvc.concrete import unwrap, wrap
from pyvc.contract import REGISTRY, Args, Contract, default_patches, register
from pyvc.core import and_, ctx, implies, is_sym, not_, or_, sqdist
from pyvc.prelude_np import NP
from pyvc.spec import All, Forall, Imp, close, hint
from pyvc.sums import PartialSum, apply_sum_congruence, sum_is

from .blocks_c08 import BU, flat
from .coordinates_c07 import M
from .coordinates_c13 import _coords, _rand_coords
from .lsq_c02 import LS, LSQ_NONSINGULAR
from .spline_c03 import _PredictSpec, kernel

import verde


def lemma_spline_exact(est, coordinates, data):
    est.fit(coordinates, data)
    return est.predict(coordinates)


@register
class LemmaSplineExact(Contract):
    """Undamped Spline with forces at the data points reproduces the data at the data points."""

    target = "contracts.exact_c01:lemma_spline_exact"
    native_replay = False
    pure = True

    def patch_modules(self, P):
        import verde.spline as sp
        from pyvc.contract import make_stub

        default_patches(P, sp)
        for name, key in (("check_fit_input", BU + ":check_fit_input"), ("n_1d_arrays", BU + ":n_1d_arrays"), ("get_region", M + ":get_region"), ("least_squares", LS + ":least_squares"), ("predict_numpy", "verde.spline:predict_numpy")):
            P.set(sp, name, make_stub(REGISTRY[key], "lemma"))
        P.set_attr(sp.Spline, "jacobian", make_stub(REGISTRY["verde.spline:Spline.jacobian"], "lemma"))

    def configs(self, tier):
        return [{"rank": 1}, {"rank": 2}]

    def setup(self, B, cfg):
        est = verde.Spline.__new__(verde.Spline)
        est.mindist, est.damping, est.force_coords, est.engine = B.real("mindist"), None, None, "auto"
        coords = _coords(B, cfg["rank"], 0, minsize=1)
        return (est, coords, B.array("data", coords[0].shape)), {}

    def requires(self, a):
        return and_(a.est.mindist >= 0, LSQ_NONSINGULAR())

    def ensures(self, a, r):
        c = ctx()
        est, d = a.est, a.data
        out = {"prediction_has_the_data_shape": isinstance(r, SymArr) and r.ndim == d.ndim and and_(*[x == y for x, y in zip(r.shape, d.shape)])}
        g = c.ghost.get(LS + ":least_squares", [])
        pss = c.ghost.get("lsq_ps", [])
        out["one_undamped_solve"] = len(g) == 1 and len(pss) == 1
        if not out["one_undamped_solve"]:
            return out
        la, force = g[0]
        psJ = pss[0]  # sum_t J[p,t] * force[t], equal to the data by the (assumed) exactness of the solve
        psK = _PredictSpec.build(a.coordinates[0], a.coordinates[1], est.force_coords_[0], est.force_coords_[1], est.mindist, est.force_)
        n = flat(d).shape[0]
        out["system_is_square"] = and_(la.jacobian.shape[0] == la.jacobian.shape[1], la.jacobian.shape[0] == n)
        # predict and jacobian use the same kernel, mindist and force order: sum_t K(p,t) f_t = sum_t J[p,t] f_t
        apply_sum_congruence("predict_equals_jacobian_times_force", psK, psJ, (n,))
        dshape = d.shape
        out["prediction_at_the_data_points_equals_the_data"] = Forall(dshape, lambda *ix: All(sum_is(r.at(*ix), psK, (flat_index(ix, dshape),)), psK.total(flat_index(ix, dshape)) == flat(d).at(flat_index(ix, dshape))))
        return out


def lemma_knn_exact(est, coordinates, data):
    est.fit(coordinates, data)
    return est.predict(coordinates)


@register
class LemmaKnnExact(Contract):
    """KNeighbors(k=1) fitted to pairwise-distinct points returns each datum at its own point."""

    target = "contracts.exact_c01:lemma_knn_exact"
    native_replay = False

    def patch_modules(self, P):
        import verde.neighbors as nb
        from pyvc.contract import make_stub

        default_patches(P, nb)
        for name, key in (("check_fit_input", BU + ":check_fit_input"), ("n_1d_arrays", BU + ":n_1d_arrays"), ("get_region", M + ":get_region"), ("kdtree", "verde.utils:kdtree")):
            P.set(nb, name, make_stub(REGISTRY[key], "lemma"))

    def configs(self, tier):
        return [{"rank": 1}, {"rank": 2}]

    def setup(self, B, cfg):
        est = verde.KNeighbors.__new__(verde.KNeighbors)
        est.k, est.reduction = 1, NP.mean
        coords = _coords(B, cfg["rank"], 0, minsize=1)
        return (est, coords, B.array("data", coords[0].shape)), {}

    def requires(self, a):
        e, n = flat(a.coordinates[0]), flat(a.coordinates[1])
        npts = e.shape[0]
        return Forall((npts, npts), lambda p, j: implies(p != j, sqdist((e.at(p), n.at(p)), (e.at(j), n.at(j))) > 0))

    def ensures(self, a, r):
        d = a.data
        dshape = d.shape

        def same(*ix):
            p = flat_index(ix, dshape)
            g = ctx().ghost.get("kd.query", [])
            if g:
                hint(p, g[-1][4].at(p))  # distinctness at (p, nearest index of p)
                hint(p, p)
            return r.at(*ix) == d.at(*ix)

        return {
            "prediction_has_the_data_shape": isinstance(r, SymArr) and r.ndim == d.ndim and and_(*[x == y for x, y in zip(r.shape, d.shape)]),
            "prediction_at_the_data_points_equals_the_data": Forall(dshape, same),
        }


# ------------------------------------------------------------------ bounded: numerics


def exact_fit_predict(kind, coordinates, data, params):
    """Fit an 'exact' interpolator and predict at the data points; returns (prediction, condition number or None)."""
    cond = None
    params = dict(params)
    refit = params.pop("_refit", False)
    if kind == "spline":
        est = verde.Spline(**params)
    elif kind == "vector":
        est = verde.VectorSpline2D(**params)
    elif kind == "knn":
        est = verde.KNeighbors(k=1)
    elif kind == "linear":
        est = verde.Linear(**params)
    elif kind == "cubic":
        est = verde.Cubic(**params)
    elif kind == "chain":
        # (both steps under ONE label: labels are only labels, Chain never asks for distinct ones)
        est = verde.Chain([("step", verde.Trend(1)), ("step", verde.Spline())])
    elif kind == "vector_of":
        est = verde.Vector([verde.Spline(), verde.KNeighbors(k=1)])
    import warnings

    with warnings.catch_warnings():
        warnings.simplefilter("ignore")
        if refit:
            # a REUSED estimator: first fitted to other points (fewer, elsewhere), then to the points in question
            k = max(3, np.asarray(coordinates[0]).size - 2)
            other = tuple(np.ravel(c)[:k] * 1.37 + 0.11 * (i + 1) * (np.ptp(np.ravel(c)) + 1.0) for i, c in enumerate(coordinates))
            other_data = tuple(np.ravel(d)[:k] * 0.5 + 1.0 for d in data) if isinstance(data, tuple) else np.ravel(data)[:k] * 0.5 + 1.0
            est.fit(other, other_data)
        est.fit(coordinates, data)
        pred = est.predict(coordinates)
        # a clone must behave identically (and exercises get_params on the configuration)
    inner = est
    if kind == "chain":
        inner = est.steps[-1][1]
    if kind in ("spline", "chain"):
        J = inner.jacobian(coordinates, inner.force_coords_)
        S_ = J.std(axis=0)
        S_[S_ == 0] = 1
        cond = float(np.linalg.cond(J / S_))
    if kind == "vector":
        J = est.jacobian(coordinates, est.force_coords)
        S_ = J.std(axis=0)
        S_[S_ == 0] = 1
        cond = float(np.linalg.cond(J / S_))
    return pred, cond


def _distinct_points(rng, nrng, n, scale, offset):
    pts = set()
    while len(pts) < n:
        pts.add((rng.randint(0, 40), rng.randint(0, 40)))
    pts = np.array(sorted(pts), dtype=float)
    jitter = nrng.uniform(-0.3, 0.3, pts.shape)
    pts = (pts + jitter) / 40.0
    return offset + scale * pts[:, 0], offset + scale * pts[:, 1]


@register
class ExactFitPredict(Contract):
    """Run-time contract (BOUNDED): misfit at the data points <= c * cond * eps * |data|."""

    target = "contracts.exact_c01:exact_fit_predict"
    cover_return = False

    def configs(self, tier):
        return []

    def samples(self, rng, nrng, tier):
        n_rep = 6 if tier == "thorough" else 2
        for scale in (1e-2, 1.0, 1e3, 1e6):
            for offrel in (0.0, 1.0, 1e3):
                for _ in range(n_rep):
                    n = rng.randint(4, 14)
                    e, nn = _distinct_points(rng, nrng, n, scale, offrel * scale)
                    d = nrng.uniform(-5, 5, n) * rng.choice([1.0, 1e3])
                    if rng.random() < 0.5:
                        e2, n2, d2 = e.reshape(2, -1) if n % 2 == 0 else e, nn.reshape(2, -1) if n % 2 == 0 else nn, d.reshape(2, -1) if n % 2 == 0 else d
                    else:
                        e2, n2, d2 = e, nn, d
                    for kind, params in (("spline", {}), ("spline", {"mindist": scale * rng.choice([1e-3, 5e-2])}), ("knn", {}), ("linear", {"rescale": rng.random() < 0.5}), ("cubic", {"rescale": rng.random() < 0.5}), ("chain", {})):
                        yield (kind, (e2, n2), d2, params), {}
                    yield ("vector", (e2, n2), (d2, -2 * d2 + 1), {"poisson": rng.choice([-1.0, -0.5, 0.5, 1.0]), "mindist": scale * rng.choice([1e-3, 1e-1])}), {}
                    yield ("vector_of", (e2, n2), (d2, d2 * 0.5), {}), {}
                    # reused objects (fitted before on other points) must be as exact as fresh ones
                    for kind in ("spline", "knn", "linear", "chain"):
                        yield (kind, (e2, n2), d2, {"_refit": True}), {}
                    yield ("vector_of", (e2, n2), (d2, d2 * 0.5), {"_refit": True}), {}

    def ensures(self, a, r):
        pred, cond = r
        kind = a.kind
        data = a.data if isinstance(a.data, tuple) else (a.data,)
        preds = pred if isinstance(pred, tuple) else (pred,)
        out = {"same_number_of_components": len(preds) == len(data)}
        if len(preds) != len(data):
            return out
        eps = 2.0**-52
        # tolerance proportional to the conditioning of the (column-scaled) system; 1 for the local interpolators
        kappa = cond if cond is not None else 1.0
        worst = 0.0
        for p, d in zip(preds, data):
            p, d = unwrap(p), unwrap(d)
            out["component_shape_preserved"] = p.shape == d.shape
            scale = float(np.abs(d).max()) + 1e-300
            worst = max(worst, float(np.abs(p - d).max()) / scale)
        # scikit-learn >= 1.x solves the undamped spline with lstsq(cond=tol): beyond ~1e6 conditioning singular values are
        # truncated - outside the stated tolerance model; such systems are reported as KNOWN-FINDING F6, not checked here
        if kappa > 1e5:
            out["conditioning_within_the_checked_range"] = True
            return out
        out["misfit_at_the_data_points_within_conditioning_tolerance"] = worst <= 1e4 * kappa * eps + 1e-12
        return out


def trend_reproduces_polynomial(degree, coefficients, coordinates, query):
    import warnings

    combos = verde.trend.polynomial_power_combinations(degree)
    poly = lambda e, n: sum(c * e**i * n**j for c, (i, j) in zip(coefficients, combos))
    with warnings.catch_warnings():
        warnings.simplefilter("ignore")
        est = verde.Trend(degree).fit(coordinates, poly(*coordinates))
    return est.predict(query), poly(*query)


@register
class TrendReproducesPolynomial(Contract):
    """Run-time contract (BOUNDED): Trend(N) fitted to a polynomial of degree <= N reproduces it everywhere."""

    target = "contracts.exact_c01:trend_reproduces_polynomial"
    cover_return = False

    def configs(self, tier):
        return []

    def samples(self, rng, nrng, tier):
        for degree in range(0, 5):
            for _ in range(4 if tier == "thorough" else 2):
                ncoef = (degree + 1) * (degree + 2) // 2
                low = rng.randint(0, degree)
                coefs = nrng.uniform(-2, 2, ncoef)
                combos = [(i, j) for d in range(degree + 1) for (i, j) in [(d - j, j) for j in range(d + 1)]]
                coefs = np.array([c if (i + j) <= max(low, 0) or rng.random() < 0.7 else 0.0 for c, (i, j) in zip(coefs, combos)])
                e, n = _distinct_points(rng, nrng, max(3 * ncoef, 10), 2.0, -1.0)
                q = (nrng.uniform(-1.5, 1.5, 7), nrng.uniform(-1.5, 1.5, 7))
                yield (degree, coefs, (e, n), q), {}
        # the coordinate scales of the quantifier (1e-2 .. 1e6): monomial columns then differ by up to 16 orders of
        # magnitude; coefficient (i, j) scaled by scale**-(i+j) so that every term matters
        for scale in (1e-2, 1e-2, 1e3, 1e6):
            for degree in ((4, 3) if scale == 1e-2 else (rng.randint(2, 4),)):
                ncoef = (degree + 1) * (degree + 2) // 2
                combos = [(i, j) for d in range(degree + 1) for (i, j) in [(d - j, j) for j in range(d + 1)]]
                coefs = np.array([c * scale ** -(i + j) for c, (i, j) in zip(nrng.uniform(0.5, 2, ncoef) * nrng.choice([-1, 1], ncoef), combos)])
                e, n = nrng.uniform(-scale, scale, 60), nrng.uniform(-scale, scale, 60)
                q = (nrng.uniform(-1.5 * scale, 1.5 * scale, 9), nrng.uniform(-1.5 * scale, 1.5 * scale, 9))
                yield (degree, coefs, (e, n), q), {}

    def ensures(self, a, r):
        pred, truth = unwrap(r[0]), unwrap(r[1])
        scale = float(np.abs(truth).max()) + 1.0
        return {"polynomial_reproduced_at_every_location": bool(np.allclose(pred, truth, atol=1e-7 * scale, rtol=0))}
